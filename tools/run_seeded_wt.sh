#!/usr/bin/env bash
# usage: tools/run_seeded_wt.sh <seeded-dir> "<check ids>"
# Tries a seeded change WITHOUT touching /repo: a scratch worktree of /repo's HEAD gets the patch, the checks run against it
# (VP_REPO + PYTHONPATH), evidence goes to a scratch directory, and worktree and scratch are removed afterwards.
set -u
D="$(realpath "$1")"; CHECKS="$2"
cd "$(dirname "$0")/.."
N="$(basename "$D")"
WT="/tmp/vp_seedwt_$N"; SC="/tmp/vp_seedsc_$N"
git -C /repo worktree remove --force "$WT" 2>/dev/null; rm -rf "$WT" "$SC"
git -C /repo worktree add --detach "$WT" HEAD >/dev/null 2>&1 || { echo "worktree failed"; exit 2; }
trap 'git -C /repo worktree remove --force "$WT" 2>/dev/null; rm -rf "$WT" "$SC"; echo "[removed $WT]"' EXIT
git -C "$WT" apply "$D/patch.diff" || { echo "patch does not apply"; exit 2; }
mkdir -p "$SC"
for c in $CHECKS; do
  VP_REPO="$WT" VP_SCRATCH="$SC" PYTHONPATH="$WT" VERIF_SEED=${VERIF_SEED:-0} ./check $c quick > /tmp/seeded_${N}_$c.log 2>&1; rc=$?
  echo "== $N $c exit=$rc violations=$(grep -c '^VIOLATION' /tmp/seeded_${N}_$c.log) harness=$(grep -c '^HARNESS' /tmp/seeded_${N}_$c.log)"
  grep '^VIOLATION\|^HARNESS' /tmp/seeded_${N}_$c.log | cut -c1-260 | head -4
done
