#!/usr/bin/env bash
# usage: tools/seeded_regression.sh [parallelism]   -- every seeded change must still be caught by the check of its property
# (scratch worktrees; /repo is not touched).  Prints one line per seed; exit 1 if any seed is missed.
cd "$(dirname "$0")/.."
P=${1:-4}
ls -d seeded/*/ | sed 's#/$##' | xargs -P "$P" -I{} bash -c '
  d={}; if python3 -c "import json,sys; sys.exit(0 if json.load(open(sys.argv[1]+\"/meta.json\")).get(\"obsolete_since\") else 1)" $d; then echo "== $(basename $d) OBSOLETE (no longer breaks the property on the current tree; see meta.json) violations=n/a"; exit 0; fi
  prop=$(python3 -c "import json,sys; m=json.load(open(sys.argv[1]+\"/meta.json\")); print(m.get(\"check_with\", m[\"property\"]))" $d)
  out=$(tools/run_seeded_wt.sh $d "$prop" 2>&1 | grep "^== ")
  echo "$out"'  | tee /tmp/seeded_regression.out
if grep -q "violations=0" /tmp/seeded_regression.out; then echo "MISSED:"; grep "violations=0" /tmp/seeded_regression.out; exit 1; fi
echo "all $(wc -l < /tmp/seeded_regression.out) seeded changes are caught"
