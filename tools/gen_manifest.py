#!/usr/bin/env python3
"""Regenerates MANIFEST.json from the table below (keeps it schema-valid at all times)."""
import json, os, sys
HERE = os.path.dirname(os.path.dirname(os.path.abspath(__file__)))

NA_FINAL = {
    "C08": "oracle is PyTorch eager (compiled ATen kernels): cannot be encoded for a solver; a hand model of ~550 operators would be a second implementation (DESIGN.md §5 C08)",
    "C15": "field-by-field equality of concrete protobuf messages and byte preservation through onnx_ir serde (installed package): no domain a solver can quantify over; symbolic values are realised at the protobuf C boundary (DESIGN.md §5 C15)",
    "C16": "exhaustive comparison of two finite tables (registry vs installed torch schemas): decided by reading them, a solver adds no quantifier (DESIGN.md §5 C16/C17)",
    "C17": "exhaustive comparison of generated opset classes against onnx.defs: finite table comparison, no solver quantifier (DESIGN.md §5 C16/C17)",
    "C19": "fused operators are onnxruntime com.microsoft contrib kernels (compiled code) over erf/tanh/exp/softmax: not encodable without re-specifying ORT (DESIGN.md §5 C19)",
}

S_NOTE = ("Trusted: symonnx operator semantics (mine; validated at every run against the ONNX backend node-test data through the "
          "same rule code, concretely and with symbolic inputs), z3 5.1; floats are reals and int64 unbounded ints (NaN/inf/overflow/"
          "rounding outside the claim); loops unrolled with an unwinding assumption; transcendental ops uninterpreted. Every sat is "
          "replayed on onnxruntime (optimisations off) / the real eager evaluator before it is reported.")

CLAIMED = {
    "C01": dict(
        category="translation_validation", design_ref="§5 C01", engine="S",
        text="For each program (hand-written core exhausting the interaction shapes + seeded random typed grammar) and input-shape assignment, the real eager path is executed over symbolic tensors (forking on tensor->bool/int), the protos from the real converter are interpreted symbolically, and z3 decides per eager path that outputs agree for ALL input values; both the to_model_proto and the to_function_proto leg. Structure enumerated, values decided. Side verdict (structural): every operator an eager path executes must occur in the exported graph, and every call of a non-schema domain must find its FunctionProto in the model; a difference is replayed on the real eager code / onnxruntime with NaN and +-inf inputs (the only place where e.g. Not(Greater) and LessOrEqual differ). Core corpus extended: uses that are not plain operands (loop bound, keyword-input expressions), float %, repeated subscripts needing temporaries, Python constants merged by an If; index arithmetic inside Tensor.__getitem__ is exempt from the operator-correspondence side verdict; a proto onnx_ir cannot deserialize is a malformed verdict.",
        note=S_NOTE, technique="translation validation: symbolic ONNX semantics + forking symbolic eager execution, z3 equivalence per path, ORT/eager replay"),
    "C02": dict(
        category="other", design_ref="§5 C02", engine="X+S",
        text="(a) solver: CrossHair/z3 inductive step of the converter's name allocator from an arbitrary pre-state (any subset of a 6-name collision table, counter 0..2, any candidate): fresh, recorded, monotone - covers allocation histories of any length over those names. (b) enumeration (labelled so in evidence): every FunctionProto/ModelProto of the C01 corpus passes an independent structural checker (SSA, scoping, subgraph outputs, outputs distinct / not inputs, one import per used domain, every call resolved to an operator of a known domain or a model-local function) and onnx.checker strict on typed variants (output types taken from the symbolic eager run); near-miss programs must be refused - an accepted near-miss is itself a violation - with a source position.",
        note="Trusted: CrossHair models; my structural checker; onnx.checker. Part (b) decides nothing beyond the corpus; the allocator lemma is bounded by the table and counter range.",
        technique="symbolic execution (CrossHair+z3) inductive-step lemma + structural checking of emitted protos over a generated corpus"),
    "C03": dict(
        category="translation_validation", design_ref="§5 C03", engine="S",
        text="For each generated model (typed random DAGs with constants, initializer-inputs, shape chains, casts, If/Loop bodies with captured values and own initializers, pass-through branches, sequences, Dropout, zero-size tensors, local functions with attribute refs; a third of them with a random valid topological node order; plus the rule hosts incl. control-flow, Shape<start,end>, ConvInteger/ConvTranspose/QLinearConv, sequence ops at opsets 13/17/18, model-local functions with reference attributes at depth 0-2, and overridable defaults of shape-like / control operands - where the symbolic semantics cannot follow a data-dependent target, a few concrete override candidates are enumerated) and each transformation/option tuple (optimize on proto and IR, fold_constants, default rewrite, non-default size limits, remove_unused_nodes): symonnx interprets M and f(M) on the same symbolic inputs and z3 decides equality of all outputs for ALL input values (exact; floats additionally under a forward-error bound when the exact query is sat).",
        note=S_NOTE, technique="translation validation: symbolic ONNX semantics of M and optimize(M), z3 equivalence for all inputs, onnxruntime replay"),
    "C04": dict(
        category="translation_validation", design_ref="§5 C04", engine="S",
        text="Same runs as C03 on a disjoint seed: the solver part decides equivalence over the override values of initializer-inputs (a folded default yields a counterexample v != default); totality (no exception), validity of the result (independent structural checker + onnx.checker, relative to the input) and signature preservation are side verdicts of the enumerated runs, labelled as such. The value verdict also covers the overridable_defaults family (operands of shipped rewrite rules - Slice bounds, Unsqueeze axes, Reshape targets, Expand shapes - as overridable inputs); control-flow hosts include branches whose output is one of their own initializers.",
        note=S_NOTE + " Side verdicts are enumeration, not solver verdicts.", technique="translation validation with symbolic override values for initializer-inputs; structural side verdicts per run"),
    "C05": dict(
        category="translation_validation", design_ref="§5 C05", engine="S",
        text="For every rule exported by rules.common (all 53 encoded; every rule fires on some host except dropout_inference_rule, which is shown vacuous from the installed schemas at every run) and every host of the rule's families (instances and near-misses over operand ranks 0-3, [1]/[1,1] constants, inverted/eps/almost-1 constants, three constant forms incl. overridable graph inputs, attribute variants, zero-size dims, rank-raising one-element constants, ScatterND reductions, sequence ops at opsets 13/17/18): the single rule is applied with the real RewriteRuleSet; where it fires symonnx interprets host and result and z3 decides equality of all outputs for ALL input values (forward-error bound for recomputed float constants); validity for the declared opset is part of the schema-keyed interpretation. Symbolic-declaration leg: hosts of the families whose rules read declared shapes are re-declared in nine modes (shared / distinct / unnamed symbols, leading dim only, distinct symbols beside a static 1, anonymous value_info dims), the rule is applied once to the declared model and, where it fires, original and result are compared by z3 for every binding of <=4 symbols over {0,1,2,3,7}. Second layer (added): CrossHair/z3 side-condition lemmas on the CURRENT source of the rules' check/rewrite functions with constants, attributes, static dims and the runtime values of symbolic / anonymous dims as unbounded symbolic integers: TransposeTranspose (all permutation pairs, rank 2-3 quick, 4 thorough), TransposeIdentity, UnsqueezeUnsqueeze (all axes, rank 0..4), collapse_slice, SlicesSplit (found the odd-last-dim defect), MaterializeReshapeShape (found the [-1,0] allowzero defect), Expand-before-binary-op strategies 1-3 (ranks 0..2 of x, y; target rank 1..3); hosts now span every operator of _BROADCAST_BINARY_OPS with its attributes, Conv padding-attribute variants for the affine fusions, mixed-rank Min/Max constants; quick thinning is stratified by tag shape. Further lemmas: reshape-matmul-reshape shape condition (found the contraction-dim defect), fill_pads_with_axes, auto_pad SAME pads for every input size; hosts: matmul_add_to_gemm over degenerate / coinciding sizes and every bias shape.",
        note=S_NOTE + " Bindings of the symbolic leg are enumerated, values under each binding decided by z3. rules.fusion (sqrt/trig identities) is outside the claim; QLinearConv is encoded for concrete scales only; float16 rounding is not modelled (floats are reals).",
        technique="translation validation per rule and host: symbolic ONNX semantics, z3 equivalence for all inputs, onnxruntime replay; CrossHair+z3 integer side-condition lemmas on the rules' real check/rewrite functions"),
    "C09": dict(
        category="translation_validation", design_ref="§5 C09", engine="S",
        text="Host models (shape-computation models + rule hosts) are re-declared with symbolic input dims (nine modes: shared names, distinct names for equal sizes, unnamed, leading-dim only, distinct symbols beside a static 1, anonymous value_info dims); optimize() runs once per declared model; for every binding of <=3 symbols to {0,1,2,3,7} symonnx interprets original and optimized model at the bound shapes and z3 decides equality for all input values; a binding on which exactly one model fails is a counterexample (same accepted inputs). Second layer (added): CrossHair/z3 lemmas on the predicates and partial evaluators that justify the simplifications, for EVERY binding (dim kinds by bounded symbolic index, static dims and runtime values unbounded symbolic integers): optimizer._same_shape, _ir_utils.same_shape / same_dim, the Expand and Reshape evaluators on real ir.Node / OptimizerState objects, _merge_shapes (ranks 0..2 quick, 3 thorough).",
        note=S_NOTE + " Bindings are enumerated over {0,1,2,3,7}; values under each binding are decided by z3.",
        technique="translation validation under enumerated shape bindings: symbolic ONNX semantics, z3 equivalence, onnxruntime replay; CrossHair+z3 predicate/evaluator lemmas over all bindings"),
    "C06": dict(
        category="other", design_ref="§5 C06", engine="X",
        text="CrossHair/z3 symbolic execution of the real Pattern.match on sixteen structure classes; host leaves are symbolic (op-type and domain indices over an alphabet with 'other', unbounded attribute ints, constant value from an edge table, sharing / extra-consumer / graph-output booleans); verdict and bindings must equal a declarative spec of 'is an instance' (incl. commute=True vs plain vs non-commutative ops, allow_other_inputs/attributes in all three settings, OR alternatives with tag and backtracking ORs that share a variable or a node pattern with their context, optional / typed / reference attributes, one of two outputs, multi-output anchoring, removability). Structure classes and wiring are enumerated. Classes added: c19 explicit-None input with/without allow_other_inputs, c20 pattern node with more outputs than the host node, c21 numeric pattern constant against non-numeric payloads, c22 commute over a backtracking OR without tag variable (22 classes).",
        note="Trusted: CrossHair models; my per-class specs (validated by concrete sweeps); const_value stub. Host wiring beyond the sixteen classes is outside the claim; one recorded region (a backtracking OR commits to its first local success).",
        technique="symbolic execution (CrossHair+z3) of the real matcher against declarative instance specs, vacuity twins"),
    "C07": dict(
        category="translation_validation", design_ref="§5 C07", engine="S",
        text="Seventeen generated rules (re-emission via a different op, operand swap, double transpose/negation, x*1 - also with a replacement that returns the pattern input itself -, two-output and two-root patterns with consumers between the matched nodes, replacement with a new initializer, as_function, remove_nodes=False, a rule with per-graph state kept through the visitor hooks) whose p==r is itself proved on the k=1 host; hosts with k<=3 separated/adjacent instances, matched outputs that are graph outputs, intermediates with extra consumers, instances inside If bodies (depth<=2), Loop bodies, model-local functions and If branches of functions, one value bound to several pattern inputs, initializer name clashes; random hosts (6 quick / 150 thorough per rule). symonnx + z3 decide [[M]] == [[rewrite(M,[rule])]] for all inputs; validity, signature, unmatched-node multiset and minimum application count are side verdicts. Plus a CrossHair/z3 inductive-step lemma on the as_function overload allocator (_get_new_overload) from an arbitrary set of existing functions (7-key table, gaps included). Rules added: a two-output pattern returned outer-first (several outputs below one output node) and an as_function rule applied through commute=True.",
        note=S_NOTE + " Rules must be terminating (a replacement containing its own pattern makes the rewriter loop: property of the rule). Metadata merging unchecked.",
        technique="translation validation of generated rewrite rules on generated hosts: symbolic ONNX semantics, z3 equivalence, structural side verdicts; CrossHair+z3 inductive-step lemma on the overload allocator"),
    "C10": dict(
        category="translation_validation", design_ref="§5 C10", engine="S",
        text="Matrix source/target 18..25 x entry {ir.Model, ModelProto} x fallback {True, False} over models with the three adapter ops (GroupNormalization exact, DFT/GridSample uninterpreted over canonical attributes), unchanged ops, If-subgraphs, model-local functions, initializer-inputs; plus legacy sources 10/11/13 with attribute-form Pad/Squeeze/Unsqueeze/ReduceSum/Split/ReduceMean converted to 18/21 (outside the property's quantifier, inside its statement: a refusal must leave the old form under the old declaration). symonnx interprets each side under the opset it DECLARES (schema arity/attribute validation), so a half-converted model is a semantic counterexample; z3 decides equality for all inputs; declared version, function opsets, signature, initializers and the (num_groups, epsilon, stash_type) of every GroupNormalization are side verdicts.",
        note=S_NOTE, technique="translation validation keyed by declared opset: symbolic ONNX semantics, z3 equivalence"),
    "C12": dict(
        category="other", design_ref="§5 C12", engine="Z+X",
        text="(Z) for every promotion pipeline observed on the real front ends (python type -> constant dtype -> cast target), z3 QF_FP/BV at full bit width is asked for a Python float/int on which two front ends produce bitwise different tensors, and for two literals that share a GraphBuilder cache key but differ in bits (key relation probed on the real builder). (X) CrossHair differential lemma: autocast.cast_inputs and BuilderBase._cast_inputs choose the same cast target on abstract signatures; cache lemma on the real GraphBuilder._get_or_create_constant: two literals (11 kinds: scalars, 1-3 element lists, tuples x 4 payloads), 5 dtypes, root/child builder and order are solver variables concretised by comparison forks; each returned tensor must be exactly np.asarray(literal, dtype). (A) registry-exhaustive enumeration, labelled: 260 schemas x positions x literals x sibling dtypes through the three real front ends at unit level.",
        note="Trusted: z3 FP/BV theory; pipeline models validated against numpy conversions on concrete literals at every run; CrossHair models. Part (A) is enumeration over the installed schema registry.",
        technique="z3 floating-point/bit-vector queries over pipeline models extracted from the real front ends + CrossHair differential lemma + registry enumeration"),
    "C13": dict(
        category="translation_validation", design_ref="§5 C13", engine="S+X",
        text="For typed models from the script corpus (incl. adversarially renamed values: dots, digits, keywords, names colliding after clean-up) operator tables (every operator the exporter may render in infix form, with attributes; infix-only graphs), constants in both operand positions, FunctionProtos with attribute parameters, models with model-local functions (the FunctionProtos of the generated functions are attached by hand; that the default to_model_proto() does not carry them is a recorded finding) and tensor-typed generated models x export options: the generated source must compile, decorate, keep the signature, keep every constant tensor bit for bit where it is not inlined (decides NaN / infinities / signed zeros / strings, which the real-valued semantics cannot), and symonnx + z3 decide [[roundtrip]] == [[original]] for ALL inputs (initializer-inputs symbolic). (X) CrossHair lemmas on the naming helpers (identifier-ness, idempotence, injectivity and stability of the short mapper and of the unique-name mapper over 3/4 requests from tables with triple collisions and generated-suffix names, attribute-conflict renamer).",
        note=S_NOTE + " skip_initializers: the generated make_model() is called with the original values of the skipped initializers.", technique="translation validation of the proto2python round trip: symbolic ONNX semantics, z3 equivalence; CrossHair lemmas on helpers"),
    "C14": dict(
        category="other", design_ref="§5 C14", engine="X",
        text="(a) hash randomisation as a schedule: converter/analysis re-executed with every set iteration order chosen by CrossHair; FunctionProto bytes must not depend on it; confirmed with real PYTHONHASHSEED subprocesses. (b) histories as arbitrary pre-state: per-match fields of rule singletons (AST-discovered each run) havocked with symbolic values before rewrite(); bytes must equal the fresh-object run. (d) histories of whole transformations: a symbolic history (1 model quick, 2 thorough) and a symbolic target from a 36-model table (12 operator kinds, one for every version-ranged evaluator of the folder's registry, x opsets 11/13/18; script sources; models that need the 19->20 / 20->21 adapters) go through optimize / convert_version / proto2python / script decoration / one re-used FoldConstantsPass object (the table has a model that folds, then fails) in one process - each history in a forked child of a worker that has only imported the library, so that paths do not see each other's leftovers and a counterexample replays from its own history; the target bytes must equal the fresh-process baseline (subprocess per pair); indices concretised by comparison forks, the transformation runs concretely. (c) concrete probe: repeated to_model_proto, post-decoration rebinding and in-place mutation of globals. (a) now also covers the rewriter, the matcher, the constant folder and the version converter under the order cut (targets rw3 / rwfn / fold / convert; found the opset-import order defect); (d) has a seventh transformation: ONE reused RewriteRuleSet object (an as_function rule + two stateful shipped rules) over a symbolic history.",
        note="Trusted: CrossHair; order cut applied in memory by vp/loader.py; <=4 schedule choices per translation; 4 rule targets. Narrow: file system / time / other processes not modelled.",
        technique="symbolic execution (CrossHair+z3) with solver-chosen set-iteration schedules, havocked singleton state and solver-partitioned transformation histories vs fresh-process baselines; PYTHONHASHSEED replay"),
    "C18": dict(
        category="translation_validation", design_ref="§5 C18", engine="S+X",
        text="Seeded random traces through the real GraphBuilder/OpBuilder (literals in every position, inputs given by keyword, _outputs, module scopes, If subgraphs capturing outer values) are shadowed by a symbolic replay that applies symonnx's rule per call with the property's own promotion rule; z3 decides [[built graph]] == replay for ALL inputs, and [[call]] == [[call_inline]] for script functions with attribute arguments, literal arguments and calls of other script functions (every callee must be defined in the model). Naming: (X) nn construction histories of <=4 (quick) / 5 (thorough) steps over 10 step kinds (create list / list with children / sequential, nest, attach to a root that is named at construction / at the end / never and may own a parameter called like the leaves', children called directly or inside an If branch built by a sub-builder, append/extend after naming, slice) are solver variables concretised by comparison forks; every Parameter must appear once as the initializer root.name + state_dict key and be the Parameter object, names unique, checker passes. Random module trees (depth<=4), value/node naming of traces and six traces with operators of non-default domains (validity only) and If nested 2-3 levels with equal graph names (validity + concrete values) are enumeration, labelled. Call hosts extended with IR functions (build_function) that return one of their inputs, called on graph inputs (interface must stay).",
        note=S_NOTE, technique="translation validation of traced graphs against a symbolic shadow replay; z3 equivalence; CrossHair-partitioned construction histories for module naming; structural enumeration for names"),
    "C20": dict(
        category="other", design_ref="§5 C20", engine="X",
        text="CrossHair/z3 symbolic execution of the real save_model_with_external_data with ir.save stubbed: which initializers are uninitialised, path shape, verbose/tqdm and whether the save faults are solver variables; refusal-before-write, a single ir.save call naming a sibling data file (a bare file name other than the model's own), exception propagation and object identity of the initializers are decided over all combinations - this group runs only while a concrete probe confirms that the function still delegates to one ir.save(external_data=...) call (otherwise it is reported inconclusive and the second group decides alone). Second group: the real onnx_ir.save runs under the wrapper in a scratch directory; initializer kinds (in-memory small/large/zero-size/scalar/uint8, already external elsewhere, already external in the destination, owned by an If branch above / below the externalisation threshold) and the index of the write-side file-system operation (open/write/flush/close) that raises OSError are solver variables concretised by comparison forks; identity, external references, bytes and serialized structure of the in-memory model afterwards, and the ir.load round trip on success, are checked per instance. Group 3 (added): an uninitialised initializer in the main graph or owned by an If branch beside 0..1 other initializers must be refused with ValueError before anything is written (found the subgraph-guard defect).",
        note="Trusted: CrossHair models; group 1: ir.save replaced by a recording stub, <=3 initializers, 8 path shapes; group 2: open() proxies are the only stubs, <=2 (quick) / 3 (thorough) initializers, one fault per run, rename/fsync not used by the installed onnx_ir; the instance space is finite and explored exhaustively through solver-decided forks, the code under the forks runs concretely (protobuf / NumPy / file I/O are C boundaries).",
        technique="symbolic execution (CrossHair+z3) of the real function with a faulting stub for ir.save; solver-partitioned fault-point and tensor-kind space over the real save; vacuity twins"),
    "C11": dict(
        category="other", design_ref="§5 C11",
        text="CrossHair/z3 symbolic execution of the real Tensor.__getitem__ and of the subgraphs the real converter emits per index form: for ALL dims>=0, start/stop in Z u {None}, integer and scalar-tensor indices (unbounded ints) the ONNX-spec meaning equals NumPy's, or is an error; forms, rank<=3 and step tables are enumerated. Bounded in structure, unbounded in values.",
        note="Trusted: CrossHair 0.0.110 int/bool/list models, z3; my ONNX Slice/Gather/Squeeze view semantics and CPython-slice reference (both validated at every run against onnxruntime, NumPy and the real eager path on concrete grids); NumPy shim inside __getitem__.",
        technique="symbolic execution (CrossHair+z3) of real code, per-obligation vacuity twin, concrete replay on onnxruntime/NumPy",
        engine="X"),
}

def main():
    props = [json.loads(l) for l in open(os.path.join(HERE, "properties.jsonl"))]
    checks, na = [], []
    for p in props:
        pid = p["id"]
        if pid in CLAIMED:
            c = CLAIMED[pid]
            checks.append({
                "property_id": pid,
                "quick_cmd": f"./check {pid} quick",
                "thorough_cmd": f"./check {pid} thorough",
                "evidence_file": f"/verif/evidence/{pid}.json",
                "replay_cmd_template": "./check --replay {path}",
                "engine": c["engine"],
                "level_claimed": {"category": c["category"], "text": c["text"], "design_ref": c["design_ref"]},
                "level_note": c["note"],
                "technique": c["technique"],
            })
        else:
            na.append({"property_id": pid, "reason": NA_FINAL.get(pid, "check not built yet in this round (planned: DESIGN.md §5); not claimed until its machinery is sound")})
    m = {
        "version": 1,
        "setup_cmd": "./setup.sh",
        "hooks": {
            "guard": "ONNXSCRIPT_VERIF",
            "enable": "no hooks in /repo: instrumentation (format cut, order cut) is applied in memory by vp/loader.py to the current source",
            "baseline_off_cmd": "cd /repo && /venv/bin/python -m pytest -ra -q -p no:cacheprovider --timeout=900 --continue-on-collection-errors",
            "source_commits": [],
            "add_only": True,
        },
        "engines": [
            {"name": "X", "path": "vp/xh.py", "serves_properties": sorted(k for k, v in CLAIMED.items() if "X" in v["engine"]),
             "kind_free_text": "CrossHair 0.0.110 symbolic execution (z3) of the real Python functions, one process per obligation, vacuity twins, concrete replay"},
            {"name": "S", "path": "vp/symonnx", "serves_properties": sorted(k for k, v in CLAIMED.items() if "S" in v["engine"]),
             "kind_free_text": "symbolic ONNX semantics: graphs produced by the real code are turned into z3 terms; equivalence for all inputs decided by z3 (translation validation)"},
            {"name": "Z", "path": "vp/props/c12.py", "serves_properties": sorted(k for k, v in CLAIMED.items() if "Z" in v["engine"]),
             "kind_free_text": "direct z3 floating-point / bit-vector micro-models whose shape is extracted from the real code at run time"},
        ],
        "checks": checks,
        "not_applicable": na,
        "notes": "Exit codes: 0 held / 1 VIOLATION (replayed on the real code) / 3 harness error. Inconclusive obligations are printed and counted in evidence, never reported as held. known_findings.json lists recorded defects.",
    }
    json.dump(m, open(os.path.join(HERE, "MANIFEST.json"), "w"), indent=1)
    try:
        import jsonschema
        jsonschema.validate(m, json.load(open("/root/.vp/MANIFEST.schema.json")))
        print("MANIFEST.json valid;", len(checks), "checks,", len(na), "not applicable")
    except ImportError:
        print("written (jsonschema not available to validate)")

if __name__ == "__main__":
    main()
