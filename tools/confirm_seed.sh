#!/usr/bin/env bash
# usage: tools/confirm_seed.sh <id>   (expects /tmp/seedout/<id>/{patch.diff,demo.py,agent_meta.txt})
# Confirms in a FRESH scratch worktree of /repo HEAD that demo.py passes without the patch and fails with it; copies into seeded/<id>/
set -u
ID="$1"; SRC="/tmp/seedout/$ID"; WT="/tmp/vp_confirm_$ID"
cd "$(dirname "$0")/.."
git -C /repo worktree remove --force "$WT" 2>/dev/null; rm -rf "$WT"
git -C /repo worktree add --detach "$WT" HEAD >/dev/null 2>&1 || { echo "worktree failed"; exit 2; }
trap 'git -C /repo worktree remove --force "$WT" 2>/dev/null; rm -rf "$WT"' EXIT
( cd "$WT" && PYTHONPATH="$WT" timeout 600 /venv/bin/python "$SRC/demo.py" > /tmp/confirm_${ID}_pristine.log 2>&1 ); r0=$?
git -C "$WT" apply "$SRC/patch.diff" || { echo "$ID: patch does not apply to HEAD"; exit 2; }
( cd "$WT" && PYTHONPATH="$WT" timeout 600 /venv/bin/python "$SRC/demo.py" > /tmp/confirm_${ID}_patched.log 2>&1 ); r1=$?
echo "$ID: demo pristine exit=$r0 patched exit=$r1"
tail -2 /tmp/confirm_${ID}_patched.log | cut -c1-300
if [ $r0 -eq 0 ] && [ $r1 -ne 0 ]; then
  mkdir -p seeded/$ID; cp "$SRC/patch.diff" "$SRC/demo.py" "$SRC/agent_meta.txt" seeded/$ID/; echo "$ID: confirmed, copied"
else
  echo "$ID: NOT confirmed"
fi
