#!/usr/bin/env python3
"""compare a junit xml against BASELINE.json's stable_pass list"""
import json, sys, xml.etree.ElementTree as ET
base = json.load(open("/root/.vp/BASELINE.json"))
stable = set(base["stable_pass"])
res = {}
for tc in ET.parse(sys.argv[1]).getroot().iter("testcase"):
    name = f"{tc.get('classname')}::{tc.get('name')}"
    bad = any(ch.tag in ("failure", "error", "skipped") for ch in tc)
    res[name] = "pass" if not bad else next(ch.tag for ch in tc if ch.tag in ("failure", "error", "skipped"))
missing = [n for n in stable if n not in res]
notpass = [n for n in stable if n in res and res[n] != "pass"]
print(f"stable_pass={len(stable)} present={len(stable)-len(missing)} missing={len(missing)} not_passing={len(notpass)}")
for n in (missing[:10] + notpass[:30]):
    print("  ", n, res.get(n))
sys.exit(1 if (missing or notpass) else 0)
