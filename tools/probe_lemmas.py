"""usage: .venv/bin/python tools/probe_lemmas.py <harness module> [only] [tier]  -- runs the obligations of one harness module
with evidence redirected to a scratch directory (development aid, not a registered command)"""
import os, sys, tempfile
sc = tempfile.mkdtemp(prefix="vp_probe_")
os.environ["VP_SCRATCH"] = sc
sys.path.insert(0, os.path.dirname(os.path.dirname(os.path.abspath(__file__))))
from vp import common, xh
mod = sys.argv[1]; only = sys.argv[2] if len(sys.argv) > 2 and sys.argv[2] != "-" else None
tier = sys.argv[3] if len(sys.argv) > 3 else "quick"
pid = os.environ.get("VP_PROBE_PID", "C05")
run = common.Run(pid, tier, "other")
xh.run_obligations(run, [mod], tier, only)
for s in run.coverage.get("samples", []):
    print(s["id"], s["status"], "paths", s.get("paths"), "twin", s.get("twin"), "wall", s.get("wall_s"), s.get("counterexample", "")[:300], s.get("replay", ""))
rc = run.finish()
print("rc", rc)
import shutil; shutil.rmtree(sc, ignore_errors=True)
