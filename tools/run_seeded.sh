#!/usr/bin/env bash
# usage: tools/run_seeded.sh <seeded-dir> "<check ids>"   (applies patch to /repo, runs checks, ALWAYS reverts)
set -u
D="$1"; CHECKS="$2"
cd "$(dirname "$0")/.."
if ! git -C /repo diff --quiet; then echo "/repo has uncommitted changes: refusing"; exit 2; fi
git -C /repo apply "$(realpath "$D")/patch.diff" || { echo "patch does not apply"; exit 2; }
trap 'git -C /repo checkout -- . ; echo "[reverted /repo]"' EXIT
for c in $CHECKS; do
  VERIF_SEED=${VERIF_SEED:-0} ./check $c quick > /tmp/seeded_$c.log 2>&1; rc=$?
  echo "== $c exit=$rc violations=$(grep -c '^VIOLATION' /tmp/seeded_$c.log) harness=$(grep -c '^HARNESS' /tmp/seeded_$c.log)"
  grep '^VIOLATION\|^HARNESS' /tmp/seeded_$c.log | cut -c1-260 | head -4
done
