#!/usr/bin/env bash
# usage: tools/seed_sweep.sh "C01 C03 ..." "4 5 6"   -> summary lines
cd "$(dirname "$0")/.."
for seed in $2; do for c in $1; do
  VERIF_SEED=$seed ./check $c quick > /tmp/sweep_${c}_$seed.log 2>&1; rc=$?
  echo "$c seed=$seed exit=$rc viol=$(grep -c '^VIOLATION' /tmp/sweep_${c}_$seed.log) harness=$(grep -c '^HARNESS' /tmp/sweep_${c}_$seed.log)"
  grep '^VIOLATION\|^HARNESS' /tmp/sweep_${c}_$seed.log | sed 's/.*# //' | cut -c1-240 | head -3
done; done
