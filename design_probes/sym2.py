"""probe: optimize() translation validation with dense engine (adds a few ops to symproto)"""
import numpy as np, z3, time, onnx, onnx_ir as ir
from onnx import helper as h, TensorProto as T, numpy_helper as nh
import symproto as S
from symproto import SV, ew, const

_base = S.op_eval
def cint(sv): return [int(str(z3.simplify(v))) for v in sv.arr.flat]
def op_eval(op_type, ins, attrs, run_graph=None):
    g = lambda k, d=None: attrs.get(k, d)
    if op_type == "Shape":
        return [const(np.array(ins[0].shape, dtype=np.int64))]
    if op_type == "Gather":
        idx = np.array(cint(ins[1])).reshape(ins[1].shape); ax = g("axis", 0)
        return [SV(np.take(ins[0].arr, idx, axis=ax), ins[0].dtype)]
    if op_type == "Concat":
        return [SV(np.concatenate([i.arr for i in ins], axis=g("axis")), ins[0].dtype)]
    if op_type == "Reshape":
        tgt = cint(ins[1]); shp = list(ins[0].shape)
        if not g("allowzero", 0): tgt = [shp[i] if t == 0 else t for i, t in enumerate(tgt)]
        return [SV(ins[0].arr.reshape(tgt), ins[0].dtype)]
    if op_type == "Expand":
        tgt = cint(ins[1]); shape = np.broadcast_shapes(ins[0].shape, tuple(tgt))
        return [SV(np.broadcast_to(ins[0].arr, shape).copy(), ins[0].dtype)]
    if op_type == "Clip":
        x = ins[0]; lo = ins[1] if len(ins) > 1 else None; hi = ins[2] if len(ins) > 2 else None
        a = x.arr
        if lo is not None: a = ew(lambda v, l: z3.If(v < l, l, v), SV(a, x.dtype), lo)
        if hi is not None: a = ew(lambda v, u: z3.If(v > u, u, v), SV(a, x.dtype), hi)
        return [SV(a, x.dtype)]
    return _base(op_type, ins, attrs)
S.op_eval = op_eval

def equiv(m1: onnx.ModelProto, m2: onnx.ModelProto, shapes, overridable=()):
    M1, M2 = ir.from_proto(m1), ir.from_proto(m2)
    ins = {}
    for v in M1.graph.inputs:
        ins[v.name] = S.fresh(v.name, shapes[v.name], v.type.dtype)
    outs = []
    for M in (M1, M2):
        env = dict(ins)
        class G:  # graph view whose initializers that are also inputs are NOT constants
            pass
        res = run_with_inputs(M.graph, env)
        outs.append(res)
    for a, b in zip(*outs):
        if a.shape != b.shape or a.dtype != b.dtype: return ("SHAPE/DTYPE", a.shape, b.shape)
        s = z3.Solver(); s.add(z3.Or([a.arr[i] != b.arr[i] for i in np.ndindex(*a.shape)]) if a.arr.size else z3.BoolVal(False))
        r = s.check()
        if r == z3.sat: return ("CEX", s.model())
    return ("EQUIV",)

def run_with_inputs(graph, env):
    # initializers that are graph inputs stay symbolic (overridable defaults)
    input_names = {v.name for v in graph.inputs}
    saved = dict(graph.initializers)
    e = dict(env)
    for n, init in saved.items():
        if n not in input_names: e[n] = const(init.const_value.numpy())
    class Shim: pass
    # run nodes (no initializer overwrite)
    out_env = e
    for node in graph:
        i = [None if v is None else out_env[v.name] for v in node.inputs]
        attrs = {k: a.value for k, a in node.attributes.items()}
        o = S.op_eval(node.op_type, i, attrs)
        for v, x in zip(node.outputs, o): out_env[v.name] = x
    return [out_env[o.name] for o in graph.outputs]

if __name__ == "__main__":
    from onnxscript import optimizer
    f = lambda n, s, t=T.FLOAT: h.make_tensor_value_info(n, t, s)
    # model A: Relu(Clip(x, -2, -1)) + shape chain Reshape(x, Concat(Gather(Shape(x),0), [-1]))
    gA = h.make_graph([
        h.make_node("Clip", ["x", "lo", "hi"], ["c"]), h.make_node("Relu", ["c"], ["r"]),
        h.make_node("Shape", ["x"], ["sh"]), h.make_node("Gather", ["sh", "i0"], ["d0"], axis=0),
        h.make_node("Concat", ["d0", "m1"], ["tgt"], axis=0), h.make_node("Reshape", ["r", "tgt"], ["y0"]),
        h.make_node("Add", ["y0", "w"], ["y"])],
        "g", [f("x", [2, 3]), f("w", [3])], [f("y", [2, 3])],
        [nh.from_array(np.array(-2, np.float32), "lo"), nh.from_array(np.array(-1, np.float32), "hi"),
         nh.from_array(np.array([0], np.int64), "i0"), nh.from_array(np.array([-1], np.int64), "m1"),
         nh.from_array(np.array([1, 2, 3], np.float32), "w")])
    mA = h.make_model(gA, opset_imports=[h.make_opsetid("", 18)], ir_version=9)
    onnx.checker.check_model(mA)
    t = time.time(); mB = optimizer.optimize(mA); t1 = time.time() - t
    print([n.op_type for n in mB.graph.node], f"optimize {t1:.2f}s")
    t = time.time(); print(equiv(mA, mB, {"x": (2, 3), "w": (3,)}), f"check {time.time()-t:.2f}s")
