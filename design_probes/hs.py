import hashlib, onnxscript
from onnxscript import script, FLOAT
from onnxscript import opset18 as op

@script(default_opset=op)
def f(x: FLOAT[3], c: FLOAT[1]) -> FLOAT[3]:
    if c > 0.0:
        alpha = x + 1.0
        beta = x * 2.0
        gamma = x - 3.0
    else:
        alpha = x
        beta = x + x
        gamma = x * x
    return alpha + beta + gamma

m = f.to_model_proto()
print(hashlib.sha1(m.SerializeToString(deterministic=True)).hexdigest(), [o for n in m.graph.node if n.op_type=="If" for o in n.output])
