from typing import List
import fmtcut, onnx_ir as ir
cf = fmtcut.reload_cut("onnxscript.optimizer._constant_folding")
from onnxscript._internal.tape_builder import TapeBuilder
SYMS = ["N", "M"]
def mk(kinds: List[int], vals: List[int]):
    # kind 0: static int dim = vals[i]; kind 1: symbol N; kind 2: symbol M; kind 3: unknown (None)
    dims = []
    for k, v in zip(kinds, vals):
        dims.append(v if k == 0 else (ir.SymbolicDim(SYMS[k-1]) if k in (1, 2) else ir.SymbolicDim(None)))
    return ir.Shape(dims)
def runtime(kinds, vals, vn, vm, unk):
    return [v if k == 0 else (vn if k == 1 else (vm if k == 2 else u)) for k, v, u in zip(kinds, vals, unk)]
def prop(k1: List[int], v1: List[int], k2: List[int], v2: List[int], vn: int, vm: int, u1: List[int], u2: List[int]) -> bool:
    """
    pre: len(k1) == 2 and len(v1) == 2 and len(k2) == 2 and len(v2) == 2 and len(u1) == 2 and len(u2) == 2
    pre: all(0 <= k <= 3 for k in k1) and all(0 <= k <= 3 for k in k2)
    pre: all(v >= 0 for v in v1 + v2 + u1 + u2) and vn >= 0 and vm >= 0
    post: _
    """
    # Expand(x, shape_value): x has static/symbolic shape s1; the shape operand carries symbolic value s2
    s1 = mk(k1, v1); s2 = mk(k2, v2)
    x = ir.Value(name="x", shape=s1, type=ir.TensorType(ir.DataType.FLOAT))
    sh = ir.Value(name="sh", type=ir.TensorType(ir.DataType.INT64))
    node = ir.Node("", "Expand", [x, sh], name="e")
    state = cf.OptimizerState(); state.set_sym_value(sh, s2)
    r = cf.expand(node, TapeBuilder(), state)
    if r is None:
        return True
    # evaluator says Expand is the identity: must hold for every runtime valuation
    rx = runtime(k1, v1, vn, vm, u1); rs = runtime(k2, v2, vn, vm, u2)
    # numpy broadcast of rx with rs must be defined and equal rx
    for a, b in zip(rx, rs):
        if not (a == b or b == 1):
            return False
    return True
