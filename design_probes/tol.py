"""probe: §3.4 mixed forward-error criterion on BatchNorm-into-Conv fusion (rule recomputes constants in float32)"""
import numpy as np, z3, time, onnx, onnx_ir as ir
from fractions import Fraction
from onnx import helper as h, TensorProto as T, numpy_helper as nh
from onnxscript.rewriter import rewrite
from onnxscript.rewriter.rules.common import fuse_batchnorm_into_conv_rule
import onnxruntime as ort
rng = np.random.default_rng(0)
C_in, C_out, K, L = 2, 3, 2, 4
W = rng.standard_normal((C_out, C_in, K)).astype(np.float32); B = rng.standard_normal(C_out).astype(np.float32)
sc = rng.standard_normal(C_out).astype(np.float32); bi = rng.standard_normal(C_out).astype(np.float32)
mean = rng.standard_normal(C_out).astype(np.float32); var = (rng.random(C_out) + 0.5).astype(np.float32)
f = lambda n, s, t=T.FLOAT: h.make_tensor_value_info(n, t, s)
g = h.make_graph([h.make_node("Conv", ["x", "W", "B"], ["c"]), h.make_node("BatchNormalization", ["c", "sc", "bi", "mean", "var"], ["y"], epsilon=1e-5)],
    "g", [f("x", [1, C_in, L])], [f("y", [1, C_out, L - K + 1])],
    [nh.from_array(a, n) for a, n in ((W, "W"), (B, "B"), (sc, "sc"), (bi, "bi"), (mean, "mean"), (var, "var"))])
m = h.make_model(g, opset_imports=[h.make_opsetid("", 18)], ir_version=9)
m = onnx.shape_inference.infer_shapes(m)
m2 = rewrite(m, [fuse_batchnorm_into_conv_rule])
print([n.op_type for n in m2.graph.node])
R = lambda v: z3.RealVal(str(Fraction(float(v))))
def absz(e): return z3.If(e >= 0, e, -e)
X = [[z3.Real(f"x{c}_{l}") for l in range(L)] for c in range(C_in)]
def conv(Wn, Bn):
    out = {}; mag = {}
    for o in range(C_out):
        for p in range(L - K + 1):
            acc = R(Bn[o]); mg = R(abs(Bn[o]))
            for c in range(C_in):
                for k in range(K):
                    acc = acc + X[c][p + k] * R(Wn[o, c, k]); mg = mg + absz(X[c][p + k]) * R(abs(Wn[o, c, k]))
            out[o, p] = acc; mag[o, p] = mg
    return out, mag
def init(mm, name):
    return nh.to_array([i for i in mm.graph.initializer if i.name == name][0])
c1, g1 = conv(W, B)
# BN (inference): y = (c - mean) / sqrt(var + eps) * scale + bias ; constants concrete -> evaluate sqrt numerically in float64 exact rational of the float32 computation ORT would do
o1 = {}; mg1 = {}
for (o, p), v in c1.items():
    inv = 1.0 / np.sqrt(np.float64(var[o]) + 1e-5)
    o1[o, p] = (v - R(mean[o])) * R(inv) * R(sc[o]) + R(bi[o])
    mg1[o, p] = (g1[o, p] + R(abs(mean[o]))) * R(abs(inv)) * R(abs(sc[o])) + R(abs(bi[o]))
conv2 = [n for n in m2.graph.node if n.op_type == "Conv"][0]
W2 = init(m2, conv2.input[1]); B2 = init(m2, conv2.input[2])
o2, mg2 = conv(W2, B2)
box = [z3.And(v >= -64, v <= 64) for row in X for v in row]
def ask(name, cond):
    s = z3.Solver(); s.set("timeout", 60000); s.add(*box); s.add(cond); t = time.time(); r = s.check(); print(name, r, f"{time.time()-t:.2f}s")
    return s.model() if r == z3.sat else None
ask("exact", z3.Or([o1[k] != o2[k] for k in o1]))
u = Fraction(1, 2 ** 24)
ask("mixed bound K=32", z3.Or([absz(o1[k] - o2[k]) > R(float(32 * u)) * (mg1[k] + mg2[k]) for k in o1]))
# sensitivity: perturb W2 by 1e-4 relative -> must be sat
W3 = W2.copy(); W3[0, 0, 0] *= np.float32(1.0001)
o3, mg3 = conv(W3, B2)
ask("mixed bound, W perturbed 1e-4", z3.Or([absz(o1[k] - o3[k]) > R(float(32 * u)) * (mg1[k] + mg3[k]) for k in o1]))
