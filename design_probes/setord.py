"""Probe: make iteration order of every set iterated in selected modules a harness-controlled choice."""
import ast, importlib, builtins
CHOICES = []      # consumed left to right; each is an int (Lehmer-ish: rotate+reverse selector)
LOG = []
def _perm(items, c):
    items = sorted(items, key=repr)
    n = len(items)
    out = []
    pool = list(items)
    while pool:
        k = c % len(pool); c //= len(pool)
        out.append(pool.pop(k))
    return out
def vp_iter(x):
    if isinstance(x, (set, frozenset)) and len(x) > 1:
        c = CHOICES.pop(0) if CHOICES else 0
        LOG.append((len(x), c))
        return _perm(x, c)
    return x
ITER_FUNCS = {"list", "tuple", "zip", "enumerate", "iter", "next", "join", "extend", "map", "filter", "reversed"}
class Wrap(ast.NodeTransformer):
    def w(self, e): return ast.Call(ast.Name("__vp_iter__", ast.Load()), [e], [])
    def visit_For(self, n):
        self.generic_visit(n); n.iter = self.w(n.iter); return n
    def visit_comprehension(self, n):
        self.generic_visit(n); n.iter = self.w(n.iter); return n
    def visit_Call(self, n):
        self.generic_visit(n)
        f = n.func
        name = f.attr if isinstance(f, ast.Attribute) else (f.id if isinstance(f, ast.Name) else None)
        if name in ITER_FUNCS:
            n.args = [self.w(a) if not isinstance(a, ast.Starred) else a for a in n.args]
        return n
def reload_wrapped(modname):
    mod = importlib.import_module(modname)
    tree = Wrap().visit(ast.parse(open(mod.__file__).read())); ast.fix_missing_locations(tree)
    mod.__dict__["__vp_iter__"] = vp_iter
    exec(compile(tree, mod.__file__, "exec"), mod.__dict__)
    return mod
