"""probe: C11 converter path. Real converter emits the graph (concrete, per literal form);
the emitted Slice/Squeeze/Gather/Concat/Constant subgraph is interpreted over symbolic dims."""
from typing import List, Optional
import ast, numpy as np, onnx_ir as ir
from onnxscript import script, FLOAT, INT64, opset18 as op
import onnxscript
from onnxscript._internal import converter as cv

def build(expr: str, rank: int, extra_inputs=()):
    params = ", ".join(["x: FLOAT[" + ",".join("'d%d'" % i for i in range(rank)) + "]"] + [f"{n}: INT64" for n in extra_inputs])
    src = f"def f({params}):\n    return {expr}\n"
    tree = ast.parse(src).body[0]
    c = cv.Converter(opset=onnxscript.values.Opset("this", 1), global_names={"FLOAT": FLOAT, "INT64": INT64, "op": op}, source=src, default_opset=op)
    fir = c.translate_function_def(tree)
    g = fir.graph
    # lower to a plain description (no ir objects inside the traced region)
    nodes = []
    for n in g:
        attrs = {}
        for k, a in n.attributes.items():
            attrs[k] = a.value.numpy().tolist() if a.type == ir.AttributeType.TENSOR else a.value
        nodes.append((n.op_type, [None if v is None else v.name for v in n.inputs], [o.name for o in n.outputs], attrs))
    return nodes, [v.name for v in g.inputs], [v.name for v in g.outputs]

class Err(Exception): pass
class View:
    def __init__(self, axes, fixed): self.axes = axes; self.fixed = fixed   # axes: list of (src, first, step, count)
def onnx_slice(count, start, end, step):
    d = count
    if start < 0: start += d
    if end < 0: end += d
    if step > 0:
        start = min(max(start, 0), d); end = min(max(end, 0), d); n = (end - start + step - 1) // step
    else:
        start = min(max(start, 0), d - 1); end = min(max(end, -1), d - 1); n = (start - end - step - 1) // (-step)
    return start, max(n, 0)
def interp(nodes, env):
    for op_type, ins, outs, attrs in nodes:
        a = [None if i is None else env[i] for i in ins]
        if op_type == "Constant":
            v = attrs["value"]; r = v if isinstance(v, list) else [v] if False else v
            env[outs[0]] = v
        elif op_type == "Concat": env[outs[0]] = [e for l in a for e in l]
        elif op_type in ("Identity", "CastLike"): env[outs[0]] = a[0]
        elif op_type == "Reshape": env[outs[0]] = [a[0]] if not isinstance(a[0], list) else a[0]
        elif op_type == "Add": env[outs[0]] = a[0] + a[1]
        elif op_type == "Slice":
            v = a[0]; axes = list(v.axes)
            for st, en, ax, sp in zip(a[1], a[2], a[3], a[4]):
                src, first, step, count = axes[ax]
                s0, n = onnx_slice(count, st, en, sp)
                axes[ax] = (src, first + s0 * step, step * sp, n)
            env[outs[0]] = View(axes, dict(v.fixed))
        elif op_type == "Squeeze":
            v = a[0]; axes = []; fixed = dict(v.fixed)
            for i, (src, first, step, count) in enumerate(v.axes):
                if i in a[1]:
                    if count != 1: raise Err("squeeze")
                    fixed[src] = first
                else: axes.append((src, first, step, count))
            env[outs[0]] = View(axes, fixed)
        elif op_type == "Gather":
            v = a[0]; i = a[1]; ax = attrs.get("axis", 0)
            if isinstance(i, list): raise NotImplementedError
            src, first, step, count = v.axes[ax]
            if i < 0: i += count
            if not (0 <= i < count): raise Err("gather")
            fixed = dict(v.fixed); fixed[src] = first + i * step
            env[outs[0]] = View(v.axes[:ax] + v.axes[ax + 1:], fixed)
        else: raise NotImplementedError(op_type)
    return env
def py_slice(d, a, b, c):
    step = 1 if c is None else c
    if step > 0:
        lo, hi = 0, d
        start = lo if a is None else (max(a + d, lo) if a < 0 else min(a, hi))
        stop = hi if b is None else (max(b + d, lo) if b < 0 else min(b, hi))
        n = (stop - start + step - 1) // step if start < stop else 0
    else:
        lo, hi = -1, d - 1
        start = hi if a is None else (max(a + d, lo) if a < 0 else min(a, hi))
        stop = lo if b is None else (max(b + d, lo) if b < 0 else min(b, hi))
        n = (start - stop - step - 1) // (-step) if stop < start else 0
    return start, step, n
def numpy_view(dims, comps):
    axes = []; fixed = {}
    for src, (d, comp) in enumerate(zip(dims, list(comps) + [("s", None, None, None)] * (len(dims) - len(comps)))):
        if comp[0] == "i":
            k = comp[1]
            if k < 0: k += d
            if not (0 <= k < d): raise Err("index")
            fixed[src] = k
        else:
            first, step, n = py_slice(d, comp[1], comp[2], comp[3]); axes.append((src, first, step, n))
    return View(axes, fixed)
def same(v1: View, v2: View):
    if len(v1.axes) != len(v2.axes): return False
    empty = any(c == 0 for (_, _, _, c) in v1.axes)
    for (s1, f1, t1, c1), (s2, f2, t2, c2) in zip(v1.axes, v2.axes):
        if s1 != s2 or c1 != c2: return False
        if not empty and c1 > 0 and f1 != f2: return False
        if not empty and c1 > 1 and t1 != t2: return False
    return empty or v1.fixed == v2.fixed

# forms: (expr, rank, numpy components)
FORMS = [
    ("x[1:]", 1, [("s", 1, None, None)]), ("x[:-1]", 1, [("s", None, -1, None)]), ("x[::2]", 1, [("s", None, None, 2)]),
    ("x[2:0:-1]", 1, [("s", 2, 0, -1)]), ("x[:0:-1]", 1, [("s", None, 0, -1)]), ("x[-2::-1]", 1, [("s", -2, None, -1)]),
    ("x[-1]", 1, [("i", -1)]), ("x[0]", 1, [("i", 0)]),
    ("x[:, 1]", 2, [("s", None, None, None), ("i", 1)]), ("x[:2, 0]", 2, [("s", None, 2, None), ("i", 0)]),
    ("x[1, 0]", 2, [("i", 1), ("i", 0)]), ("x[-1, 0]", 2, [("i", -1), ("i", 0)]), ("x[1:-1, ::-1]", 2, [("s", 1, -1, None), ("s", None, None, -1)]),
]
BUILT = [build(e, r) for e, r, _ in FORMS]

def prop(fi: int, d0: int, d1: int) -> bool:
    """
    pre: 0 <= fi < 13 and 0 <= d0 <= 2**40 and 0 <= d1 <= 2**40
    post: _
    """
    nodes, gin, gout = BUILT[fi]; expr, rank, comps = FORMS[fi]
    dims = [d0, d1][:rank]
    if any(c[0] == 's' and c[3] is not None and c[3] < 0 and c[1] is not None and c[1] < -d for c, d in zip(comps, dims)):
        return True   # known region (finding #3)
    x = View([(i, 0, 1, d) for i, d in enumerate(dims)], {})
    try:
        ref = numpy_view(dims, comps)
    except Err:
        ref = None
    try:
        got = interp(nodes, {gin[0]: x})[gout[0]]
    except Err:
        got = None
    if got is None:
        return True      # error is always allowed by the property
    if ref is None:
        return False     # numpy raises IndexError but the graph returns a tensor
    return same(got, ref)
