from typing import List, Set
import fmtcut
cv = fmtcut.reload_cut("onnxscript._internal.converter")
NAMES = ["x", "x_0", "x_1", "y", "tmp", "x_2"]
def uniq(mask: List[bool], nextvar: int, ci: int) -> bool:
    """
    pre: len(mask) == 6 and 0 <= nextvar <= 2 and 0 <= ci < 6
    post: _
    """
    used = {n for n, m in zip(NAMES, mask) if m}
    c = cv.Converter.__new__(cv.Converter)
    c._used_vars = set(used); c._nextvar = nextvar
    r = c._generate_unique_name(NAMES[ci])
    return (r not in used) and (r in c._used_vars) and used <= c._used_vars and len(c._used_vars) == len(used) + 1 and c._nextvar >= nextvar
def uniq_twin(mask: List[bool], nextvar: int, ci: int) -> bool:
    """
    pre: len(mask) == 6 and 0 <= nextvar <= 2 and 0 <= ci < 6
    post: not _
    """
    return uniq(mask, nextvar, ci)
