import numpy as np, onnx, onnx_ir as ir
from onnx import helper as h, TensorProto as T
from onnxscript.rewriter import rewrite
from onnxscript.rewriter.rules.common import expand_before_binary_op_rules
import onnxruntime as ort
g = h.make_graph([
    h.make_node("Expand", ["x","s"], ["e"]),
    h.make_node("Add", ["e","y"], ["z"])],
    "g", [h.make_tensor_value_info("x", T.FLOAT, [3]), h.make_tensor_value_info("y", T.FLOAT, [3])],
    [h.make_tensor_value_info("z", T.FLOAT, ["a","b"])],
    [h.make_tensor("s", T.INT64, [2], [1,3])])
m = h.make_model(g, opset_imports=[h.make_opsetid("",18)], ir_version=9)
onnx.checker.check_model(m)
m2 = rewrite(m, expand_before_binary_op_rules)
print([n.op_type for n in m2.graph.node])
x=np.ones(3,np.float32); y=np.ones(3,np.float32)
for mm in (m,m2):
    print(ort.InferenceSession(mm.SerializeToString()).run(None,{"x":x,"y":y})[0].shape)
# optimize default?
from onnxscript import optimizer
m3 = optimizer.optimize(m)
print([n.op_type for n in m3.graph.node], ort.InferenceSession(m3.SerializeToString()).run(None,{"x":x,"y":y})[0].shape)
