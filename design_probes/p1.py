from typing import List, Tuple
import onnx_ir as ir
from onnxscript.rewriter.rules.common import _remove_expand_before_binary_op as m

class FakeNp:
    def __init__(self, l): self.l = l
    def tolist(self): return self.l

def bshape(a, b):
    r = max(len(a), len(b)); out = []
    for i in range(r):
        x = a[len(a)-r+i] if len(a)-r+i >= 0 else 1
        y = b[len(b)-r+i] if len(b)-r+i >= 0 else 1
        if x == 1: out.append(y)
        elif y == 1: out.append(x)
        elif x == y: out.append(x)
        else: return None
    return out

def prop(xs: List[int], ys: List[int], es: List[int]) -> bool:
    """
    pre: 0 < len(xs) <= 2 and 0 < len(ys) <= 2 and 0 < len(es) <= 3
    pre: all(0 <= d <= 4 for d in xs) and all(0 <= d <= 4 for d in ys) and all(0 <= d <= 4 for d in es)
    post: _
    """
    x = ir.Value(name="x", shape=ir.Shape(xs))
    y = ir.Value(name="y", shape=ir.Shape(ys))
    s = ir.Value(name="s")
    orig = m.get_numpy_value
    m.get_numpy_value = lambda v: FakeNp(es) if v is s else None
    try:
        r = m._check_expand_removable(x, s, y)
    finally:
        m.get_numpy_value = orig
    if not r:
        return True
    ex = bshape(xs, es)
    if ex is None:
        return True  # original model invalid
    o1 = bshape(ex, ys)
    if o1 is None:
        return True
    o2 = bshape(xs, ys)
    return o1 == o2
