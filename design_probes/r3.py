import numpy as np, onnxruntime as ort
from onnxscript import script, DOUBLE, FLOAT16, opset18 as op
@script(default_opset=op)
def f(x: DOUBLE[1]) -> DOUBLE[1]:
    return x + 0.1
x = np.zeros(1, dtype=np.float64)
m = f.to_model_proto()
print("eager", repr(f(x)[0]), "graph", repr(ort.InferenceSession(m.SerializeToString()).run(None, {"x": x})[0][0]))
print([ (n.op_type, [a.name for a in n.attribute]) for n in m.graph.node])
# builder
import onnx_ir as ir
from onnxscript._internal import builder as B
g = ir.Graph([], [], nodes=[], opset_imports={"": 18}, name="g")
xv = ir.Value(name="x", type=ir.TensorType(ir.DataType.DOUBLE), shape=ir.Shape([1])); g.inputs.append(xv)
gb = B.GraphBuilder(g); o = gb.op
y = o.Add(xv, 0.1); z = o.Mul(y, 0.0); w = o.Mul(y, -0.0)
print({k: (v.const_value.dtype, v.const_value.numpy()) for k, v in g.initializers.items()})
print(z.producer().inputs[1] is w.producer().inputs[1])
