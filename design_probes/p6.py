from typing import Optional, Tuple
import types
import onnxscript.tensor as T

# --- numpy shim -------------------------------------------------------
class ShimArr:
    def __init__(self, rows): self.rows = rows   # list of lists
    @property
    def T(self): return ShimArr([list(c) for c in zip(*self.rows)])
    def __getitem__(self, i): return ShimVec(self.rows[i])
class ShimVec:
    def __init__(self, v): self.v = list(v)
class ShimData:
    """stands for the indexed tensor; only its shape matters"""
    def __init__(self, shape): self.shape = tuple(shape)
shim = types.SimpleNamespace(ndarray=(ShimArr, ShimVec, ShimData), int64=None,
    array=lambda rows, dtype=None: ShimArr(rows), squeeze=None)

def onnx_slice_1axis(d, start, end, step):
    """ONNX Slice-13 spec for one axis -> (first, count) of selected indices"""
    if start < 0: start += d
    if end < 0: end += d
    if step > 0:
        start = min(max(start, 0), d); end = min(max(end, 0), d)
        n = (end - start + step - 1) // step
    else:
        start = min(max(start, 0), d - 1); end = min(max(end, -1), d - 1)
        n = (start - end + (-step) - 1) // (-step)
    return start, max(n, 0)

def py_slice_1axis(d, a, b, c):
    """CPython PySlice_AdjustIndices"""
    step = 1 if c is None else c
    if step > 0:
        lo, hi = 0, d
        start = lo if a is None else (max(a + d, lo) if a < 0 else min(a, hi))
        stop = hi if b is None else (max(b + d, lo) if b < 0 else min(b, hi))
        n = (stop - start + step - 1) // step if start < stop else 0
    else:
        lo, hi = -1, d - 1
        start = hi if a is None else (max(a + d, lo) if a < 0 else min(a, hi))
        stop = lo if b is None else (max(b + d, lo) if b < 0 else min(b, hi))
        n = (start - stop + (-step) - 1) // (-step) if stop < start else 0
    return start, n

class Rec(Exception): pass
class FakeOp:
    version = 18
    def Identity(self, x): return x
    def Slice(self, x, starts, ends, axes, steps):
        raise Rec((starts._nparray.v, ends._nparray.v, axes._nparray.v, steps._nparray.v))

def prop(d: int, a: Optional[int], b: Optional[int], c: Optional[int]) -> bool:
    """
    pre: d >= 1
    pre: not (c is not None and c < 0 and a is not None and a < -d)
    pre: c is None or c in (1, 2, 3, -1, -2, -3)
    post: _
    """
    old = T.np
    T.np = shim
    try:
        x = T.Tensor(ShimData((d,)), opset=FakeOp())
        try:
            x[slice(a, b, c)]
        except Rec as r:
            (st,), (en,), (ax,), (sp,) = r.args[0]
        else:
            # identity path (":" only)
            return a is None and b is None and c is None
    finally:
        T.np = old
    f1, n1 = onnx_slice_1axis(d, st, en, sp)
    f2, n2 = py_slice_1axis(d, a, b, c)
    stp = 1 if c is None else c
    return ax == 0 and n1 == n2 and (n1 == 0 or f1 == f2) and sp == stp
