"""Probe: reload selected repo modules with message-formatting f-strings cut."""
import ast, importlib, sys, types
class Cut(ast.NodeTransformer):
    MSG_FUNCS = {"fail", "_fail", "warning", "info", "debug", "error", "print", "msg", "warn"}
    def _cut_args(self, call):
        call.args = [ast.Constant("<msg>") if isinstance(a, ast.JoinedStr) else a for a in call.args]
        return call
    def visit_Call(self, node):
        self.generic_visit(node)
        f = node.func
        name = f.attr if isinstance(f, ast.Attribute) else (f.id if isinstance(f, ast.Name) else None)
        if name in self.MSG_FUNCS:
            return self._cut_args(node)
        return node
    def visit_Raise(self, node):
        self.generic_visit(node)
        if isinstance(node.exc, ast.Call):
            self._cut_args(node.exc)
        return node
def reload_cut(modname):
    mod = importlib.import_module(modname)
    src = open(mod.__file__).read()
    tree = Cut().visit(ast.parse(src)); ast.fix_missing_locations(tree)
    exec(compile(tree, mod.__file__, "exec"), mod.__dict__)
    return mod
