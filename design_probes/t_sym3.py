import faulthandler, sys
faulthandler.dump_traceback_later(50, exit=True)
import onnx_ir as ir
from onnxscript import script, FLOAT, INT64, BOOL, opset18 as op
import symproto as S
@script(default_opset=op)
def f3(x: FLOAT[2], y: FLOAT[2]) -> FLOAT[2]:
    s = op.ReduceSum(x, keepdims=0)
    cond = s > 0.0
    z = y
    while cond:
        z = z + x
        s = s - 1.0
        cond = s > 0.0
    return z
@script(default_opset=op)
def f4(x: FLOAT[2], y: FLOAT[2]) -> FLOAT[2]:
    # deliberately ill: variable defined only in one branch then used -> expect refusal or equality
    s = op.ReduceSum(x, keepdims=0)
    z = y
    for i in range(2):
        if s > 1.0:
            z = z * x
        else:
            w = z + 1.0
            z = w - x
        s = s - 1.0
    return z + s
F = ir.DataType.FLOAT; I = ir.DataType.INT64
print("f3", S.check(f3, [("x",(2,),F),("y",(2,),F)]))
print("f4", S.check(f4, [("x",(2,),F),("y",(2,),F)]))
