import numpy as np, onnx
from onnx import helper as h, TensorProto as T
from onnxscript import optimizer
f = lambda n, s, t=T.FLOAT: h.make_tensor_value_info(n, t, s)
for inner, outer in (("Min","Min"),("Max","Max"),("Max","Min"),("Min","Max")):
    g = h.make_graph([h.make_node(inner, ["x"], ["a"]), h.make_node(outer, ["a"], ["y"])], "g", [f("x", [3])], [f("y", [3])])
    m = h.make_model(g, opset_imports=[h.make_opsetid("", 18)], ir_version=9)
    onnx.checker.check_model(m, full_check=True)
    try:
        m2 = optimizer.optimize(m); print(inner, outer, "ok", [n.op_type for n in m2.graph.node])
    except Exception as e:
        print(inner, outer, "RAISES", type(e).__name__, str(e)[:100])
