from typing import List
import fmtcut
import onnx_ir as ir
for m in ["onnxscript.rewriter._pattern_ir", "onnxscript.rewriter._basics", "onnxscript.rewriter._matcher", "onnxscript.rewriter._rewrite_rule"]:
    fmtcut.reload_cut(m)
from onnxscript.rewriter import _rewrite_rule as RR

def pat(op, x, y):
    return op.Add(op.Neg(x), op.Sub(x, y))
RULES = RR.RewriteRule(pat, lambda op, x, y: op.Identity(x)).commute()
OPS = [("Neg", 1), ("Add", 2), ("Sub", 2), ("Mul", 2)]

def spec(nodes, root, graph_outputs):
    # instance of Add(Neg(x), Sub(x,y)) under swap of Add operands
    op, ins, out = nodes[root]
    if op != "Add": return None
    for a, b in ((ins[0], ins[1]), (ins[1], ins[0])):
        pa = [n for n in nodes if n[2] == a]; pb = [n for n in nodes if n[2] == b]
        if not pa or not pb: continue
        na, nb = pa[0], pb[0]
        if na[0] == "Neg" and nb[0] == "Sub" and na[1][0] == nb[1][0]:
            # removability: intermediates a,b not used outside match & not graph outputs
            inner = {a, b}
            ok = True
            for i, n in enumerate(nodes):
                if i == root or n is na or n is nb: continue
                if any(v in inner for v in n[1]): ok = False
            if any(v in inner for v in graph_outputs): ok = False
            if na is nb: ok = False
            if ok: return (na[1][0], nb[1][1])
    return None

def prop(ops: List[int], wires: List[int], extra_out: int) -> bool:
    """
    pre: len(ops) == 4 and all(0 <= o < 4 for o in ops)
    pre: len(wires) == 8 and all(0 <= w < 6 for w in wires)
    pre: 0 <= extra_out < 4
    post: _
    """
    vals = [ir.Value(name="i0"), ir.Value(name="i1")]
    names = ["i0", "i1"]
    nodes = []; irnodes = []
    for k in range(4):
        opn, ar = OPS[ops[k]]
        avail = len(vals)
        idx = [wires[2 * k + j] % avail for j in range(ar)]
        n = ir.Node("", opn, [vals[i] for i in idx], name=f"n{k}")
        n.outputs[0].name = f"v{k}"
        nodes.append((opn, [names[i] for i in idx], f"v{k}")); irnodes.append(n)
        vals.append(n.outputs[0]); names.append(f"v{k}")
    outs = [irnodes[3].outputs[0]]
    gout = ["v3"]
    if extra_out < 3:
        outs.append(irnodes[extra_out].outputs[0]); gout.append(f"v{extra_out}")
    g = ir.Graph(vals[:2], outs, nodes=irnodes, opset_imports={"": 18})
    model = ir.Model(g, ir_version=9)
    exp = spec(nodes, 3, gout)
    got = None
    for r in RULES:
        mt = r.match(model, g, irnodes[3])
        if mt:
            got = (mt.bindings["x"].name, mt.bindings["y"].name); break
    return got == exp
