import numpy as np, onnx_ir as ir, traceback
from onnxscript.rewriter import _pattern_ir as PI, _rewrite_rule as RR
from onnxscript.rewriter.rules import common as RC
def rules_of(obj):
    if isinstance(obj, RR.RewriteRule): return [obj]
    if isinstance(obj, RR.RewriteRuleSet): return list(obj.rules)
    return []
ATTR_DEFAULT = {"perm": [1, 0], "to": int(ir.DataType.FLOAT), "axis": 0, "allowzero": 0}
def instantiate(gp: PI.GraphPattern, shape=(2, 3)):
    val = {}; nodes = []; inputs = []
    def value_of(vp):
        if vp is None: return None
        if vp in val: return val[vp]
        if isinstance(vp, PI.Constant):
            t = ir.tensor(np.array(vp.value, dtype=np.float32 if isinstance(vp.value, float) or (isinstance(vp.value, list) and any(isinstance(e, float) for e in vp.value)) else np.int64))
            n = ir.Node("", "Constant", [], [ir.AttrTensor("value", t)]); nodes.append(n)
            n.outputs[0].const_value = t; n.outputs[0].type = ir.TensorType(t.dtype); n.outputs[0].shape = t.shape
            val[vp] = n.outputs[0]; return val[vp]
        if isinstance(vp, PI.NodeOutputPattern):
            node_of(vp.producer()); return val[vp]
        if isinstance(vp, (PI.OpIdDispatchOr, PI.BacktrackingOr)):
            alts = list(vp._op_to_pattern.values()) if isinstance(vp, PI.OpIdDispatchOr) else None
            first = alts[0][1] if alts else vp._values[0]
            val[vp] = value_of(first); return val[vp]
        v = ir.Value(name=f"in{len(inputs)}", type=ir.TensorType(ir.DataType.FLOAT), shape=ir.Shape(list(shape)))
        inputs.append(v); val[vp] = v; return v
    def node_of(np_):
        if any(o in val for o in np_.outputs): return
        ins = [value_of(i) for i in np_.inputs]
        attrs = []
        for k, ap in np_.attributes.items():
            if isinstance(ap, PI.AttrConstantPattern): attrs.append(ir.convenience.convert_attribute(k, ap._value))
            else: attrs.append(ir.convenience.convert_attribute(k, ATTR_DEFAULT.get(k, 1)))
        op = str(np_.op); dom = str(np_.domain)
        n = ir.Node(dom, op, ins, attrs, num_outputs=len(np_.outputs)); nodes.append(n)
        for o, v in zip(np_.outputs, n.outputs):
            v.type = ir.TensorType(ir.DataType.FLOAT); v.shape = ir.Shape(list(shape)); val[o] = v
    for n in gp: node_of(n)
    outs = [value_of(o) for o in gp.outputs]
    for i, v in enumerate(nodes):
        for j, o in enumerate(v.outputs): o.name = o.name or f"v{i}_{j}"
    g = ir.Graph(inputs, outs, nodes=nodes, opset_imports={"": 20}, name="host")
    return ir.Model(g, ir_version=10)
fired = 0; total = 0; failed = []
for name in RC.__all__:
    for r in rules_of(getattr(RC, name)):
        total += 1
        try:
            m = instantiate(r._target_pattern)
            c = RR.RewriteRuleSet([r]).apply_to_model(m)
            fired += bool(c)
            if not c: failed.append((name, "no-fire"))
        except Exception as e:
            failed.append((name, type(e).__name__ + ":" + str(e)[:60]))
print(total, "rules;", fired, "fired on auto host")
from collections import Counter
print(Counter(n for n, _ in failed).most_common(40))
print([f for f in failed if f[1] != "no-fire"][:10])
