from typing import List
import setord, hashlib
setord.reload_wrapped("onnxscript._internal.analysis")
conv = setord.reload_wrapped("onnxscript._internal.converter")
import onnxscript
from onnxscript._internal import main as M
from onnxscript import FLOAT, opset18 as op
import ast, inspect
import onnx_ir
from crosshair.tracers import NoTracing
from crosshair import realize
_orig_tensor = onnx_ir.tensor
def _tensor_nt(*a, **k):
    a = [realize(x) for x in a]; k = {kk: realize(v) for kk, v in k.items()}
    with NoTracing():
        return _orig_tensor(*a, **k)
onnx_ir.tensor = _tensor_nt
SRC = '''
def f(x: FLOAT[3], c: FLOAT[1]) -> FLOAT[3]:
    if c > 0.0:
        alpha = x + 1.0
        beta = x * 2.0
        gamma = x - 3.0
    else:
        alpha = x
        beta = x + x
        gamma = x * x
    return alpha + beta + gamma
'''
def translate():
    tree = ast.parse(SRC).body[0]
    c = conv.Converter(opset=onnxscript.values.Opset("this", 1), global_names={"FLOAT": FLOAT, "op": op}, source=SRC, default_opset=op)
    fir = c.translate_function_def(tree)
    return fir.to_function_proto().SerializeToString(deterministic=True)
setord.CHOICES[:] = []
BASE = translate()
def prop(choices: List[int]) -> bool:
    """
    pre: len(choices) == 3 and all(0 <= c < 6 for c in choices)
    post: _
    """
    setord.CHOICES[:] = list(choices)
    return translate() == BASE
