from typing import List
import numpy as np, onnx, onnx_ir
from onnx import helper as h, TensorProto as T, numpy_helper as nh
from crosshair.tracers import NoTracing
from crosshair import realize
_orig_tensor = onnx_ir.tensor
def _tensor_nt(*a, **k):
    a = [realize(x) for x in a]; k = {kk: realize(v) for kk, v in k.items()}
    with NoTracing():
        return _orig_tensor(*a, **k)
onnx_ir.tensor = _tensor_nt
from onnxscript.rewriter import rewrite
from onnxscript.rewriter.rules.common import _basic_rules as BR, flatten_to_reshape_rule, reshape_reshape_rule
f = lambda n, s, t=T.FLOAT: h.make_tensor_value_info(n, t, s)
g = h.make_graph([h.make_node("Flatten", ["x"], ["y"], axis=1)], "g", [f("x", [2, 3, 4])], [f("y", [2, 12])])
M = h.make_model(g, opset_imports=[h.make_opsetid("", 18)], ir_version=9)
with NoTracing():
    BASE = rewrite(M, [flatten_to_reshape_rule]).SerializeToString(deterministic=True)
inst = flatten_to_reshape_rule._condition_function.__self__   # the rule-class instance holding _new_shape
def prop(junk: List[int]) -> bool:
    """
    pre: len(junk) == 2
    post: _
    """
    inst._new_shape = junk      # arbitrary stale state left by an earlier match
    out = rewrite(M, [flatten_to_reshape_rule]).SerializeToString(deterministic=True)
    return out == BASE

from onnxscript.rewriter._basics import MatchResult
from onnxscript.rewriter import _rewrite_rule as RR
class Stale(BR.Flatten2Reshape):
    def check(self, context, x):          # seeded mutant: forgets to recompute _new_shape
        if not hasattr(self, "_new_shape"):
            return super().check(context, x)
        return MatchResult()
stale_rule = Stale.rule(); stale_inst = stale_rule._condition_function.__self__
def prop_mutant(junk: List[int]) -> bool:
    """
    pre: len(junk) == 2
    post: _
    """
    stale_inst._new_shape = np.array(realize(junk), dtype=np.int64) if False else junk
    out = rewrite(M, [stale_rule]).SerializeToString(deterministic=True)
    return out == BASE
