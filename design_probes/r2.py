import numpy as np, onnx
from onnx import helper as h, TensorProto as T
import onnxruntime as ort, onnx.reference
def run(d, st, en, sp):
    g = h.make_graph([h.make_node("Slice", ["x","s","e","a","p"], ["y"])], "g",
        [h.make_tensor_value_info("x", T.FLOAT, [d])],[h.make_tensor_value_info("y", T.FLOAT, None)],
        [h.make_tensor("s", T.INT64,[1],[st]),h.make_tensor("e", T.INT64,[1],[en]),h.make_tensor("a", T.INT64,[1],[0]),h.make_tensor("p", T.INT64,[1],[sp])])
    m = h.make_model(g, opset_imports=[h.make_opsetid("",18)], ir_version=9)
    x = np.arange(d, dtype=np.float32)+10
    return ort.InferenceSession(m.SerializeToString()).run(None,{"x":x})[0], onnx.reference.ReferenceEvaluator(m).run(None,{"x":x})[0]
print(run(1,-3,-2,-2), np.arange(1)[-3::-2])
print(run(4,-7,-5,-1), (np.arange(4)+10)[-7::-1])
# eager + converter
from onnxscript import script, FLOAT, opset18 as op
@script(default_opset=op)
def f(x: FLOAT[4]):
    return x[-7::-1]
x = np.arange(4, dtype=np.float32)+10
print("eager", f(x))
m = f.to_model_proto()
print("graph ort", ort.InferenceSession(m.SerializeToString()).run(None,{"x":x})[0], "numpy", x[-7::-1])
