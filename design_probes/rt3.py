import onnx, numpy as np, importlib.util, sys, os, tempfile
import onnxruntime as ort
from onnxscript import script, FLOAT, INT64, BOOL, opset18 as op
from onnxscript.backend import onnx_export
@script(default_opset=op)
def f1(x: FLOAT[3], c: FLOAT[1]) -> FLOAT[3]:
    if op.ReduceSum(c, keepdims=0) > 0.0:
        a = x + 1.0
        b = x * 2.0
    else:
        a = x
        b = x + x
    return a + b * 3.0
@script(default_opset=op)
def f3(x: FLOAT[2], y: FLOAT[2]) -> FLOAT[2]:
    s = op.ReduceSum(x, keepdims=0)
    cond = s > 0.0
    z = y
    while cond:
        z = z + x
        s = s - 1.0
        cond = s > 0.0
    return z
d = tempfile.mkdtemp()
k = 0
for f, feeds in ((f1, {"x": np.array([1,2,3],np.float32), "c": np.array([1],np.float32)}), (f3, {"x": np.array([1,1.5],np.float32), "y": np.array([0,1],np.float32)})):
  m = f.to_model_proto()
  for kw in [dict(), dict(rename=True), dict(use_operators=True), dict(inline_const=True), dict(use_operators=True, inline_const=True)]:
    k += 1
    try:
        src = onnx_export.export2python(m, **kw)
        p = os.path.join(d, f"g{k}.py"); open(p, "w").write(src)
        spec = importlib.util.spec_from_file_location(f"g{k}", p); mod = importlib.util.module_from_spec(spec); sys.modules[f"g{k}"] = mod; spec.loader.exec_module(mod)
        fn = [v for kk, v in vars(mod).items() if hasattr(v, "to_model_proto") and kk == f.name][0]
        m2 = fn.to_model_proto()
        r1 = ort.InferenceSession(m.SerializeToString()).run(None, feeds)[0]
        r2 = ort.InferenceSession(m2.SerializeToString()).run(None, feeds)[0]
        print("OK" if np.array_equal(r1, r2) else "DIFF", f.name, kw, r1, r2)
    except Exception as e:
        print("FAIL", f.name, kw, type(e).__name__, str(e).splitlines()[0][:150])
