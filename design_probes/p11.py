from typing import List
import numpy as np, onnx_ir as ir
import fmtcut
T = fmtcut.reload_cut("onnxscript._framework_apis.torch_2_5")

class Boom(OSError): pass
TENS = [ir.tensor(np.zeros(1, np.float32), name=f"w{i}") for i in range(3)]

PATHS = ["m.onnx", "d/m.onnx", "/abs/m", "a.b/c.d", "./m", "x/../y.onnx"]
def prop(has_value: List[bool], pi: int, verbose: bool, fault: bool) -> bool:
    """
    pre: 1 <= len(has_value) <= 3 and not verbose
    pre: 0 <= pi < 6
    post: _
    """
    path = PATHS[pi]
    inits = []
    for i, hv in enumerate(has_value):
        v = ir.Value(name=f"w{i}", type=ir.TensorType(ir.DataType.FLOAT), shape=ir.Shape([1]),
                     const_value=(TENS[i] if hv else None))
        inits.append(v)
    g = ir.Graph([], [], nodes=[], initializers=inits, opset_imports={"": 18}, name="g")
    model = ir.Model(g, ir_version=9)
    before = [(k, v, v.const_value) for k, v in g.initializers.items()]
    calls = []
    def fake_save(m, p, external_data=None, callback=None, **kw):
        calls.append((m, p, external_data))
        if fault: raise Boom("disk full")
    orig = T.ir.save
    T.ir.save = fake_save
    try:
        try:
            T.save_model_with_external_data(model, path, verbose=verbose)
            outcome = "ok"
        except ValueError:
            outcome = "refused"
        except Boom:
            outcome = "io"
    finally:
        T.ir.save = orig
    after = [(k, v, v.const_value) for k, v in g.initializers.items()]
    same = len(before) == len(after) and all(a[0] == b[0] and a[1] is b[1] and a[2] is b[2] for a, b in zip(before, after))
    if not all(has_value):
        return outcome == "refused" and calls == [] and same
    base = path.rsplit("/", 1)[-1]
    ok_call = len(calls) == 1 and calls[0][0] is model and calls[0][1] == path and calls[0][2] == base + ".data"
    return same and ok_call and outcome == ("io" if fault else "ok")
