import numpy as np
from onnxscript import script, FLOAT, opset18 as op
K = 2.0
@script(default_opset=op)
def f(x: FLOAT[2]) -> FLOAT[2]:
    return x * K
x = np.ones(2, np.float32)
b1 = f.to_model_proto().SerializeToString(); e1 = f(x)
K = 5.0
b2 = f.to_model_proto().SerializeToString(); e2 = f(x)
print("proto unchanged:", b1 == b2, "eager before/after:", e1, e2)
