import time, numpy as np, onnx, onnx.defs, onnx_ir as ir
from onnxscript import tensor as ost, values
from onnxscript._internal import autocast, converter as cv, builder as B
import onnxscript
t0 = time.time()
DT = [ir.DataType.FLOAT, ir.DataType.DOUBLE, ir.DataType.FLOAT16, ir.DataType.INT64, ir.DataType.INT32, ir.DataType.BOOL, ir.DataType.UINT8]
LITS = [0, 1, -3, 2.5, -0.0, True, [1, 2], [0.5]]
n = 0; disagree = {}
schemas = [s for s in onnx.defs.get_all_schemas_with_history() if s.domain == "" and 13 <= s.since_version <= 23 and len(s.inputs) >= 1]
print(len(schemas), "schemas")
def static_dtype(sig, args_desc, ver):
    c = cv.Converter(opset=values.Opset("this", 1), global_names={}, source="", default_opset=values.Opset("", ver))
    c._init_function_translation(); c._current_fn = onnxscript._internal.irbuilder.IRFunction("f", "this")
    vals = []
    for kind, v in args_desc:
        if kind == "ten":
            vals.append(ir.Value(name=f"t{len(vals)}", type=ir.TensorType(v)))
        else:
            info = None
            class I:  # minimal source info
                ast_node = None
            vals.append(c._emit_const(v, None, I()))
    out = autocast.static_cast_inputs(c, sig, vals)
    res = []
    for (kind, v), o in zip(args_desc, out):
        if kind == "ten": res.append(v); continue
        p = o.producer()
        if p.op_type == "CastLike": res.append(("like", p.inputs[1].type.dtype, p.inputs[0].producer().attributes["value"].value.dtype))
        else: res.append(("const", p.attributes["value"].value.dtype))
    return res
def eager_dtype(sig, args_desc):
    args = [ost.Tensor(np.zeros((1,), dtype=v.numpy())) if k == "ten" else v for k, v in args_desc]
    out = autocast.dynamic_cast_inputs(sig, args)
    return [ir.DataType.from_numpy(o.dtype) if isinstance(o, ost.Tensor) else None for o in out]
errs = 0
for s in schemas:
    sig = ir.schemas.OpSignature.from_op_schema(s)
    npos = len(s.inputs)
    for pos in range(npos):
        for sib in DT[:4]:
            for lit in LITS[:4]:
                desc = [("ten", sib)] * npos
                desc[pos] = ("lit", lit)
                try:
                    a = static_dtype(sig, desc, max(s.since_version, 13)); b = eager_dtype(sig, desc)
                    n += 1
                except Exception as e:
                    errs += 1
print(n, "probe calls", errs, "errors", f"{time.time()-t0:.1f}s")
print(a, b)
