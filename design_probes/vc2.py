import onnx, numpy as np
from onnx import helper as h, TensorProto as T, numpy_helper as nh
from onnxscript import version_converter
import onnx_ir as ir
f = lambda n, s, t=T.FLOAT: h.make_tensor_value_info(n, t, s)
g = h.make_graph([h.make_node("GroupNormalization", ["x", "s", "b"], ["y"], num_groups=2)], "g", [f("x", [1, 4, 2])], [f("y", [1, 4, 2])],
    [nh.from_array(np.array([1, 2], np.float32), "s"), nh.from_array(np.array([0.5, -1], np.float32), "b")])
for (src, tgt, fb) in [(20, 21, False), (18, 23, False), (21, 18, True), (21, 18, False), (18, 26, True)]:
    m = ir.from_proto(onnx.shape_inference.infer_shapes(h.make_model(g, opset_imports=[h.make_opsetid("", src)], ir_version=10)))
    try:
        version_converter.convert_version(m, tgt, fallback=fb)
        print(src, tgt, fb, "->", m.opset_imports, [(n.op_type, n.version) for n in m.graph])
    except Exception as e:
        print(src, tgt, fb, "RAISES", type(e).__name__, str(e)[:100])
