import numpy as np, onnx, onnxruntime as ort
from onnx import helper as h, TensorProto as T, numpy_helper as nh
from onnxscript import optimizer
f = lambda n, s, t=T.FLOAT: h.make_tensor_value_info(n, t, s)
g = h.make_graph([h.make_node("Clip", ["x", "lo", "hi"], ["c"]), h.make_node("Relu", ["c"], ["y"])],
    "g", [f("x", [3])], [f("y", [3])],
    [nh.from_array(np.array(-2, np.float32), "lo"), nh.from_array(np.array(-1, np.float32), "hi")])
m = h.make_model(g, opset_imports=[h.make_opsetid("", 18)], ir_version=9)
onnx.checker.check_model(m)
m2 = optimizer.optimize(m)
x = np.array([0.5, -2.5, 7], np.float32)
so = ort.SessionOptions(); so.graph_optimization_level = ort.GraphOptimizationLevel.ORT_DISABLE_ALL
for mm in (m, m2):
    print([n.op_type for n in mm.graph.node], ort.InferenceSession(mm.SerializeToString(), so).run(None, {"x": x})[0], onnx.reference.ReferenceEvaluator(mm).run(None, {"x": x})[0])
