import z3, time
F64, F32, F16 = z3.Float64(), z3.Float32(), z3.Float16()
RNE = z3.RNE()
v = z3.FP("v", F64)
def q(name, cond, *extra):
    s = z3.Solver(); s.set("timeout", 60000); s.add(cond, *extra); t=time.time(); r = s.check()
    print(name, r, f"{time.time()-t:.2f}s", s.model() if r == z3.sat else "")
# static: py float -> FLOAT constant -> CastLike DOUBLE ; eager: py float -> DOUBLE directly
static = z3.fpToFP(RNE, z3.fpToFP(RNE, v, F32), F64)
fin = z3.And(z3.Not(z3.fpIsNaN(v)), z3.Not(z3.fpIsInf(v)))
q("double sibling: static!=eager", z3.Not(z3.fpEQ(static, v)), fin)
# FLOAT16 sibling: static f64->f32->f16 vs eager f64->f16 (double rounding)
s16 = z3.fpToFP(RNE, z3.fpToFP(RNE, v, F32), F16); e16 = z3.fpToFP(RNE, v, F16)
q("f16 sibling double rounding", z3.Not(z3.fpEQ(s16, e16)), fin, z3.Not(z3.fpIsInf(e16)), z3.Not(z3.fpIsInf(s16)))
# int literal beside FLOAT: static int64 -> float32 ; eager python int -> float32 : same (both RNE from exact int)
# cache key: python == and hash-equal but different bits
a, b = z3.FP("a", F64), z3.FP("b", F64)
q("cache key collision", z3.And(z3.fpEQ(a, b), z3.fpToIEEEBV(a) != z3.fpToIEEEBV(b)))
