"""Prototype (probe only): dense symbolic ONNX semantics + eager-mode forking evaluator."""
from __future__ import annotations
import itertools, time
import numpy as np, z3
import onnx, onnx_ir as ir
from onnxscript import tensor as ost
from onnxscript._internal import evaluator as ev

# ------------------------------------------------------------------ values
class SV:
    """symbolic dense tensor: object ndarray of z3 terms + logical onnx dtype"""
    def __init__(self, arr, dtype):
        self.arr = np.asarray(arr, dtype=object); self.dtype = dtype
    @property
    def shape(self): return self.arr.shape

FLOATS = {ir.DataType.FLOAT, ir.DataType.DOUBLE, ir.DataType.FLOAT16}
INTS = {ir.DataType.INT64, ir.DataType.INT32}

def const(a: np.ndarray) -> SV:
    dt = ir.DataType.from_numpy(a.dtype)
    out = np.empty(a.shape, dtype=object)
    for i in np.ndindex(*a.shape):
        v = a[i]
        if dt == ir.DataType.BOOL: out[i] = z3.BoolVal(bool(v))
        elif dt in INTS: out[i] = z3.IntVal(int(v))
        else:
            from fractions import Fraction
            f = Fraction(float(v)); out[i] = z3.RealVal(f"{f.numerator}/{f.denominator}")
    return SV(out, dt)

def fresh(name, shape, dt) -> SV:
    out = np.empty(shape, dtype=object)
    for i in np.ndindex(*shape):
        n = f"{name}[{','.join(map(str, i))}]"
        out[i] = z3.Bool(n) if dt == ir.DataType.BOOL else (z3.Int(n) if dt in INTS else z3.Real(n))
    return SV(out, dt)

def ew(f, *xs):
    arrs = np.broadcast_arrays(*[x.arr for x in xs])
    out = np.empty(arrs[0].shape, dtype=object)
    for i in np.ndindex(*out.shape):
        out[i] = f(*[a[i] for a in arrs])
    return out

def cast_el(v, src, dst):
    if src == dst: return v
    if dst in FLOATS:
        if src in FLOATS: return v
        if src in INTS: return z3.ToReal(v)
        if src == ir.DataType.BOOL: return z3.If(v, z3.RealVal(1), z3.RealVal(0))
    if dst in INTS:
        if src in INTS: return v
        if src in FLOATS: return z3.If(v >= 0, z3.ToInt(v), -z3.ToInt(-v))
        if src == ir.DataType.BOOL: return z3.If(v, z3.IntVal(1), z3.IntVal(0))
    if dst == ir.DataType.BOOL:
        return v != 0
    raise NotImplementedError((src, dst))

# ------------------------------------------------------------------ op semantics
def op_eval(op_type, ins, attrs, run_graph=None):
    g = lambda k, d=None: attrs.get(k, d)
    if op_type == "Identity": return [ins[0]]
    if op_type in ("Add", "Sub", "Mul"):
        f = {"Add": lambda a, b: a + b, "Sub": lambda a, b: a - b, "Mul": lambda a, b: a * b}[op_type]
        assert ins[0].dtype == ins[1].dtype, f"type error {op_type} {ins[0].dtype} {ins[1].dtype}"
        return [SV(ew(f, ins[0], ins[1]), ins[0].dtype)]
    if op_type in ("Greater", "Less", "Equal"):
        f = {"Greater": lambda a, b: a > b, "Less": lambda a, b: a < b, "Equal": lambda a, b: a == b}[op_type]
        assert ins[0].dtype == ins[1].dtype
        return [SV(ew(f, ins[0], ins[1]), ir.DataType.BOOL)]
    if op_type == "Not": return [SV(ew(z3.Not, ins[0]), ir.DataType.BOOL)]
    if op_type == "Neg": return [SV(ew(lambda a: -a, ins[0]), ins[0].dtype)]
    if op_type == "Relu": return [SV(ew(lambda a: z3.If(a > 0, a, 0), ins[0]), ins[0].dtype)]
    if op_type == "Cast":
        to = ir.DataType(g("to")); return [SV(ew(lambda a: cast_el(a, ins[0].dtype, to), ins[0]), to)]
    if op_type == "CastLike":
        to = ins[1].dtype; return [SV(ew(lambda a: cast_el(a, ins[0].dtype, to), ins[0]), to)]
    if op_type == "ReduceSum":
        axes = None if len(ins) < 2 or ins[1] is None else tuple(int(str(v)) for v in ins[1].arr.flat)
        kd = bool(g("keepdims", 1))
        r = np.sum(ins[0].arr, axis=axes, keepdims=kd)
        return [SV(np.asarray(r, dtype=object), ins[0].dtype)]
    if op_type == "Constant":
        if "value" in attrs: return [const(attrs["value"].numpy())]
        if "value_int" in attrs: return [const(np.array(attrs["value_int"], dtype=np.int64))]
        if "value_float" in attrs: return [const(np.array(attrs["value_float"], dtype=np.float32))]
    raise NotImplementedError(op_type)

# ------------------------------------------------------------------ graph interpreter
LOOP_BOUND = 3
class Unwind(Exception): pass

def ite_sv(c, a: SV, b: SV) -> SV:
    assert a.shape == b.shape and a.dtype == b.dtype, "branch shape/type mismatch (needs path split)"
    return SV(ew(lambda x, y: z3.If(c, x, y), a, b), a.dtype)

def run_graph(graph: ir.Graph, env: dict, assumptions: list):
    env = dict(env)
    for init in graph.initializers.values():
        env[init.name] = const(init.const_value.numpy())
    for node in graph:
        ins = [None if v is None else env[v.name] for v in node.inputs]
        if node.op_type == "If":
            c = ins[0].arr.reshape(())[()]
            t = run_graph(node.attributes["then_branch"].as_graph(), env, assumptions)
            e = run_graph(node.attributes["else_branch"].as_graph(), env, assumptions)
            outs = [ite_sv(c, a, b) for a, b in zip(t, e)]
        elif node.op_type == "Loop":
            body = node.attributes["body"].as_graph()
            M, cond0 = ins[0], ins[1]
            state = ins[2:]
            alive = z3.BoolVal(True) if cond0 is None else cond0.arr.reshape(())[()]
            for it in range(LOOP_BOUND + 1):
                go = alive if M is None else z3.And(alive, M.arr.reshape(())[()] > it)
                if it == LOOP_BOUND:
                    assumptions.append(z3.Not(go))  # unwinding assumption (stated bound)
                    break
                benv = dict(env)
                names = [v.name for v in body.inputs]
                benv[names[0]] = const(np.array(it, dtype=np.int64))
                benv[names[1]] = SV(np.array(alive, dtype=object).reshape(()), ir.DataType.BOOL)
                for n, s in zip(names[2:], state): benv[n] = s
                res = run_graph(body, benv, assumptions)
                new_alive = res[0].arr.reshape(())[()]
                state = [ite_sv(go, a, b) for a, b in zip(res[1:], state)]
                alive = z3.And(go, new_alive)
            outs = state
        else:
            attrs = {k: (a.value if a.type not in (ir.AttributeType.TENSOR,) else a.value) for k, a in node.attributes.items()}
            outs = op_eval(node.op_type, ins, attrs)
        for v, o in zip(node.outputs, outs): env[v.name] = o
    return [env[o.name] for o in graph.outputs]

# ------------------------------------------------------------------ eager forking evaluator
class PathState:
    def __init__(self): self.prefix = []; self.pos = 0; self.pc = []; self.work = []
PS = PathState()
SOLVER_TIME = [0.0]
def feasible(cs):
    s = z3.Solver(); s.add(*cs); t = time.time(); r = s.check(); SOLVER_TIME[0] += time.time() - t
    return r == z3.sat

class SymTensor(ost.Tensor):
    def __init__(self, sv: SV, opset=None):
        super().__init__(sv.arr, opset); self.sv = sv
    @property
    def dtype(self): return self.sv.dtype.numpy()
    def decide(self, cond):
        if PS.pos >= 2 * LOOP_BOUND + 2: raise Unwind()
        if PS.pos < len(PS.prefix):
            d = PS.prefix[PS.pos]
        else:
            can_t = feasible(PS.pc + [cond]); can_f = feasible(PS.pc + [z3.Not(cond)])
            d = can_t
            if can_t and can_f: PS.work.append(PS.prefix[:PS.pos] + [False])
            PS.prefix.append(d)
        PS.pos += 1; PS.pc.append(cond if d else z3.Not(cond)); return d
    def __bool__(self):
        return self.decide(self.sv.arr.reshape(())[()])
    def __index__(self):
        v = self.sv.arr.reshape(())[()]
        for k in range(LOOP_BOUND + 1):
            if k == LOOP_BOUND: raise Unwind()
            if self.decide(v == k): return k

def to_sv(x) -> SV:
    if isinstance(x, SymTensor): return x.sv
    if isinstance(x, ost.Tensor): return const(x.value)
    if x is None: return None
    raise TypeError(type(x))

class SymEvaluator(ev.BaseEvaluator):
    def _eval(self, schema, inputs, attributes, closure):
        ins = [to_sv(x) for x in inputs]
        attrs = {}
        for k, v in attributes.items():
            if v is None: continue
            a = ir.convenience.convert_attribute(k, v, ir.AttributeType(int(schema.attributes[k].type)))
            attrs[k] = a.value
        outs = op_eval(schema.name, ins, attrs)
        return [SymTensor(o) for o in outs]

def eager_paths(fn, args):
    """yields (path_condition, outputs) for every feasible eager path within LOOP_BOUND"""
    global PS
    work = [[]]; results = []; cut = 0
    while work:
        PS = PathState(); PS.prefix = work.pop(); PS.work = work
        try:
            with ev.default_as(SymEvaluator()):
                out = fn(*args)
        except Unwind:
            cut += 1; continue
        outs = out if isinstance(out, (tuple, list)) else [out]
        results.append((list(PS.pc), [to_sv(o) for o in outs]))
    return results, cut

def check(fn, in_specs):
    args_sv = [fresh(n, s, d) for n, s, d in in_specs]
    t0 = time.time()
    paths, cut = eager_paths(fn, [SymTensor(a) for a in args_sv])
    model = ir.from_proto(fn.to_model_proto())
    assumptions = []
    gouts = run_graph(model.graph, {v.name: a for v, a in zip(model.graph.inputs, args_sv)}, assumptions)
    queries = 0
    for pc, eouts in paths:
        assert len(eouts) == len(gouts)
        for e, g in zip(eouts, gouts):
            if e.shape != g.shape or e.dtype != g.dtype:
                return ("MISMATCH shape/dtype", e.shape, g.shape, e.dtype, g.dtype)
            diff = z3.Or([e.arr[i] != g.arr[i] for i in np.ndindex(*e.shape)]) if e.arr.size else z3.BoolVal(False)
            s = z3.Solver(); s.add(*pc, *assumptions, diff); queries += 1
            t = time.time(); r = s.check(); SOLVER_TIME[0] += time.time() - t
            if r == z3.sat: return ("CEX", s.model())
            if r != z3.unsat: return ("UNKNOWN",)
    return ("EQUIV", f"paths={len(paths)} cut={cut} queries={queries} solver_s={SOLVER_TIME[0]:.2f} wall={time.time()-t0:.2f}")
