import onnx
from onnx import helper as h, TensorProto as T
from onnxscript import version_converter
g = h.make_graph([h.make_node("Relu", ["x"], ["y"])], "g",
    [h.make_tensor_value_info("x", T.FLOAT, [3])],[h.make_tensor_value_info("y", T.FLOAT, [3])])
m = h.make_model(g, opset_imports=[h.make_opsetid("",18)], ir_version=9)
version_converter.convert_version(m, 21)
print(m.opset_import, m.ir_version)
import onnx_ir as ir
m2 = ir.from_proto(h.make_model(g, opset_imports=[h.make_opsetid("",18)], ir_version=9))
version_converter.convert_version(m2, 21)
print(m2.opset_imports, m2.graph.opset_imports, [n.version for n in m2.graph])
