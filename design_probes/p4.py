from onnxscript.backend import onnx_export as ox
ALPH = "a1_.-"
def inj(a: str, b: str) -> bool:
    """
    pre: 1 <= len(a) <= 3 and 1 <= len(b) <= 3 and a != b
    pre: all(c in ALPH for c in a) and all(c in ALPH for c in b)
    post: _
    """
    return ox._cleanup_variable_name(a) != ox._cleanup_variable_name(b)
def valid_ident(a: str) -> bool:
    """
    pre: 1 <= len(a) <= 3
    pre: all(c in ALPH for c in a)
    post: _
    """
    r = ox._cleanup_variable_name(a)
    return r.isidentifier() and r not in ox.kwlist
