import fmtcut
import onnx_ir as ir
for m in ["onnxscript.rewriter._pattern_ir", "onnxscript.rewriter._basics", "onnxscript.rewriter._matcher", "onnxscript.rewriter._rewrite_rule"]:
    fmtcut.reload_cut(m)
from onnxscript.rewriter import _rewrite_rule as RR
def pat(op, x, y):
    return op.Add(op.Neg(x, _outputs=["n"]), y, alpha=2)
PAT = RR.Pattern(pat)
OPS = ["Neg", "Add", "Abs", "Mul"]
DOMS = ["", "com.x"]
def prop(i1: int, i2: int, d1: int, alpha: int, share: bool) -> bool:
    """
    pre: 0 <= i1 < 4 and 0 <= i2 < 4 and 0 <= d1 < 2
    post: _
    """
    op1 = OPS[i1]; op2 = OPS[i2]; dom1 = DOMS[d1]
    x = ir.Value(name="x"); y = ir.Value(name="y")
    n1 = ir.Node(dom1, op1, [x], name="n1")
    n2 = ir.Node("", op2, [n1.outputs[0], y], [ir.AttrInt64("alpha", alpha)], name="n2")
    outs = [n2.outputs[0]] + ([n1.outputs[0]] if share else [])
    g = ir.Graph([x, y], outs, nodes=[n1, n2], opset_imports={"": 18})
    m = ir.Model(g, ir_version=9)
    r = PAT.match(m, g, n2)
    expected = (op1 == "Neg" and dom1 == "" and op2 == "Add" and alpha == 2 and not share)
    return bool(r) == expected
