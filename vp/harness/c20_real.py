"""C20 (file-system level): the real save_model_with_external_data over the real onnx_ir.save, writing into
a scratch directory, with every write-side file-system operation (open for writing, write, close) routed
through a counting proxy that raises OSError at the k-th operation.  Symbolic: the kind of every initializer
(in-memory small / large / zero-size / scalar / uint8 / already-external in another file / already-external
in the destination data file), the fault index k and verbose.  The proxies are the only stubs."""
from __future__ import annotations

import os
import shutil
import tempfile
from typing import List

import numpy as np
import onnx
import onnx_ir as ir
import onnx_ir.external_data as _ext

from vp import loader

T, _INFO = loader.load_cut("onnxscript._framework_apis.torch_2_5")

KINDS = ["small", "large", "zero", "scalar", "u8", "ext_other", "ext_dest"]
ARR = {
    "small": np.arange(3, dtype=np.float32),
    "large": (np.arange(400, dtype=np.float32) / 7).reshape(20, 20),
    "zero": np.zeros((0, 4), np.float32),
    "scalar": np.array(-5, np.int64),
    "u8": (np.arange(300) % 251).astype(np.uint8),
    "ext_other": np.arange(100, dtype=np.float32) - 50,
    "ext_dest": np.arange(80, dtype=np.float32) * 3,
}


MAXOPS = 12


class Boom(OSError):
    pass


class _Ops:
    def __init__(self, fault_at):
        self.n = 0
        self.fault_at = fault_at
        self.log = []

    def op(self, what):
        k = self.n
        self.n = k + 1
        self.log.append(what)
        if k == self.fault_at:
            raise Boom(f"injected at op {k}: {what}")


class _Proxy:
    """File proxy without fileno(): onnx_ir then uses write(tobytes())."""

    def __init__(self, f, ops, name):
        self._f, self._ops, self._name = f, ops, name

    def __enter__(self):
        return self

    def __exit__(self, *a):
        self.close()
        return False

    def write(self, b):
        self._ops.op("write " + self._name)
        return self._f.write(b)

    def tell(self):
        return self._f.tell()

    def seek(self, *a):
        return self._f.seek(*a)

    def flush(self):
        self._ops.op("flush " + self._name)
        return self._f.flush()

    def close(self):
        if not self._f.closed:
            try:
                self._ops.op("close " + self._name)
            finally:
                self._f.close()


def _mk_open(ops):
    def fake_open(path, mode="r", *a, **kw):
        if "w" in mode or "a" in mode or "+" in mode:
            ops.op("open " + os.path.basename(os.fspath(path)))
            return _Proxy(open(path, mode, *a, **kw), ops, os.path.basename(os.fspath(path)))
        return open(path, mode, *a, **kw)

    return fake_open


def _snapshot(model):
    out = []
    for g in model.graphs():
        for k, v in g.initializers.items():
            t = v.const_value
            ext = None
            if isinstance(t, ir.ExternalTensor):
                ext = (t.location, t.offset, t.length, os.fspath(t.base_dir), t.name, t.dtype, tuple(t.shape.numpy()))
            out.append((k, v, t, ext))
    return out


def build(kinds, d, dest_name):
    inits = []
    for i, k in enumerate(kinds):
        kind = KINDS[k]
        a = ARR[kind]
        name = f"w{i}"
        if kind == "ext_other":
            p = os.path.join(d, f"src{i}.bin")
            with open(p, "wb") as f:
                f.write(b"\xee" * 16 + a.tobytes())
            t = ir.ExternalTensor(f"src{i}.bin", 16, a.nbytes, ir.DataType.FLOAT, shape=ir.Shape(a.shape), name=name, base_dir=d)
        elif kind == "ext_dest":
            p = os.path.join(d, dest_name)
            with open(p, "ab") as f:
                off = f.tell()
                f.write(a.tobytes())
            t = ir.ExternalTensor(dest_name, off, a.nbytes, ir.DataType.FLOAT, shape=ir.Shape(a.shape), name=name, base_dir=d)
        else:
            t = ir.tensor(a, name=name)
        inits.append(ir.Value(name=name, type=ir.TensorType(t.dtype), shape=ir.Shape(a.shape), const_value=t))
    x = ir.Value(name="x", type=ir.TensorType(ir.DataType.FLOAT), shape=ir.Shape([2]))
    nodes = []
    prev = x
    for i, v in enumerate(inits):
        n = ir.Node("", "Shape", [v], num_outputs=1, name=f"n{i}")
        n.outputs[0].name = f"s{i}"
        nodes.append(n)
    idn = ir.Node("", "Identity", [prev], num_outputs=1, name="id")
    idn.outputs[0].name = "y"
    idn.outputs[0].type = ir.TensorType(ir.DataType.FLOAT)
    idn.outputs[0].shape = ir.Shape([2])
    nodes.append(idn)
    g = ir.Graph([x], [idn.outputs[0]], nodes=nodes, initializers=inits, opset_imports={"": 18}, name="g")
    return ir.Model(g, ir_version=9)


def save_real(kinds, fault_at, verbose, known_dest_ok=False):
    """Returns (ok, detail).  ok is the C20 predicate for this instance."""
    d = tempfile.mkdtemp(prefix="vp_c20_")
    try:
        path = os.path.join(d, "m.onnx")
        model = build(kinds, d, "m.onnx.data")
        bytes_before = [ARR[KINDS[k]].tobytes() for k in kinds]
        snap = _snapshot(model)
        struct_before = ir.to_proto(model).SerializeToString()
        ops = _Ops(fault_at)
        fo = _mk_open(ops)
        saved = (_ext.__dict__.get("open"), onnx.__dict__.get("open"))
        _ext.open = fo
        onnx.open = fo
        try:
            try:
                T.save_model_with_external_data(model, path, verbose=verbose)
                outcome = "ok"
            except Boom:
                outcome = "io"
        finally:
            for m, s in zip((_ext, onnx), saved):
                if s is None:
                    del m.open
                else:
                    m.open = s
        faulted = 0 <= fault_at < ops.n
        if (outcome == "io") != faulted:
            return False, f"outcome {outcome} but fault_at={fault_at}, ops={ops.log}"
        after = _snapshot(model)
        if len(after) != len(snap):
            return False, "initializer count changed"
        for (k0, v0, t0, e0), (k1, v1, t1, e1), raw, kk in zip(snap, after, bytes_before, kinds):
            if k0 != k1 or v0 is not v1:
                return False, f"initializer {k0}: value object replaced"
            if t0 is not t1:
                return False, f"initializer {k0}: tensor object replaced ({type(t0).__name__} -> {type(t1).__name__})"
            if e0 != e1:
                return False, f"initializer {k0}: external reference changed {e0} -> {e1}"
            try:
                now = t1.tobytes()
            except Exception as e:  # noqa: BLE001
                return False, f"initializer {k0} ({KINDS[kk]}): tensor no longer readable after {outcome}: {type(e).__name__}: {e}"
            if now != raw:
                return False, f"initializer {k0} ({KINDS[kk]}): bytes changed after {outcome}"
        if ir.to_proto(model).SerializeToString() != struct_before:
            return False, "serialized structure of the in-memory model changed"
        if outcome == "ok":
            if not os.path.exists(path):
                return False, "model file missing"
            loaded = ir.load(path)
            li = list(loaded.graph.initializers.items())
            if [k for k, _ in li] != [s[0] for s in snap]:
                return False, "loaded initializer names differ"
            for (k, v), raw, kk in zip(li, bytes_before, kinds):
                t = v.const_value
                if t.tobytes() != raw:
                    return False, f"loaded {k} ({KINDS[kk]}): bytes differ"
                if t.dtype != snap[li.index((k, v))][2].dtype or tuple(t.shape.numpy()) != ARR[KINDS[kk]].shape:
                    return False, f"loaded {k}: dtype/shape differ"
                if isinstance(t, ir.ExternalTensor) and (t.location != "m.onnx.data"):
                    return False, f"loaded {k}: stored in {t.location}, not the sibling data file"
            a = [(n.op_type, [i.name for i in n.inputs], [o.name for o in n.outputs]) for n in model.graph]
            b = [(n.op_type, [i.name for i in n.inputs], [o.name for o in n.outputs]) for n in loaded.graph]
            if a != b or [i.name for i in loaded.graph.inputs] != ["x"] or [o.name for o in loaded.graph.outputs] != ["y"]:
                return False, "loaded graph differs"
        return True, f"{outcome} ops={ops.n}"
    finally:
        shutil.rmtree(d, ignore_errors=True)


def _pick(v, lo, hi):
    """Concretise a symbolic int by forking on comparisons (one solver-decided path per value)."""
    for c in range(lo, hi + 1):
        if v == c:
            return c
    raise AssertionError("out of the stated range")


def real_prop(kinds: List[int], fault_at: int, verbose: bool) -> bool:
    ks = [_pick(k, 0, len(KINDS) - 1) for k in kinds]
    fa = _pick(fault_at, -1, MAXOPS)
    vb = True if verbose else False
    # everything below runs on the selected concrete instance: protobuf, NumPy and file I/O are C boundaries
    from crosshair.tracers import NoTracing
    with NoTracing():
        ok, _ = save_real(ks, fa, vb)
    return ok


def explain(kinds, fault_at, verbose):
    return save_real(list(kinds), fault_at, verbose)[1]




def _ob(n, first=None):
    pres = [f"len(kinds) == {n}", f"all(0 <= k < {len(KINDS)} for k in kinds)", f"-1 <= fault_at <= {MAXOPS}"]
    oid = f"c20.real.n{n}"
    if first is not None:
        pres.append(f"kinds[0] == {first}")
        oid += f".k{KINDS[first]}"
    return {
        "id": oid,
        "sig": "kinds: List[int], fault_at: int, verbose: bool",
        "pres": pres,
        "call": "H.real_prop(kinds, fault_at, verbose)",
        "timeout": 240, "timeout_thorough": 900, "tiers": ("quick", "thorough") if n <= 2 else ("thorough",),
        "functions": ["onnxscript._framework_apis.torch_2_5:save_model_with_external_data",
                      "onnx_ir.save / onnx_ir.external_data (installed package, executed for real)"],
        "bounds": f"{n} initializers, each of {len(KINDS)} kinds {KINDS} (symbolic); fault index in [-1,{MAXOPS}] over the "
                  "write-side operations open/write/flush/close of the model and data files (symbolic); verbose symbolic",
        "stubs": ["open() in onnx_ir.external_data and onnx replaced by a counting proxy over the real file"],
    }


OBLIGATIONS = [_ob(0), _ob(1)] + [_ob(2, k) for k in range(len(KINDS) - 1)] + [_ob(3, k) for k in range(len(KINDS) - 1)]
