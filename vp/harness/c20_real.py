"""C20 (file-system level): the real save_model_with_external_data over the real onnx_ir.save, writing into
a scratch directory, with every write-side file-system operation (open for writing, write, close) routed
through a counting proxy that raises OSError at the k-th operation.  Symbolic: the kind of every initializer
(in-memory small / large / zero-size / scalar / uint8 / already-external in another file / already-external
in the destination data file / owned by an If branch, large or small), the fault index k and verbose.  The proxies are the only stubs."""
from __future__ import annotations

import os
import shutil
import tempfile
from typing import List

import numpy as np
import onnx
import onnx_ir as ir
import onnx_ir.external_data as _ext

from vp import loader

T, _INFO = loader.load_cut("onnxscript._framework_apis.torch_2_5")

KINDS = ["small", "large", "zero", "scalar", "u8", "ext_other", "ext_dest", "sub_large", "sub_small"]
ARR = {
    "small": np.arange(3, dtype=np.float32),
    "large": (np.arange(400, dtype=np.float32) / 7).reshape(20, 20),
    "zero": np.zeros((0, 4), np.float32),
    "scalar": np.array(-5, np.int64),
    "u8": (np.arange(300) % 251).astype(np.uint8),
    "ext_other": np.arange(100, dtype=np.float32) - 50,
    "ext_dest": np.arange(80, dtype=np.float32) * 3,
    # initializers owned by the then-branch of an If node (above / below the 256-byte externalisation threshold)
    "sub_large": np.arange(128, dtype=np.float32) * 0.5 - 7,
    "sub_small": np.array([4, 5, 6], dtype=np.int64),
}


MAXOPS = 12


class Boom(OSError):
    pass


class _Ops:
    def __init__(self, fault_at):
        self.n = 0
        self.fault_at = fault_at
        self.log = []

    def op(self, what):
        k = self.n
        self.n = k + 1
        self.log.append(what)
        if k == self.fault_at:
            raise Boom(f"injected at op {k}: {what}")


class _Proxy:
    """File proxy without fileno(): onnx_ir then uses write(tobytes())."""

    def __init__(self, f, ops, name):
        self._f, self._ops, self._name = f, ops, name

    def __enter__(self):
        return self

    def __exit__(self, *a):
        self.close()
        return False

    def write(self, b):
        self._ops.op("write " + self._name)
        return self._f.write(b)

    def tell(self):
        return self._f.tell()

    def seek(self, *a):
        return self._f.seek(*a)

    def flush(self):
        self._ops.op("flush " + self._name)
        return self._f.flush()

    def close(self):
        if not self._f.closed:
            try:
                self._ops.op("close " + self._name)
            finally:
                self._f.close()


def _mk_open(ops):
    def fake_open(path, mode="r", *a, **kw):
        if "w" in mode or "a" in mode or "+" in mode:
            ops.op("open " + os.path.basename(os.fspath(path)))
            return _Proxy(open(path, mode, *a, **kw), ops, os.path.basename(os.fspath(path)))
        return open(path, mode, *a, **kw)

    return fake_open


def _snapshot(model):
    out = []
    for g in model.graphs():
        for k, v in g.initializers.items():
            t = v.const_value
            ext = None
            if isinstance(t, ir.ExternalTensor):
                ext = (t.location, t.offset, t.length, os.fspath(t.base_dir), t.name, t.dtype, tuple(t.shape.numpy()))
            out.append((k, v, t, ext))
    return out


def build(kinds, d, dest_name):
    inits = []
    sub_inits = []
    for i, k in enumerate(kinds):
        kind = KINDS[k]
        a = ARR[kind]
        name = f"w{i}"
        if kind == "ext_other":
            p = os.path.join(d, f"src{i}.bin")
            with open(p, "wb") as f:
                f.write(b"\xee" * 16 + a.tobytes())
            t = ir.ExternalTensor(f"src{i}.bin", 16, a.nbytes, ir.DataType.FLOAT, shape=ir.Shape(a.shape), name=name, base_dir=d)
        elif kind == "ext_dest":
            p = os.path.join(d, dest_name)
            with open(p, "ab") as f:
                off = f.tell()
                f.write(a.tobytes())
            t = ir.ExternalTensor(dest_name, off, a.nbytes, ir.DataType.FLOAT, shape=ir.Shape(a.shape), name=name, base_dir=d)
        else:
            t = ir.tensor(a, name=name)
        v = ir.Value(name=name, type=ir.TensorType(t.dtype), shape=ir.Shape(a.shape), const_value=t)
        (sub_inits if kind.startswith("sub_") else inits).append(v)
    x = ir.Value(name="x", type=ir.TensorType(ir.DataType.FLOAT), shape=ir.Shape([2]))
    nodes = []
    prev = x
    for i, v in enumerate(inits):
        n = ir.Node("", "Shape", [v], num_outputs=1, name=f"n{i}")
        n.outputs[0].name = f"s_{v.name}"
        nodes.append(n)
    if sub_inits:
        def const_node(nm, arr):
            c = ir.Node("", "Constant", [], attributes=[ir.AttrTensor("value", ir.tensor(arr))], num_outputs=1, name="c_" + nm)
            c.outputs[0].name = nm
            return c

        cn = const_node("cond", np.array(True))
        nodes.append(cn)
        tn = []
        for v in sub_inits:
            n = ir.Node("", "Shape", [v], num_outputs=1, name=f"t_{v.name}")
            n.outputs[0].name = f"ts_{v.name}"
            tn.append(n)
        then_g = ir.Graph([], [tn[0].outputs[0]], nodes=tn, initializers=sub_inits, name="then_g")
        en = const_node("else_out", np.array([0], np.int64))
        else_g = ir.Graph([], [en.outputs[0]], nodes=[en], name="else_g")
        ifn = ir.Node("", "If", [cn.outputs[0]], attributes=[ir.AttrGraph("then_branch", then_g), ir.AttrGraph("else_branch", else_g)],
                      num_outputs=1, name="if")
        ifn.outputs[0].name = "if_out"
        nodes.append(ifn)
    idn = ir.Node("", "Identity", [prev], num_outputs=1, name="id")
    idn.outputs[0].name = "y"
    idn.outputs[0].type = ir.TensorType(ir.DataType.FLOAT)
    idn.outputs[0].shape = ir.Shape([2])
    nodes.append(idn)
    g = ir.Graph([x], [idn.outputs[0]], nodes=nodes, initializers=inits, opset_imports={"": 18}, name="g")
    return ir.Model(g, ir_version=9)


def _all_nodes(graph):
    out = []
    for n in graph:
        out.append((n.op_type, [i.name for i in n.inputs], [o.name for o in n.outputs]))
        for a in n.attributes.values():
            if a.type == ir.AttributeType.GRAPH:
                out.append(("<" + a.name, _all_nodes(a.value), [o.name for o in a.value.outputs]))
    return out


def save_real(kinds, fault_at, verbose, known_dest_ok=False):
    """Returns (ok, detail).  ok is the C20 predicate for this instance."""
    d = tempfile.mkdtemp(prefix="vp_c20_")
    try:
        path = os.path.join(d, "m.onnx")
        model = build(kinds, d, "m.onnx.data")
        kind_of = {f"w{i}": KINDS[k] for i, k in enumerate(kinds)}
        snap = _snapshot(model)
        struct_before = ir.to_proto(model).SerializeToString()
        ops = _Ops(fault_at)
        fo = _mk_open(ops)
        saved = (_ext.__dict__.get("open"), onnx.__dict__.get("open"))
        _ext.open = fo
        onnx.open = fo
        try:
            try:
                T.save_model_with_external_data(model, path, verbose=verbose)
                outcome = "ok"
            except Boom:
                outcome = "io"
        finally:
            for m, s in zip((_ext, onnx), saved):
                if s is None:
                    del m.open
                else:
                    m.open = s
        faulted = 0 <= fault_at < ops.n
        if (outcome == "io") != faulted:
            return False, f"outcome {outcome} but fault_at={fault_at}, ops={ops.log}"
        after = _snapshot(model)
        if len(after) != len(snap):
            return False, "initializer count changed"
        for (k0, v0, t0, e0), (k1, v1, t1, e1) in zip(snap, after):
            raw, kname = ARR[kind_of[k0]].tobytes(), kind_of[k0]
            if k0 != k1 or v0 is not v1:
                return False, f"initializer {k0}: value object replaced"
            if t0 is not t1:
                return False, f"initializer {k0}: tensor object replaced ({type(t0).__name__} -> {type(t1).__name__})"
            if e0 != e1:
                return False, f"initializer {k0}: external reference changed {e0} -> {e1}"
            try:
                now = t1.tobytes()
            except Exception as e:  # noqa: BLE001
                return False, f"initializer {k0} ({kname}): tensor no longer readable after {outcome}: {type(e).__name__}: {e}"
            if now != raw:
                return False, f"initializer {k0} ({kname}): bytes changed after {outcome}"
        if ir.to_proto(model).SerializeToString() != struct_before:
            return False, "serialized structure of the in-memory model changed"
        if outcome == "ok":
            if not os.path.exists(path):
                return False, "model file missing"
            loaded = ir.load(path)
            li = [(k, v) for g_ in loaded.graphs() for k, v in g_.initializers.items()]
            if [k for k, _ in li] != [s_[0] for s_ in snap]:
                return False, f"loaded initializer names differ: {[k for k, _ in li]} vs {[s_[0] for s_ in snap]}"
            for (k, v), s_ in zip(li, snap):
                t = v.const_value
                kname = kind_of[k]
                if t.tobytes() != ARR[kname].tobytes():
                    return False, f"loaded {k} ({kname}): bytes differ"
                if t.dtype != s_[2].dtype or tuple(t.shape.numpy()) != ARR[kname].shape:
                    return False, f"loaded {k}: dtype/shape differ"
                if isinstance(t, ir.ExternalTensor) and (t.location != "m.onnx.data"):
                    return False, f"loaded {k}: stored in {t.location}, not the sibling data file"
            a, b = _all_nodes(model.graph), _all_nodes(loaded.graph)
            if a != b or [i.name for i in loaded.graph.inputs] != ["x"] or [o.name for o in loaded.graph.outputs] != ["y"]:
                return False, "loaded graph differs"
        return True, f"{outcome} ops={ops.n}"
    finally:
        shutil.rmtree(d, ignore_errors=True)


def _pick(v, lo, hi):
    """Concretise a symbolic int by forking on comparisons (one solver-decided path per value)."""
    for c in range(lo, hi + 1):
        if v == c:
            return c
    raise AssertionError("out of the stated range")


def real_prop(kinds: List[int], fault_at: int, verbose: bool) -> bool:
    ks = [_pick(k, 0, len(KINDS) - 1) for k in kinds]
    fa = _pick(fault_at, -1, MAXOPS)
    vb = True if verbose else False
    # everything below runs on the selected concrete instance: protobuf, NumPy and file I/O are C boundaries
    from crosshair.tracers import NoTracing
    with NoTracing():
        ok, _ = save_real(ks, fa, vb)
    return ok


def explain(kinds, fault_at, verbose):
    return save_real(list(kinds), fault_at, verbose)[1]




def uninit_prop(kinds: List[int], where: int, verbose: bool) -> bool:
    """a model with an UNINITIALISED initializer (const_value None) in the main graph (where=0) or owned by the then-branch of an If
    (where=1), beside 0..1 ordinary initializers: the save must be refused with ValueError before anything is written, model untouched"""
    ks = [_pick(k, 0, len(KINDS) - 1) for k in kinds]
    w = _pick(where, 0, 1)
    verbose = bool(verbose)
    from crosshair.tracers import NoTracing
    with NoTracing():
        d = tempfile.mkdtemp(prefix="vp_c20u_")
        try:
            path = os.path.join(d, "m.onnx")
            model = build(ks + [KINDS.index("sub_small")], d, "m.onnx.data")
            u = ir.Value(name="uninit", type=ir.TensorType(ir.DataType.FLOAT), shape=ir.Shape([64, 64]))
            if w == 0:
                model.graph.initializers["uninit"] = u
            else:
                ifn = [n for n in model.graph if n.op_type == "If"][0]
                ifn.attributes["then_branch"].value.initializers["uninit"] = u
            snap = _snapshot(model)
            before = sorted(os.listdir(d))
            try:
                T.save_model_with_external_data(model, path, verbose=verbose)
                return False          # accepted: the written model has lost (or cannot represent) the initializer
            except ValueError:
                pass
            if sorted(os.listdir(d)) != before:
                return False          # something was written before the refusal
            after = _snapshot(model)
            return len(after) == len(snap) and all(a[0] == b[0] and a[1] is b[1] and a[2] is b[2] and a[3] == b[3] for a, b in zip(snap, after))
        finally:
            shutil.rmtree(d, ignore_errors=True)


def _ob(n, first=None):
    pres = [f"len(kinds) == {n}", f"all(0 <= k < {len(KINDS)} for k in kinds)", f"-1 <= fault_at <= {MAXOPS}"]
    oid = f"c20.real.n{n}"
    if first is not None:
        pres.append(f"kinds[0] == {first}")
        oid += f".k{KINDS[first]}"
    return {
        "id": oid,
        "sig": "kinds: List[int], fault_at: int, verbose: bool",
        "pres": pres,
        "call": "H.real_prop(kinds, fault_at, verbose)",
        "timeout": 240, "timeout_thorough": 900, "tiers": ("quick", "thorough") if n <= 2 else ("thorough",),
        "functions": ["onnxscript._framework_apis.torch_2_5:save_model_with_external_data",
                      "onnx_ir.save / onnx_ir.external_data (installed package, executed for real)"],
        "bounds": f"{n} initializers, each of {len(KINDS)} kinds {KINDS} (symbolic); fault index in [-1,{MAXOPS}] over the "
                  "write-side operations open/write/flush/close of the model and data files (symbolic); verbose symbolic",
        "stubs": ["open() in onnx_ir.external_data and onnx replaced by a counting proxy over the real file"],
    }


_FIRST = [k for k in range(len(KINDS)) if KINDS[k] != "ext_dest"]  # ext_dest first: the whole slice is the recorded known region
OBLIGATIONS = [_ob(0), _ob(1)] + [_ob(2, k) for k in _FIRST] + [_ob(3, k) for k in _FIRST] + [{
    "id": "c20.real.uninit", "sig": "kinds: List[int], where: int, verbose: bool",
    "pres": ["len(kinds) <= 1", f"all(0 <= k < {len(KINDS)} for k in kinds)", "0 <= where <= 1"],
    "call": "H.uninit_prop(kinds, where, verbose)", "timeout": 200,
    "functions": ["onnxscript._framework_apis.torch_2_5:save_model_with_external_data"],
    "bounds": "one uninitialised initializer in the main graph or in the then-branch of an If, beside 0..1 initializers of any kind (symbolic); verbose symbolic",
    "stubs": [],
}]
