"""C13 (X): lemmas on the exporter's naming helpers (real functions, CrossHair).

* _cleanup_variable_name yields a Python identifier that is not a keyword, for every name of <= 3
  characters over the alphabet {a, 1, _, ., -} and for every keyword;
* it is idempotent (needed because names are cleaned more than once on some paths);
* the short-name mapper (rename=True) maps distinct ONNX names to distinct python names and equal names to
  the same one, for any sequence of 3 requests (names that collide after clean-up included);
* the attribute-conflict renamer returns a name that is not in use.
Names are picked from a concrete table by a bounded symbolic index (symbolic str through str methods
does not finish; see DESIGN.md §4).
"""
from __future__ import annotations

import itertools
import keyword

from vp import loader

OX, _I = loader.load_cut("onnxscript.backend.onnx_export")

ALPH = "a1_.-"
NAMES = ["".join(t) for n in (1, 2, 3) for t in itertools.product(ALPH, repeat=n)]  # 155 names
KW = list(keyword.kwlist)


def valid_ident(i: int) -> bool:
    """
    vp-pre: 0 <= i < 155
    """
    r = OX._cleanup_variable_name(NAMES[i])
    return r.isidentifier() and not keyword.iskeyword(r)


def keyword_ident(i: int) -> bool:
    """
    vp-pre: 0 <= i < 35
    """
    r = OX._cleanup_variable_name(KW[i])
    return r.isidentifier() and not keyword.iskeyword(r)


def idempotent(i: int) -> bool:
    """
    vp-pre: 0 <= i < 155
    """
    r = OX._cleanup_variable_name(NAMES[i])
    return OX._cleanup_variable_name(r) == r


SHORT = ["a", "a.b", "a_b", "1", "__1", "for", "r_for", "b"]


def short_mapper(i: int, j: int, k: int) -> bool:
    """
    vp-pre: 0 <= i < 8 and 0 <= j < 8 and 0 <= k < 8
    """
    m = OX._make_short_name_mapper()
    names = [SHORT[i], SHORT[j], SHORT[k]]
    outs = [m(n) for n in names]
    for a in range(3):
        for b in range(3):
            # distinct ONNX names get distinct python names (also when they agree after clean-up)
            if (names[a] == names[b]) != (outs[a] == outs[b]):
                return False
    return all(o.isidentifier() for o in outs) and m(names[0]) == outs[0]


UNIQ = ["h.0", "h_0", "h-0", "h_0_0", "h_0_1", "for", "r_for", "a"]


def unique_mapper(i: int, j: int, k: int, l: int) -> bool:
    """rename=False: distinct ONNX names get distinct python identifiers, equal names the same one, for any 4 requests
    (triples that collide after clean-up and names equal to a generated suffix included)
    vp-pre: 0 <= i < 8 and 0 <= j < 8 and 0 <= k < 8 and 0 <= l < 8
    """
    m = OX._make_unique_name_mapper()
    names = [UNIQ[i], UNIQ[j], UNIQ[k], UNIQ[l]]
    outs = [m(n) for n in names]
    for a in range(4):
        for b in range(4):
            if (names[a] == names[b]) != (outs[a] == outs[b]):
                return False
    return all(o.isidentifier() and not keyword.iskeyword(o) for o in outs) and [m(n) for n in names] == outs


USED = ["x", "x_0", "x_1", "y"]


def attr_conflict(mask0: bool, mask1: bool, mask2: bool, mask3: bool, attr: int) -> bool:
    """an attribute parameter named like a value: the value is renamed to a name not in use
    vp-pre: 0 <= attr < 2
    """
    ex = OX._Exporter(rename=False, use_operators=False, inline_const=False, skip_initializers=False)
    used = {n for n, mk in zip(USED, (mask0, mask1, mask2, mask3)) if mk}
    ex._names_used = set(used)
    aname = ["x", "y"][attr]
    used.add(aname)  # invariant of the exporter: the conflicting value name itself is among the names in use
    ex._names_used = set(used)
    ex._attr_renaming = {aname: None}
    r = ex._rename_variable(aname)
    return r != aname and r not in used and ex._rename_variable(aname) == r


OBLIGATIONS = [
    {"id": "c13.x.cleanup_is_identifier", "func": "valid_ident", "timeout": 200,
     "functions": ["onnxscript.backend.onnx_export:_cleanup_variable_name"], "bounds": "all 155 names of length 1..3 over {a,1,_,.,-} (bounded symbolic index)", "stubs": []},
    {"id": "c13.x.cleanup_keywords", "func": "keyword_ident", "timeout": 120,
     "functions": ["onnxscript.backend.onnx_export:_cleanup_variable_name"], "bounds": "all 35 Python keywords", "stubs": []},
    {"id": "c13.x.cleanup_idempotent", "func": "idempotent", "timeout": 200,
     "functions": ["onnxscript.backend.onnx_export:_cleanup_variable_name"], "bounds": "155 names", "stubs": []},
    {"id": "c13.x.short_mapper", "func": "short_mapper", "timeout": 300,
     "functions": ["onnxscript.backend.onnx_export:_make_short_name_mapper"], "bounds": "3 requests from an 8-name table with clean-up collisions", "stubs": []},
    *[{"id": f"c13.x.unique_mapper.i{q}", "func": "unique_mapper", "extra_pres": [f"i == {q}"], "timeout": 300,
       "functions": ["onnxscript.backend.onnx_export:_make_unique_name_mapper"],
       "bounds": "4 requests from an 8-name table with triple clean-up collisions and generated-suffix names (first request fixed per slice)", "stubs": []}
      for q in range(8)],
    {"id": "c13.x.attr_conflict", "func": "attr_conflict", "timeout": 120,
     "functions": ["onnxscript.backend.onnx_export:_Exporter._handle_attrname_conflict"], "bounds": "used names: any subset of 4; 2 attribute names", "stubs": []},
]
