"""C12 (cache): 'distinct literals never share a tensor with a different value' on the real
GraphBuilder._get_or_create_constant.  Two literals (kind, payload) and a requested dtype are solver variables
concretised by comparison forks; both are requested from one builder (root or a child builder sharing the root cache)
in either order.  Postcondition: each returned initializer holds exactly np.asarray(literal, dtype) (shape, dtype, bits)
-- so a shared entry is only possible for literals that denote the same tensor -- and a repeated request returns the
same object."""
from __future__ import annotations

import numpy as np
import onnx_ir as ir

from onnxscript._internal import builder as B

DT = ir.DataType
INTS = [0, 1, -3, 2]
FLOATS = [0.0, -0.0, 1.0, 2.5, 0.5, -3.0, 2.0]
KINDS = ["int", "float", "bool", "[int]", "[float]", "[bool]", "(int,)", "[int,int]", "[float,float]", "(float,)", "[int,int,int]"]
DTYPES = [None, DT.INT64, DT.FLOAT, DT.DOUBLE, DT.INT32]
NPAY = 4


def literal(kind: int, p: int):
    k = KINDS[kind]
    i, f, b = INTS[p % len(INTS)], FLOATS[p % len(FLOATS)], bool(p % 2)
    i2, f2 = INTS[(p + 1) % len(INTS)], FLOATS[(p + 3) % len(FLOATS)]
    return {"int": i, "float": f, "bool": b, "[int]": [i], "[float]": [f], "[bool]": [b], "(int,)": (i,), "[int,int]": [i, i2],
            "[float,float]": [f, f2], "(float,)": (f,), "[int,int,int]": [i, i2, i]}[k]


def expected(lit, dtype):
    scalar = isinstance(lit, (int, float, bool))
    first = lit if scalar else lit[0]
    if dtype is None:
        dtype = {bool: DT.BOOL, int: DT.INT64, float: DT.FLOAT}[type(first)]
    with np.errstate(all="ignore"):
        return np.asarray(lit if scalar else list(lit)).astype(dtype.numpy())


def same_bits(t: ir.Value, arr) -> bool:
    got = t.const_value.numpy()
    return got.shape == arr.shape and got.dtype == arr.dtype and got.tobytes() == arr.tobytes()


LAST_OBSERVED = None


def cache_concrete(ka, pa, kb, pb, di, child, swap):
    global LAST_OBSERVED
    a, b = literal(ka, pa), literal(kb, pb)
    if swap:
        a, b = b, a
    dtype = DTYPES[di]
    g = ir.Graph([], [], nodes=[], opset_imports={"": 18}, name="g")
    gb = B.GraphBuilder(g)
    gb2 = gb
    if child:
        sub = ir.Graph([], [], nodes=[], opset_imports={"": 18}, name="sub")
        gb2 = B.GraphBuilder(sub, parent=gb) if "parent" in B.GraphBuilder.__init__.__code__.co_varnames else gb
    ta = gb._get_or_create_constant(a, dtype)
    tb = gb2._get_or_create_constant(b, dtype)
    ta2 = gb2._get_or_create_constant(a, dtype)
    ea, eb = expected(a, dtype), expected(b, dtype)
    LAST_OBSERVED = {"a": repr(a), "b": repr(b), "dtype": str(dtype), "shared": ta is tb,
                     "a_tensor": [list(ta.const_value.numpy().shape), str(ta.const_value.dtype)],
                     "b_tensor": [list(tb.const_value.numpy().shape), str(tb.const_value.dtype)],
                     "b_expected": [list(eb.shape), str(eb.dtype)]}
    return same_bits(ta, ea) and same_bits(tb, eb) and ta2 is ta


def _pick(v, lo, hi):
    for c in range(lo, hi + 1):
        if v == c:
            return c
    raise AssertionError("out of the stated range")


def cache_prop(ka: int, pa: int, kb: int, pb: int, di: int, child: bool, swap: bool) -> bool:
    args = (_pick(ka, 0, len(KINDS) - 1), _pick(pa, 0, NPAY - 1), _pick(kb, 0, len(KINDS) - 1), _pick(pb, 0, NPAY - 1),
            _pick(di, 0, len(DTYPES) - 1), True if child else False, True if swap else False)
    from crosshair.tracers import NoTracing
    with NoTracing():
        return cache_concrete(*args)


def _ob(ka):
    return {
        "id": f"c12.cache.{KINDS[ka]}",
        "sig": "pa: int, kb: int, pb: int, di: int, child: bool, swap: bool",
        "pres": [f"0 <= pa < {NPAY}", f"0 <= kb < {len(KINDS)}", f"0 <= pb < {NPAY}", f"0 <= di < {len(DTYPES)}"],
        "call": f"H.cache_prop({ka}, pa, kb, pb, di, child, swap)",
        "timeout": 300,
        "functions": ["onnxscript._internal.builder:GraphBuilder._get_or_create_constant"],
        "bounds": f"two literals: kind in {KINDS} x {NPAY} payloads from ints {INTS} / floats {FLOATS}; dtype in {[str(d) for d in DTYPES]}; "
                  "root or child builder; both orders (all symbolic, concretised by forks)",
        "stubs": [],
    }


OBLIGATIONS = [_ob(k) for k in range(len(KINDS))]
