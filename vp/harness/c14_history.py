"""C14 (d): histories of whole transformations.  A history is a sequence of models (chosen by symbolic indices into a
table that repeats the same operators at different opsets, dtypes and attribute forms) pushed through a transformation
(optimize / convert_version / proto2python) in this process; then a target model (symbolic index) goes through the same
transformation and its serialized result must equal the result obtained in a FRESH process (baselines are computed by
subprocesses, one per (transformation, target), before any history runs).  The indices are concretised by comparison
forks (one solver-decided path per history); the transformation then runs concretely."""
from __future__ import annotations

import hashlib
import json
import os
import subprocess
import sys
from typing import List

import numpy as np
import onnx
from onnx import TensorProto as TP
from onnx import helper as oh
from onnx import numpy_helper as nh

OPSETS = [11, 13, 18]
KINDS = ["unsqueeze", "squeeze", "reducesum", "reducemax", "split", "softmax", "add_f", "add_i", "cast", "clip", "dropout", "shape",
         "fold_then_fail"]


def _model(kind: str, opset: int) -> onnx.ModelProto:
    """a constant-foldable sub-expression feeding one input-dependent node"""
    N = oh.make_node
    c = nh.from_array(np.arange(6, dtype=np.float32).reshape(1, 2, 3) - 2, "c")
    inits = [c]
    nodes = []
    ax = lambda name, v: inits.append(nh.from_array(np.array(v, dtype=np.int64), name)) or name  # noqa: E731
    out_shape = None
    if kind == "unsqueeze":
        nodes.append(N("Unsqueeze", ["c"], ["k"], axes=[0]) if opset < 13 else N("Unsqueeze", ["c", ax("a", [0])], ["k"]))
        out_shape = [1, 1, 2, 3]
    elif kind == "squeeze":
        nodes.append(N("Squeeze", ["c"], ["k"], axes=[0]) if opset < 13 else N("Squeeze", ["c", ax("a", [0])], ["k"]))
        out_shape = [2, 3]
    elif kind == "reducesum":
        nodes.append(N("ReduceSum", ["c"], ["k"], axes=[2], keepdims=0) if opset < 13 else N("ReduceSum", ["c", ax("a", [2])], ["k"], keepdims=0))
        out_shape = [1, 2]
    elif kind == "reducemax":
        nodes.append(N("ReduceMax", ["c"], ["k"], axes=[1], keepdims=1) if opset < 18 else N("ReduceMax", ["c", ax("a", [1])], ["k"], keepdims=1))
        out_shape = [1, 1, 3]
    elif kind == "split":
        nodes.append(N("Split", ["c"], ["k", "k2"], axis=2, split=[1, 2]) if opset < 13 else N("Split", ["c", ax("a", [1, 2])], ["k", "k2"], axis=2))
        out_shape = [1, 2, 1]
    elif kind == "softmax":
        nodes.append(N("Softmax", ["c"], ["k"]))  # default axis: 1 (flattened) before opset 13, -1 from 13
        out_shape = [1, 2, 3]
    elif kind == "add_f":
        nodes.append(N("Add", ["c", "c"], ["k"]))
        out_shape = [1, 2, 3]
    elif kind == "add_i":
        inits[0] = nh.from_array(np.arange(6, dtype=np.int64).reshape(1, 2, 3), "c")
        nodes.append(N("Add", ["c", "c"], ["k0"]))
        nodes.append(N("Cast", ["k0"], ["k"], to=TP.FLOAT))
        out_shape = [1, 2, 3]
    elif kind == "cast":
        nodes.append(N("Cast", ["c"], ["k0"], to=TP.INT64))
        nodes.append(N("Cast", ["k0"], ["k"], to=TP.FLOAT))
        out_shape = [1, 2, 3]
    elif kind == "clip":
        inits.append(nh.from_array(np.array(-1, dtype=np.float32), "lo"))
        inits.append(nh.from_array(np.array(1, dtype=np.float32), "hi"))
        nodes.append(N("Clip", ["c", "lo", "hi"], ["k"]))
        out_shape = [1, 2, 3]
    elif kind == "dropout":
        # input-dependent Dropout: only the optimizer's version-ranged partial evaluator (opset >= 12) can remove it
        nodes.append(N("Dropout", ["x"], ["d"]))
        nodes.append(N("Mul", ["d", "c"], ["y"]))
        out_shape = [1, 2, 3]
    elif kind == "shape":
        nodes.append(N("Shape", ["x"], ["s"]))
        nodes.append(N("Cast", ["s"], ["k"], to=TP.FLOAT))
        out_shape = [1, 2, 3]
    elif kind == "fold_then_fail":
        # something is folded (Add of two initializers), then the evaluation of the next node raises (Cast to an element type that
        # does not exist): a transformation that fails half-way
        nodes.append(N("Add", ["c", "c"], ["k0"]))
        nodes.append(N("Cast", ["k0"], ["k"], to=999))
        out_shape = [1, 2, 3]
    if kind != "dropout":
        nodes.append(N("Mul", ["x", "k"], ["y"]))
    g = oh.make_graph(nodes, f"{kind}_{opset}", [oh.make_tensor_value_info("x", TP.FLOAT, out_shape)],
                      [oh.make_tensor_value_info("y", TP.FLOAT, out_shape)], inits)
    return oh.make_model(g, opset_imports=[oh.make_opsetid("", opset)], ir_version=8)


TABLE = [(k, o) for o in OPSETS for k in KINDS]
MODELS = [_model(k, o).SerializeToString() for k, o in TABLE]
TRANSFORMS = ["optimize", "convert18", "proto2python", "script", "convert21", "reused_fold_pass", "reused_rule_set"]


def _conv_models():
    """models at opsets 18..20 for up-conversion to 21: some need an adapter (GridSample, DFT: 19->20; GroupNormalization: 20->21),
    the others are plain; nodes and values are unnamed / minimally named so that a naming pass run by mistake shows"""
    N = oh.make_node
    out = []

    def mk(name, nodes, ins, outs, opset, inits=()):
        g = oh.make_graph(nodes, name, [oh.make_tensor_value_info(n, TP.FLOAT, sh) for n, sh in ins],
                          [oh.make_tensor_value_info(n, TP.FLOAT, sh) for n, sh in outs], list(inits))
        out.append((f"{name}@{opset}", oh.make_model(g, opset_imports=[oh.make_opsetid("", opset)], ir_version=9).SerializeToString()))
    for opset in (18, 19, 20):
        mk("relu_neg", [N("Relu", ["x"], ["t"]), N("Neg", ["t"], ["y"])], [("x", [2, 3])], [("y", [2, 3])], opset)
        mk("add_mul", [N("Add", ["x", "x"], ["t"]), N("Mul", ["t", "x"], ["y"])], [("x", [2])], [("y", [2])], opset)
    mk("gridsample", [N("GridSample", ["x", "g"], ["y"], mode="bilinear")], [("x", [1, 1, 2, 2]), ("g", [1, 1, 2, 2])], [("y", [1, 1, 1, 2])], 19)
    mk("dft", [N("DFT", ["x"], ["y"], axis=1)], [("x", [1, 4, 1])], [("y", [1, 4, 2])], 19)
    mk("groupnorm", [N("GroupNormalization", ["x", "s", "b"], ["y"], num_groups=2)], [("x", [1, 4, 2])], [("y", [1, 4, 2])], 20,
       [nh.from_array(np.array([1.0, 2.0], dtype=np.float32), "s"), nh.from_array(np.array([0.5, -1.0], dtype=np.float32), "b")])
    return out


CONV_MODELS = _conv_models()


def _ruleset_models():
    """models for ONE reused RewriteRuleSet holding an as_function rule Neg(Relu(x)) -> vp.fused::ReluNeg(x) and two stateful shipped
    rules: 0..3 instances of the pattern, Flatten / Reshape(Reshape) instances with different shapes, and models without any"""
    N = oh.make_node
    out = [m for _, m in CONV_MODELS[:4]]

    def mk(name, nodes, ins, outs, inits=()):
        g = oh.make_graph(nodes, name, [oh.make_tensor_value_info(n, TP.FLOAT, sh) for n, sh in ins],
                          [oh.make_tensor_value_info(n, TP.FLOAT, sh) for n, sh in outs], list(inits))
        out.append(oh.make_model(g, opset_imports=[oh.make_opsetid("", 18)], ir_version=9).SerializeToString())
    mk("two", [N("Relu", ["x"], ["a"]), N("Neg", ["a"], ["b"]), N("Relu", ["b"], ["c"]), N("Neg", ["c"], ["y"])], [("x", [2])], [("y", [2])])
    mk("three", [N("Relu", ["x"], ["a"]), N("Neg", ["a"], ["b"]), N("Relu", ["b"], ["c"]), N("Neg", ["c"], ["d"]), N("Relu", ["d"], ["e"]),
                 N("Neg", ["e"], ["y"])], [("x", [3])], [("y", [3])])
    mk("flat23", [N("Flatten", ["x"], ["y"], axis=1)], [("x", [2, 3, 4])], [("y", [2, 12])])
    mk("flat5", [N("Flatten", ["x"], ["y"], axis=2)], [("x", [5, 1, 2])], [("y", [5, 2])])
    mk("rr", [N("Reshape", ["x", "s1"], ["t"]), N("Reshape", ["t", "s2"], ["y"])], [("x", [2, 6])], [("y", [3, 4])],
       [nh.from_array(np.array([4, 3], dtype=np.int64), "s1"), nh.from_array(np.array([3, 4], dtype=np.int64), "s2")])
    mk("rr0", [N("Reshape", ["x", "s1"], ["t"]), N("Reshape", ["t", "s2"], ["y"]), ], [("x", [2, 6])], [("y", [2, 6])],
       [nh.from_array(np.array([12], dtype=np.int64), "s1"), nh.from_array(np.array([0, -1], dtype=np.int64), "s2")])
    return out


RULESET_MODELS = _ruleset_models()

# script sources for the converter: the same small vocabulary of names (scale, k, t, c) occurs as a Python constant bound to a
# local in some scripts and as a tensor parameter / intermediate in others; element types differ between scripts
SCRIPT_SRCS = [
    ("const_scale", "def f(x: FLOAT[3]) -> FLOAT[3]:\n    scale = 0.5\n    return x * scale\n"),
    ("tensor_scale_double", "def f(x: DOUBLE[3], scale: DOUBLE[3]) -> DOUBLE[3]:\n    return x * scale + 1.0\n"),
    ("tensor_scale_float", "def f(x: FLOAT[3], scale: FLOAT[3]) -> FLOAT[3]:\n    t = x * scale\n    return t + 2.0\n"),
    ("const_k_int", "def f(x: INT64[3]) -> INT64[3]:\n    k = 2\n    return x * k + 1\n"),
    ("tensor_k_int", "def f(x: FLOAT[3], k: INT64[3]) -> FLOAT[3]:\n    return x + op.Cast(k + 1, to=1)\n"),
    ("const_t_c", "def f(x: FLOAT[3]) -> FLOAT[3]:\n    t = 3.0\n    c = 1\n    return x * t + op.Cast(c, to=1)\n"),
    ("tensor_t_c_if", "def f(x: FLOAT[3], c: BOOL) -> FLOAT[3]:\n    t = x + 1.0\n    if c:\n        t = t * 2.0\n    else:\n        t = t - 1.0\n    return t\n"),
    ("tensor_t_loop", "def f(x: FLOAT[3], k: INT64) -> FLOAT[3]:\n    t = x\n    for i in range(k):\n        t = t * 0.5 + 1.0\n    return t\n"),
    ("half_scale", "def f(x: FLOAT16[3], scale: FLOAT16[3]) -> FLOAT16[3]:\n    return x * scale + 1.0\n"),
    ("nested_fn", "def g(a: FLOAT[3], scale: FLOAT[3]) -> FLOAT[3]:\n    return a * scale\n\n@script(default_opset=op)\ndef f(x: FLOAT[3]) -> FLOAT[3]:\n    k = 4.0\n    return g(x, x) * k\n"),
] + [
    # the same custom domain at different versions, as the domain of an operator and as the domain of the function itself
    # (process-wide Opset objects); the leading dummy function only absorbs the decorator of the common header
    (f"custom_domain_v{v}_{kind}",
     "def _unused(x: FLOAT[1]) -> FLOAT[1]:\n    return x\n\nfrom onnxscript.values import Opset\n"
     + (f"CUSTOM = Opset('vp.custom', {v})\n\n@script(default_opset=op)\ndef f(x: FLOAT[3]) -> FLOAT[3]:\n    return CUSTOM.Foo(x) + 1.0\n" if kind == "op" else
        f"@script(Opset('vp.custom', {v}), default_opset=op)\ndef f(x: FLOAT[3]) -> FLOAT[3]:\n    return x * 2.0\n"))
    for v in (1, 2, 3) for kind in ("op", "fn")
]
_SCRIPT_HEADER = ("from onnxscript import script, FLOAT, DOUBLE, FLOAT16, INT64, BOOL\nfrom onnxscript import opset18 as op\n\n"
                  "@script(default_opset=op)\n")
_COUNTER = [0]


def table(t: str):
    return SCRIPT_SRCS if t == "script" else [m for _, m in CONV_MODELS] if t == "convert21" else RULESET_MODELS if t == "reused_rule_set" else MODELS


def transform(name: str, mb) -> bytes:
    if name == "script":
        # decorate a fresh copy of the source in this process (the decorator needs a real file) and serialise its model
        import importlib.util
        import tempfile
        _COUNTER[0] += 1
        d = tempfile.mkdtemp(prefix="vp_c14s_")
        try:
            modname = f"vp_c14s_{os.getpid()}_{_COUNTER[0]}"
            path = os.path.join(d, modname + ".py")
            with open(path, "w") as fh:
                fh.write(_SCRIPT_HEADER + mb[1])
            spec = importlib.util.spec_from_file_location(modname, path)
            mod = importlib.util.module_from_spec(spec)
            sys.modules[modname] = mod
            try:
                spec.loader.exec_module(mod)
                return mod.f.to_model_proto().SerializeToString(deterministic=True)
            finally:
                sys.modules.pop(modname, None)
        finally:
            import shutil
            shutil.rmtree(d, ignore_errors=True)
    m = onnx.load_from_string(mb)
    if name == "optimize":
        from onnxscript import optimizer
        return optimizer.optimize(m).SerializeToString(deterministic=True)
    if name in ("convert18", "convert21"):
        from onnxscript import version_converter
        r = version_converter.convert_version(m, int(name[-2:]), fallback=False)
        return (r if r is not None else m).SerializeToString(deterministic=True)
    if name == "proto2python":
        import onnxscript
        return onnxscript.proto2python(m).encode()
    if name == "reused_fold_pass":
        # ONE pass object for the whole process (pass objects are reusable): its result for a model must not depend on the models
        # it handled before, failed ones included
        import onnx_ir as ir_
        global _FOLD_PASS
        if _FOLD_PASS is None:
            from onnxscript.optimizer import _constant_folding as cf_
            _FOLD_PASS = cf_.FoldConstantsPass(shape_inference=False, input_size_limit=8192, output_size_limit=8192)
        res = _FOLD_PASS(ir_.from_proto(m))
        return (b"modified=%d;" % int(bool(res.modified))) + ir_.to_proto(res.model).SerializeToString(deterministic=True)
    if name == "reused_rule_set":
        # ONE RewriteRuleSet object for the whole process (rule sets are module-level singletons in the library itself): the
        # result for a model must not depend on the models it rewrote before
        import onnx_ir as ir_
        global _RULE_SET
        if _RULE_SET is None:
            from onnxscript.rewriter import pattern as pt_
            from onnxscript.rewriter.rules.common import flatten_to_reshape_rule, reshape_reshape_rule
            fuse = pt_.RewriteRule(lambda op, x: op.Neg(op.Relu(x)), lambda op, x: op.ReluNeg(x, _domain="vp.fused"), as_function=True)
            _RULE_SET = pt_.RewriteRuleSet([fuse, flatten_to_reshape_rule, reshape_reshape_rule])
        mi = ir_.from_proto(m)
        n = _RULE_SET.apply_to_model(mi)
        return (b"applications=%d;" % int(n)) + ir_.to_proto(mi).SerializeToString(deterministic=True)
    raise ValueError(name)


_FOLD_PASS = None
_RULE_SET = None


def _safe(name, mb):
    try:
        return hashlib.sha256(transform(name, mb)).hexdigest()
    except Exception as e:  # noqa: BLE001 - a refusal is a result too; it must not depend on history either
        return f"raises {type(e).__name__}"


def compute_baselines(jobs=16) -> dict:
    """{f"{transform}:{index}": digest} from fresh processes (one per pair)"""
    import concurrent.futures as cf
    env = dict(os.environ)
    env.pop("VP_C14_BASE", None)

    def one(key):
        t, i = key
        cp = subprocess.run([sys.executable, "-m", "vp.harness.c14_history", t, str(i)], capture_output=True, text=True, env=env,
                            timeout=300, cwd=os.path.dirname(os.path.dirname(os.path.dirname(os.path.abspath(__file__)))))
        out = cp.stdout.strip().splitlines()
        return key, (out[-1] if cp.returncode == 0 and out else f"baseline failed rc={cp.returncode} {cp.stderr[-300:]}")
    keys = [(t, i) for t in TRANSFORMS for i in range(len(table(t)))]
    with cf.ThreadPoolExecutor(max_workers=jobs) as ex:
        return {f"{t}:{i}": d for (t, i), d in ex.map(one, keys)}


_BASE = None


def baselines():
    global _BASE
    if _BASE is None:
        p = os.environ.get("VP_C14_BASE")
        if p and os.path.exists(p):
            _BASE = json.loads(open(p).read())
        else:
            _BASE = compute_baselines()
    return _BASE


LAST_OBSERVED = None


def run_history(ti: int, hist, target: int):
    global LAST_OBSERVED
    t = TRANSFORMS[ti]
    tb = table(t)
    for h in hist:
        _safe(t, tb[h])
    got = _safe(t, tb[target])
    want = baselines()[f"{t}:{target}"]
    label = ((lambda i: SCRIPT_SRCS[i][0]) if t == "script" else (lambda i: CONV_MODELS[i][0]) if t == "convert21"
             else (lambda i: f"{TABLE[i][0]}@{TABLE[i][1]}"))
    LAST_OBSERVED = {"transformation": t, "history": [label(h) for h in hist], "target": label(target), "fresh": want, "after_history": got}
    return got == want


def _pick(v, lo, hi):
    for c in range(lo, hi + 1):
        if v == c:
            return c
    raise AssertionError("out of the stated range")


_WARM = [False]


def _warm_imports():
    """import (only import) what the transformations use, so that a forked child does not pay for it on every path"""
    if _WARM[0]:
        return
    _WARM[0] = True
    import importlib
    for m in ("onnxscript", "onnxscript.optimizer", "onnxscript.optimizer._constant_folding", "onnxscript.version_converter",
              "onnxscript.backend.onnx_export", "onnxscript.rewriter", "onnxscript.rewriter.rules.common", "onnx.reference",
              "onnx.reference.ops._op_list", "onnx.shape_inference", "onnx_ir.passes.common"):
        try:
            importlib.import_module(m)
        except Exception:  # noqa: BLE001
            pass


def _isolated_history(ti: int, hs, tg) -> bool:
    """Run one history in a forked child: the property is about what earlier work in the SAME process leaves behind, so every
    solver-decided path must start from the state of a process that has only imported the library -- not from what the paths
    explored before it in this worker left behind (a counterexample would then not be replayable from its own history)."""
    global LAST_OBSERVED
    baselines()  # cached in the parent: the child must not recompute them
    _warm_imports()
    r, w = os.pipe()
    pid = os.fork()
    if pid == 0:
        code = 1
        try:
            os.close(r)
            ok = run_history(ti, hs, tg)
            os.write(w, json.dumps({"ok": bool(ok), "observed": LAST_OBSERVED}).encode())
            code = 0
        finally:
            os._exit(code)
    os.close(w)
    chunks = []
    while True:
        b = os.read(r, 65536)
        if not b:
            break
        chunks.append(b)
    os.close(r)
    os.waitpid(pid, 0)
    if not chunks:
        raise RuntimeError(f"history child produced no result for transformation {TRANSFORMS[ti]} history {hs} target {tg}")
    out = json.loads(b"".join(chunks).decode())
    LAST_OBSERVED = out["observed"]
    return out["ok"]


def history_prop(ti: int, hist: List[int], target: int) -> bool:
    n = len(table(TRANSFORMS[ti]))
    hs = [_pick(h, 0, n - 1) for h in hist]
    tg = _pick(target, 0, n - 1)
    from crosshair.tracers import NoTracing
    with NoTracing():
        return _isolated_history(ti, hs, tg)


def _ob(ti, hlen, first_opset=None, tiers=("quick", "thorough")):
    n = len(table(TRANSFORMS[ti]))
    pres = [f"len(hist) == {hlen}", f"all(0 <= h < {n} for h in hist)", f"0 <= target < {n}"]
    oid = f"c14.history.{TRANSFORMS[ti]}.h{hlen}"
    if first_opset is not None:
        lo = first_opset * len(KINDS)
        pres.append(f"{lo} <= hist[0] < {lo + len(KINDS)}")
        oid += f".first{OPSETS[first_opset]}"
    return {
        "id": oid, "sig": "hist: List[int], target: int", "pres": pres, "call": f"H.history_prop({ti}, hist, target)",
        "timeout": 400, "timeout_thorough": 3000, "tiers": tiers,
        "functions": {"optimize": ["onnxscript.optimizer:optimize", "onnxscript.optimizer._constant_folding:ReferenceEvaluator"],
                      "convert18": ["onnxscript.version_converter:convert_version"],
                      "proto2python": ["onnxscript.backend.onnx_export:export2python"],
                      "script": ["onnxscript._internal.converter:Converter", "onnxscript._internal.main:script"],
                      "reused_fold_pass": ["onnxscript.optimizer._constant_folding:FoldConstantsPass.call"],
                      "reused_rule_set": ["onnxscript.rewriter._rewrite_rule:RewriteRuleSet.apply_to_model", "onnxscript.rewriter._rewrite_rule:_get_new_overload"],
                      "convert21": ["onnxscript.version_converter:convert_version", "onnxscript.version_converter._version_converter:_VersionConverter"]}[TRANSFORMS[ti]],
        "bounds": (f"history of {hlen} script(s) and a target from a table of {n} script sources sharing a vocabulary of names (constants in "
                   "some, tensors in others), all symbolic; fresh-process baselines") if TRANSFORMS[ti] == "script" else
                  (f"history of {hlen} model(s) and a target from a table of {n} models at opsets 18..20 (plain and adapter-needing: GridSample, DFT, "
                   "GroupNormalization) converted to 21, all symbolic; fresh-process baselines") if TRANSFORMS[ti] == "convert21" else
                  (f"history of {hlen} model(s) and a target from a table of {n} models (0..3 instances of an as_function rule, Flatten / "
                   "Reshape(Reshape) instances of two stateful shipped rules) rewritten by ONE RewriteRuleSet object, all symbolic; fresh-process baselines") if TRANSFORMS[ti] == "reused_rule_set" else
                  (f"history of {hlen} model(s) and a target from a {n}-model table ({len(KINDS)} operator kinds x opsets {OPSETS}), all symbolic; "
                   "fresh-process baselines"),
        "stubs": [],
    }


OBLIGATIONS = (
    [_ob(0, 1, fo) for fo in range(len(OPSETS))] + [_ob(1, 1), _ob(2, 1), _ob(3, 1), _ob(3, 2), _ob(4, 1), _ob(4, 2)]
    + [_ob(5, 1, fo) for fo in range(len(OPSETS))]
    + [_ob(0, 2, fo, tiers=("thorough",)) for fo in range(len(OPSETS))]
    + [_ob(6, 1), _ob(6, 2, tiers=("thorough",))]
)


if __name__ == "__main__":
    print(_safe(sys.argv[1], table(sys.argv[1])[int(sys.argv[2])]))
