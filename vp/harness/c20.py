"""C20 (narrow): the real save_model_with_external_data with ir.save replaced by a recording stub
that faults under a symbolic flag.  Symbolic: which initializers lack a const_value, which path
shape, whether the save faults, verbose (tqdm present/absent by stub)."""
from __future__ import annotations

import os
from typing import List

import numpy as np
import onnx_ir as ir

from vp import loader

T, _INFO = loader.load_cut("onnxscript._framework_apis.torch_2_5")


class Boom(OSError):
    pass


TENS = [ir.tensor(np.zeros(1, np.float32), name=f"w{i}") for i in range(3)]
PATHS = ["m.onnx", "d/m.onnx", "/abs/m", "a.b/c.d", "./m", "x/../y.onnx", "dir.onnx/model", "m.onnx.data"]
BASES = ["m.onnx", "m.onnx", "m", "c.d", "m", "y.onnx", "model", "m.onnx.data"]


def _sibling(ed, base) -> bool:
    if not isinstance(ed, (str, os.PathLike)):
        return False
    ed = os.fspath(ed)
    return ed != "" and "/" not in ed and os.sep not in ed and ed not in (".", "..") and ed != base


LAST_CALLS = None


def protocol_probe():
    """Concrete run used by the driver: does the function still delegate to ONE ir.save(model, path, external_data=...) call?
    If not, the stubbed group cannot represent it and only the real-save group (c20_real) decides."""
    try:
        ok = save_prop([True], 0, False, False, False, [False])
    except Exception as e:  # noqa: BLE001
        return False, f"{type(e).__name__}: {e}"
    n = len(LAST_CALLS or [])
    if n != 1 or LAST_CALLS[0][2] is None:
        return False, f"{n} ir.save call(s), external_data={[c[2] for c in LAST_CALLS or []]}"
    return True, f"one ir.save call, external_data={LAST_CALLS[0][2]!r}; property on the probe instance: {ok}"


def save_prop(has_value: List[bool], pi: int, verbose: bool, tqdm_present: bool, fault: bool, is_input: List[bool] = ()) -> bool:
    path = PATHS[pi]
    inits = []
    for i, hv in enumerate(has_value):
        inits.append(
            ir.Value(name=f"w{i}", type=ir.TensorType(ir.DataType.FLOAT), shape=ir.Shape([1]),
                     const_value=(TENS[i] if hv else None))
        )
    # an initializer may also be a graph input (an overridable default): the guard must not depend on that
    g_inputs = [v for v, isin in zip(inits, list(is_input) + [False] * len(inits)) if isin]
    g = ir.Graph(g_inputs, [], nodes=[], initializers=inits, opset_imports={"": 18}, name="g")
    model = ir.Model(g, ir_version=9)
    before = [(k, v, v.const_value) for k, v in g.initializers.items()]
    calls = []

    def fake_save(m, p, external_data=None, callback=None, **kw):
        calls.append((m, p, external_data, callback is not None, sorted(kw)))
        if fault:
            raise Boom("disk full")

    class _FakeSpecMod:
        @staticmethod
        def find_spec(name):
            return object() if tqdm_present else None

    orig_save, orig_util = T.ir.save, T.importlib.util
    T.ir.save = fake_save
    try:
        # find_spec decides whether tqdm is imported; keep the real tqdm out of the traced region
        import types as _types
        T.importlib = _types.SimpleNamespace(util=_FakeSpecMod)
        if verbose and tqdm_present:
            import sys
            class _PB:
                total = None
                def __enter__(self): return self
                def __exit__(self, *a): return False
                def update(self): pass
                def set_description(self, d): pass
            sys.modules["tqdm"] = _types.SimpleNamespace(tqdm=lambda: _PB())
        try:
            T.save_model_with_external_data(model, path, verbose=verbose)
            outcome = "ok"
        except ValueError:
            outcome = "refused"
        except Boom:
            outcome = "io"
    finally:
        T.ir.save = orig_save
        import importlib as _il
        T.importlib = _il
        import sys
        if isinstance(sys.modules.get("tqdm"), _types.SimpleNamespace):
            del sys.modules["tqdm"]
    global LAST_CALLS
    LAST_CALLS = calls
    after = [(k, v, v.const_value) for k, v in g.initializers.items()]
    same = len(before) == len(after) and all(a[0] == b[0] and a[1] is b[1] and a[2] is b[2] for a, b in zip(before, after))
    if not all(has_value):
        return outcome == "refused" and calls == [] and same
    # the contract with onnx_ir.save that this group relies on: ONE call, for this model and path, naming a sibling data
    # file (a bare file name, not the model file itself).  Which name, callback or extra keyword is used is not part of C20.
    ok_call = len(calls) == 1 and calls[0][0] is model and os.fspath(calls[0][1]) == path and _sibling(calls[0][2], BASES[pi])
    return same and ok_call and outcome == ("io" if fault else "ok")


def _ob(n):
    return {
        "id": f"c20.save.n{n}",
        "sig": "has_value: List[bool], is_input: List[bool], pi: int, verbose: bool, tqdm_present: bool, fault: bool",
        "pres": [f"len(has_value) == {n}", f"len(is_input) == {n}", f"0 <= pi < {len(PATHS)}"],
        "call": "H.save_prop(has_value, pi, verbose, tqdm_present, fault, is_input)",
        "timeout": 120, "timeout_thorough": 1200, "tiers": ("quick", "thorough") if n <= 2 else ("thorough",),
        "functions": ["onnxscript._framework_apis.torch_2_5:save_model_with_external_data"],
        "bounds": f"{n} initializers, each with/without const_value and being a graph input or not (symbolic); {len(PATHS)} path shapes; verbose/tqdm/fault symbolic",
        "stubs": ["ir.save -> recording stub raising OSError under a symbolic flag", "importlib.util.find_spec and tqdm -> stubs"],
    }


OBLIGATIONS = [_ob(0), _ob(1), _ob(2), _ob(3)]
