"""C02 (a): name-allocator lemma — one inductive step of Converter._generate_unique_name from an
arbitrary pre-state (any subset of a collision table as used names, counter 0..2, any candidate),
plus courtesy lemmas: Opset._prepare_inputs trims exactly the trailing Nones."""
from __future__ import annotations

from typing import List, Optional

from vp import loader

cv, _I = loader.load_cut("onnxscript._internal.converter")
from onnxscript._internal import values as V  # noqa: E402

NAMES = ["x", "x_0", "x_1", "x_2", "y", "tmp"]


def uniq(mask: List[bool], nextvar: int, ci: int) -> bool:
    """
    vp-pre: len(mask) == 6 and 0 <= nextvar <= 2 and 0 <= ci < 6
    """
    used = {n for n, m in zip(NAMES, mask) if m}
    c = cv.Converter.__new__(cv.Converter)
    c._used_vars = set(used)
    c._nextvar = nextvar
    r = c._generate_unique_name(NAMES[ci])
    return (
        (r not in used) and (r in c._used_vars) and used <= c._used_vars
        and len(c._used_vars) == len(used) + 1 and c._nextvar >= nextvar and isinstance(r, str)
    )


def uniq_twice(mask: List[bool], nextvar: int, ci: int, cj: int) -> bool:
    """two allocations in a row (e.g. target then temporary) never collide
    vp-pre: len(mask) == 6 and 0 <= nextvar <= 1 and 0 <= ci < 6 and cj == ci
    """
    used = {n for n, m in zip(NAMES, mask) if m}
    c = cv.Converter.__new__(cv.Converter)
    c._used_vars = set(used)
    c._nextvar = nextvar
    r1 = c._generate_unique_name(NAMES[ci])
    r2 = c._generate_unique_name(NAMES[cj])
    return r1 != r2 and r1 not in used and r2 not in used and c._used_vars == used | {r1, r2}


def prepare_inputs(present: List[bool]) -> bool:
    """courtesy lemma for C17: trailing Nones (only) are trimmed
    vp-pre: len(present) <= 5
    """
    ins = [object() if p else None for p in present]
    out = V.Opset._prepare_inputs(None, None, *ins)
    k = len(ins)
    while k and ins[k - 1] is None:
        k -= 1
    return len(out) == k and all(a is b for a, b in zip(out, ins))


OBLIGATIONS = [
    {"id": "c02.alloc.step", "func": "uniq", "timeout": 150, "functions": ["onnxscript._internal.converter:Converter._generate_unique_name"],
     "bounds": "used = any subset of a 6-name collision table, counter 0..2, candidate any table entry",
     "stubs": ["Converter built with __new__ (only _used_vars/_nextvar set)"]},
    {"id": "c02.alloc.two_steps", "func": "uniq_twice", "timeout": 500, "tiers": ("thorough",),
     "functions": ["onnxscript._internal.converter:Converter._generate_unique_name"],
     "bounds": "two consecutive allocations of the same candidate; counter 0..1; 6-name table", "stubs": ["Converter built with __new__"]},
    {"id": "c02.courtesy.prepare_inputs", "func": "prepare_inputs", "timeout": 60,
     "functions": ["onnxscript._internal.values:Opset._prepare_inputs"], "bounds": "<=5 inputs, each present/None", "stubs": []},
]
