"""C14 (b): histories as arbitrary pre-state.  Rule singletons keep per-match fields on `self`
(_new_shape, _allowzero, _pads_list, _new_dims, ...: found by an AST pass over the live source at
every run).  Before the target runs, every such field of the rule's instance is set to a symbolic value
(int / list of ints) — any value an earlier match, successful or failed, could have left behind; the
rewrite of the target model must be byte-identical to the one produced with a fresh instance."""
from __future__ import annotations

import ast
import inspect
from typing import List

import numpy as np
import onnx
from onnx import TensorProto as TP
from onnx import helper as oh
from onnx import numpy_helper as nh

import onnx_ir

try:
    from crosshair import realize
    from crosshair.tracers import NoTracing
    _orig_tensor = onnx_ir.tensor

    def _tensor_nt(*a, **k):
        a = [realize(x) for x in a]
        k = {kk: realize(v) for kk, v in k.items()}
        with NoTracing():
            return _orig_tensor(*a, **k)
    onnx_ir.tensor = _tensor_nt
    # attribute-type inference does isinstance(x, <Protocol with data members>), which raises under tracing
    import onnx_ir._convenience as _conv
    _orig_infer = _conv._infer_attribute_type

    def _infer_nt(attr):
        with NoTracing():
            return _orig_infer(realize(attr))
    _conv._infer_attribute_type = _infer_nt
except Exception:  # pragma: no cover
    pass

from onnxscript.rewriter import rewrite  # noqa: E402
from onnxscript.rewriter.rules import common as RC  # noqa: E402


def _vi(n, sh, dt=TP.FLOAT):
    return oh.make_tensor_value_info(n, dt, sh)


def _m(nodes, ins, outs, inits=()):
    g = oh.make_graph(nodes, "g", ins, outs, list(inits))
    m = oh.make_model(g, opset_imports=[oh.make_opsetid("", 18)], ir_version=9)
    return onnx.shape_inference.infer_shapes(m)


TARGETS = {
    "flatten_to_reshape_rule": _m([oh.make_node("Flatten", ["x"], ["y"], axis=1)], [_vi("x", [2, 3, 4])], [_vi("y", [2, 12])]),
    "reshape_reshape_rule": _m([oh.make_node("Reshape", ["x", "s1"], ["a"]), oh.make_node("Reshape", ["a", "s2"], ["y"])],
                               [_vi("x", [2, 3])], [_vi("y", [6])],
                               [nh.from_array(np.array([3, 2], dtype=np.int64), "s1"), nh.from_array(np.array([6], dtype=np.int64), "s2")]),
    "fuse_pad_into_conv_rule": _m([oh.make_node("Pad", ["x", "p"], ["px"]), oh.make_node("Conv", ["px", "w"], ["y"])],
                                  [_vi("x", [1, 2, 5])], [_vi("y", [1, 3, 6])],
                                  [nh.from_array(np.array([0, 0, 1, 0, 0, 2], dtype=np.int64), "p"),
                                   nh.from_array((np.arange(12).reshape(3, 2, 2) / 4).astype(np.float32), "w")]),
    "materialize_reshape_shape_rule": _m([oh.make_node("Shape", ["x"], ["s"]), oh.make_node("Reshape", ["y", "s"], ["z"])],
                                         [_vi("x", [2, 3]), _vi("y", [3, 2])], [_vi("z", [2, 3])]),
}


def stateful_fields():
    """AST pass: (rule module, class, field) for self.<field> assignments outside __init__ in rules.common"""
    import importlib
    import pkgutil
    out = []
    import onnxscript.rewriter.rules.common as pkg
    for mi in pkgutil.iter_modules(pkg.__path__):
        if mi.name.endswith("_test"):
            continue
        mod = importlib.import_module(f"{pkg.__name__}.{mi.name}")
        try:
            tree = ast.parse(inspect.getsource(mod))
        except (OSError, TypeError):
            continue
        for cls in [n for n in ast.walk(tree) if isinstance(n, ast.ClassDef)]:
            for fn in [n for n in cls.body if isinstance(n, ast.FunctionDef) and n.name != "__init__"]:
                for st in ast.walk(fn):
                    if isinstance(st, (ast.Assign, ast.AugAssign, ast.AnnAssign)):
                        tgts = st.targets if isinstance(st, ast.Assign) else [st.target]
                        for t in tgts:
                            if isinstance(t, ast.Attribute) and isinstance(t.value, ast.Name) and t.value.id == "self":
                                out.append((mi.name, cls.name, t.attr))
    return sorted(set(out))


FIELDS = stateful_fields()


def _instance(rule):
    f = rule._condition_function
    return getattr(f, "__self__", None)


BASE = {}
for _name, _model in TARGETS.items():
    BASE[_name] = rewrite(_model, [getattr(RC, _name)]).SerializeToString(deterministic=True)


def state_prop(ti: int, junk: List[int], scalar: int, as_none: bool) -> bool:
    name = list(TARGETS)[ti]
    rule = getattr(RC, name)
    inst = _instance(rule)
    if inst is None:
        return True
    cls_fields = [f for (_, c, f) in FIELDS if c == type(inst).__name__ or any(c == b.__name__ for b in type(inst).__mro__)]
    for f in cls_fields:
        if as_none:
            setattr(inst, f, None)
        elif f.startswith("_new") or f.startswith("_pads"):
            setattr(inst, f, list(junk))
        else:
            setattr(inst, f, scalar)
    out = rewrite(TARGETS[name], [rule]).SerializeToString(deterministic=True)
    return out == BASE[name]


OBLIGATIONS = [
    {"id": f"c14.state.{n}", "sig": "junk: List[int], scalar: int, as_none: bool", "pres": ["len(junk) == 2"],
     "call": f"H.state_prop({i}, junk, scalar, as_none)", "timeout": 200,
     "functions": [f"onnxscript.rewriter.rules.common:{n}"],
     "bounds": "every per-match field of the rule instance havocked: list of 2 unbounded symbolic ints / unbounded int / None",
     "stubs": ["ir.tensor and onnx_ir attribute-type inference untraced (Protocol isinstance raises under tracing)"]}
    for i, n in enumerate(TARGETS)
]
