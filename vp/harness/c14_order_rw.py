"""C14 (a), second group: hash-randomisation as a schedule for the REWRITER, the constant folder and the version converter.
`rewriter._rewrite_rule`, `rewriter._matcher`, `rewriter._pattern_ir`, `optimizer._constant_folding` and
`version_converter._version_converter` are re-executed from their current source with the order cut (every iteration over a
set / frozenset with >= 2 elements yields the permutation selected by the next schedule variable).  The serialized result of
rewriting / folding / converting a model must equal the one obtained under the identity schedule."""
from __future__ import annotations

import numpy as np
import onnx
import onnx.helper as oh
import onnx_ir as ir

from vp import loader

SCHEDULE: list = []
LOG: list = []


def _perm(items, c):
    items = sorted(items, key=repr)
    out, pool = [], list(items)
    while pool:
        k = c % len(pool)
        c //= len(pool)
        out.append(pool.pop(k))
    return out


def vp_iter(x, site=None):
    if isinstance(x, (set, frozenset)) and len(x) > 1:
        c = SCHEDULE.pop(0) if SCHEDULE else 0
        if UNTRACED[0]:
            c = _realize(c)   # the target runs untraced (protobuf / Protocol checks): the schedule value is concretised by a fork
        LOG.append((site, len(x), c))
        return _perm(x, c)
    return x


UNTRACED = [False]
try:
    from crosshair import realize as _realize
    from crosshair.tracers import NoTracing as _NoTracing
except Exception:  # pragma: no cover
    _realize = lambda v: v  # noqa: E731
    import contextlib
    _NoTracing = contextlib.nullcontext

INFO = {}
for _m in ["onnxscript.rewriter._pattern_ir", "onnxscript.rewriter._matcher", "onnxscript.rewriter._rewrite_rule",
           "onnxscript.optimizer._constant_folding", "onnxscript.version_converter._version_converter"]:
    _mod, INFO[_m] = loader.load_cut(_m, fmt=True, order_iter=vp_iter)
from onnxscript.rewriter import _rewrite_rule as RR  # noqa: E402
from onnxscript.optimizer import _constant_folding as CF  # noqa: E402
from onnxscript.version_converter import _version_converter as VC  # noqa: E402

try:
    from crosshair import realize
    from crosshair.tracers import NoTracing
    _orig_tensor = ir.tensor

    def _tensor_nt(*a, **k):
        a = [realize(x) for x in a]
        k = {kk: realize(v) for kk, v in k.items()}
        with NoTracing():
            return _orig_tensor(*a, **k)
    ir.tensor = _tensor_nt
    for _mm in (CF, VC, RR):
        if hasattr(_mm, "ir"):
            _mm.ir.tensor = _tensor_nt
except Exception:  # pragma: no cover
    pass

F = onnx.TensorProto.FLOAT


def _model(nodes, inputs, outputs, inits=(), opset=18, functions=()):
    g = oh.make_graph(nodes, "g", [oh.make_tensor_value_info(n, F, s) for n, s in inputs],
                      [oh.make_tensor_value_info(n, F, s) for n, s in outputs], list(inits))
    return oh.make_model(g, opset_imports=[oh.make_opsetid("", opset)], ir_version=9, functions=list(functions))


def _relu2():
    return _model([oh.make_node("Relu", ["x"], ["a"]), oh.make_node("Relu", ["a"], ["b"]), oh.make_node("Neg", ["b"], ["y"])],
                  [("x", [3])], [("y", [3])])


def _relu2_in_if():
    then = oh.make_graph([oh.make_node("Relu", ["x"], ["a"]), oh.make_node("Relu", ["a"], ["t"])], "then", [], [oh.make_tensor_value_info("t", F, [3])])
    els = oh.make_graph([oh.make_node("Neg", ["x"], ["e"])], "else", [], [oh.make_tensor_value_info("e", F, [3])])
    g = oh.make_graph([oh.make_node("If", ["c"], ["y"], then_branch=then, else_branch=els)], "g",
                      [oh.make_tensor_value_info("x", F, [3]), oh.make_tensor_value_info("c", onnx.TensorProto.BOOL, [])],
                      [oh.make_tensor_value_info("y", F, [3])])
    return oh.make_model(g, opset_imports=[oh.make_opsetid("", 18)], ir_version=9)


def rw_three_domains(model_k: int):
    """Relu(Relu(x)) -> C(B(A(x))) with three domains the model does not import yet"""
    rule = RR.RewriteRule(lambda op, x: op.Relu(op.Relu(x)),
                          lambda op, x: op.C(op.B(op.A(x, _domain="dom.alpha"), _domain="dom.beta"), _domain="dom.gamma"))
    m = ir.serde.deserialize_model([_relu2, _relu2_in_if][model_k]())
    RR.RewriteRuleSet([rule]).apply_to_model(m)
    return ir.serde.serialize_model(m).SerializeToString(deterministic=True)


def rw_as_function(model_k: int):
    """the matched nodes extracted into a function called by a single node of a new domain"""
    rule = RR.RewriteRule(lambda op, x: op.Relu(op.Relu(x)),
                          lambda op, x: op.Fused(x, _domain="dom.alpha"), as_function=True)
    m = ir.serde.deserialize_model([_relu2, _relu2_in_if][model_k]())
    RR.RewriteRuleSet([rule]).apply_to_model(m)
    return ir.serde.serialize_model(m).SerializeToString(deterministic=True)


def _fold_model():
    c = lambda n, v: oh.make_tensor(n, onnx.TensorProto.INT64, [len(v)], v)  # noqa: E731
    nodes = [oh.make_node("Shape", ["x"], ["s"]), oh.make_node("Gather", ["s", "i0"], ["d0"]), oh.make_node("Gather", ["s", "i1"], ["d1"]),
             oh.make_node("Concat", ["d1", "d0"], ["t"], axis=0), oh.make_node("Reshape", ["x", "t"], ["r"]),
             oh.make_node("Add", ["k1", "k2"], ["k"]), oh.make_node("Mul", ["r", "k"], ["y"])]
    inits = [c("i0", [0]), c("i1", [1]), oh.make_tensor("k1", F, [1], [1.5]), oh.make_tensor("k2", F, [1], [2.0])]
    return _model(nodes, [("x", [2, 3])], [("y", [3, 2])], inits)


def fold(model_k: int):
    m = ir.serde.deserialize_model([_fold_model, _relu2_in_if][model_k]())
    CF.fold_constants(m)
    return ir.serde.serialize_model(m).SerializeToString(deterministic=True)


def _gn_model():
    nodes = [oh.make_node("GroupNormalization", ["x", "sc", "b"], ["g"], num_groups=2, epsilon=1e-5), oh.make_node("Relu", ["g"], ["y"])]
    inits = [oh.make_tensor("sc", F, [2], [1.0, 2.0]), oh.make_tensor("b", F, [2], [0.5, -0.5])]
    return _model(nodes, [("x", [1, 4, 2])], [("y", [1, 4, 2])], inits, opset=18)


def convert(model_k: int):
    m = ir.serde.deserialize_model([_gn_model, _relu2_in_if][model_k]())
    VC.convert_version(m, 21)
    return ir.serde.serialize_model(m).SerializeToString(deterministic=True)


TARGETS = [("rw3", rw_three_domains), ("rwfn", rw_as_function), ("fold", fold), ("convert", convert)]
BASE = {}
SITES = {}
for _n, _f in TARGETS:
    for _k in (0, 1):
        SCHEDULE[:] = []
        LOG[:] = []
        BASE[(_n, _k)] = _f(_k)
        SITES[(_n, _k)] = len(LOG)


def order_prop(ti: int, k: int, c0: int, c1: int, c2: int, c3: int) -> bool:
    name, f = TARGETS[ti]
    SCHEDULE[:] = [c0, c1, c2, c3]
    LOG[:] = []
    try:
        if name in ("fold", "convert"):
            UNTRACED[0] = True
            with _NoTracing():
                out = f(k)
        else:
            out = f(k)
    finally:
        UNTRACED[0] = False
        SCHEDULE[:] = []
    return out == BASE[(name, k)]


OBLIGATIONS = [
    {"id": f"c14.order.{n}.m{k}", "sig": "c0: int, c1: int, c2: int, c3: int",
     "pres": ["0 <= c0 < 6", "0 <= c1 < 6", "0 <= c2 < 6", "0 <= c3 < 6"],
     "call": f"H.order_prop({i}, {k}, c0, c1, c2, c3)", "timeout": 240,
     "functions": {"rw3": ["onnxscript.rewriter._rewrite_rule:_update_opset_imports", "onnxscript.rewriter._rewrite_rule:RewriteRuleSet.apply_to_model"],
                   "rwfn": ["onnxscript.rewriter._rewrite_rule:_update_opset_imports", "onnxscript.rewriter._rewrite_rule:RewriteRuleSet.apply_to_model"],
                   "fold": ["onnxscript.optimizer._constant_folding:fold_constants"],
                   "convert": ["onnxscript.version_converter._version_converter:convert_version"]}[n],
     "bounds": f"target {n!r} on model {k}; the first 4 set iterations (each over <= 3 elements: 6 permutations) are solver-chosen; "
               f"set-iteration sites hit under the identity schedule: {SITES[(n, k)]}",
     "stubs": ["order cut: set iteration order chosen by schedule variables", "format cut"]}
    for i, (n, _f) in enumerate(TARGETS) for k in (0, 1)
]
