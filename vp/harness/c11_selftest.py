"""Translator validation for C11: the view model and the NumPy reference vs real NumPy / real eager."""
import itertools
import numpy as np


def materialize(view, x):
    idx = [None] * x.ndim
    order = []
    for a in view.axes:
        src = a[1]
        pos = [a[2] + j * a[3] for j in range(a[4])] if a[0] == "ap" else list(a[2])
        idx[src] = np.array(pos, dtype=np.int64)
        order.append(src)
    for s, k in view.fixed.items():
        idx[s] = np.array([k], dtype=np.int64)
    r = x[np.ix_(*idx)]
    # axes currently in source order; move to view order and drop fixed
    keep = order
    r = np.transpose(r, keep + [s for s in range(x.ndim) if s not in keep])
    return r.reshape([len(idx[s]) for s in keep])


def run(max_cases=4000, seed=0):
    from vp.harness import c11_eager as H
    import onnxscript.tensor as RT
    rng = np.random.default_rng(seed)
    vals = [None, -5, -3, -2, -1, 0, 1, 2, 3, 5]
    steps = [None, 1, 2, 3, -1, -2, -3]
    n = bad = 0
    msgs = []
    for _ in range(max_cases):
        rank = int(rng.integers(1, 4))
        dims = [int(rng.integers(0, 5)) for _ in range(rank)]
        L = int(rng.integers(1, rank + 1))
        comps = []
        for j in range(L):
            k = rng.integers(0, 4)
            if k == 0:
                comps.append(("i", int(rng.integers(-5, 5))))
            elif k == 1:
                comps.append(("s", vals[rng.integers(len(vals))], vals[rng.integers(len(vals))], steps[rng.integers(len(steps))]))
            elif k == 2:
                comps.append(("s", None, None, None))
            else:
                comps.append(("i", int(rng.integers(-2, 3))))
        x = np.arange(int(np.prod(dims)), dtype=np.float32).reshape(dims) + 10
        index = tuple(c[1] if c[0] == "i" else slice(c[1], c[2], c[3]) for c in comps)
        # 1. NumPy reference model vs NumPy
        try:
            want = x[index]
        except IndexError:
            want = None
        try:
            ref = H.numpy_view(dims, comps)
            got = materialize(ref, x)
        except H.Err:
            got = None
        n += 1
        if (want is None) != (got is None) or (want is not None and (want.shape != got.shape or not np.array_equal(want, got))):
            bad += 1
            msgs.append(f"numpy_view mismatch dims={dims} comps={comps}")
        # 2. view-interpreting opset vs the real eager run (onnx reference evaluator underneath)
        try:
            hv = H.run_getitem(dims, comps)
            hres = materialize(hv, x)
        except H.Err:
            hres = None
        except H.Unsupported:
            continue
        try:
            real = RT.Tensor(x)[index if len(index) != 1 else index[0]].value
        except Exception:
            real = None
        if x.size and (hres is None) != (real is None) or (hres is not None and real is not None and (hres.shape != real.shape or not np.array_equal(hres, real))):
            # ORT/reference disagreements on empty inputs are ignored (x.size == 0)
            if x.size:
                bad += 1
                msgs.append(f"eager model mismatch dims={dims} comps={comps} harness={None if hres is None else hres.tolist()} real={None if real is None else real.tolist()}")
    return n, bad, msgs[:10]


if __name__ == "__main__":
    print(run())
