"""C06: the real pattern matcher vs a declarative spec of "is an instance", per structure class.

A structure class fixes a pattern (<= 3 node-patterns) and a host wiring (<= 3 nodes + root); the
LEAVES are symbolic: each host node's op-type and domain (bounded symbolic index into an alphabet that
contains the pattern's names and 'other'), attribute integers (unbounded), constant values (symbolic
via a stub const_value), and the booleans deciding sharing / extra consumers / graph outputs.  The real
Pattern.match (format cut) must succeed iff the spec holds, with the same bindings; with commute=True
the union over the rule's commuted variants is compared with the spec closed under operand swaps.
"""
from __future__ import annotations

import math
from typing import List

import onnx_ir as ir

from vp import loader

for _m in ["onnxscript.rewriter._pattern_ir", "onnxscript.rewriter._basics", "onnxscript.rewriter._matcher", "onnxscript.rewriter._rewrite_rule"]:
    loader.load_cut(_m)
from onnxscript.rewriter import _pattern_ir as PI  # noqa: E402
from onnxscript.rewriter import _rewrite_rule as RR  # noqa: E402

OPS = ["Neg", "Add", "Abs", "Mul", "Relu"]
DOMS = ["", "com.x"]


class FakeTensor:
    """const_value stub: .numpy() returns an object with item()/ndim/shape (no NumPy under tracing)"""

    def __init__(self, v, rank):
        self.v, self.rank = v, rank

    def numpy(self):
        return self

    @property
    def ndim(self):
        return self.rank

    @property
    def shape(self):
        return (1,) * self.rank

    def item(self, *a):
        return self.v


def mk(nodes_spec, inputs, outputs):
    """nodes_spec: list of (domain, op, [value names], [attrs], n_out) -> (model, graph, ir nodes, values by name)"""
    vals = {n: ir.Value(name=n) for n in inputs}
    irn = []
    for k, (dom, op, ins, attrs, n_out) in enumerate(nodes_spec):
        n = ir.Node(dom, op, [vals[i] if i is not None else None for i in ins], attrs, num_outputs=n_out, name=f"n{k}")
        for j, o in enumerate(n.outputs):
            o.name = f"v{k}" if j == 0 else f"v{k}_{j}"
            vals[o.name] = o
        irn.append(n)
    g = ir.Graph([vals[i] for i in inputs], [vals[o] for o in outputs], nodes=irn, opset_imports={"": 18, "com.x": 1})
    return ir.Model(g, ir_version=9), g, irn, vals


# ---------------------------------------------------------------- class 1: chain + attribute constant + removability
P1 = RR.Pattern(lambda op, x, y: op.Add(op.Neg(x, _outputs=["n"]), y, alpha=2))


def c1_chain(i1: int, i2: int, d1: int, d2: int, alpha: int, has_alpha: bool, share_out: bool, extra_use: bool) -> bool:
    """
    vp-pre: 0 <= i1 < 5 and 0 <= i2 < 5 and 0 <= d1 < 2 and 0 <= d2 < 2
    """
    spec = [(DOMS[d1], OPS[i1], ["x"], [], 1),
            (DOMS[d2], OPS[i2], ["v0", "y"], [ir.AttrInt64("alpha", alpha)] if has_alpha else [], 1)]
    outs = ["v1"] + (["v0"] if share_out else [])
    if extra_use:
        spec.append(("", "Abs", ["v0"], [], 1))
        outs.append("v2")
    m, g, n, v = mk(spec, ["x", "y"], outs)
    r = P1.match(m, g, n[1])
    expected = (OPS[i1] == "Neg" and d1 == 0 and OPS[i2] == "Add" and d2 == 0 and has_alpha and alpha == 2
                and not share_out and not extra_use)
    if bool(r) != expected:
        return False
    if r:
        return r.bindings["x"] is v["x"] and r.bindings["y"] is v["y"] and r.bindings["n"] is v["v0"]
    return True


# ---------------------------------------------------------------- class 2: repeated variable
P2 = RR.Pattern(lambda op, x: op.Mul(x, op.Neg(x)))


def c2_repeated(i1: int, i2: int, same: bool, swap: bool) -> bool:
    """
    vp-pre: 0 <= i1 < 5 and 0 <= i2 < 5
    """
    spec = [("", OPS[i1], ["a" if same else "b"], [], 1),
            ("", OPS[i2], ["v0", "a"] if swap else ["a", "v0"], [], 1)]
    m, g, n, v = mk(spec, ["a", "b"], ["v1"])
    r = P2.match(m, g, n[1])
    expected = OPS[i1] == "Neg" and OPS[i2] == "Mul" and same and not swap
    if bool(r) != expected:
        return False
    return (not r) or r.bindings["x"] is v["a"]


# ---------------------------------------------------------------- class 3: numeric constant with tolerance
P3 = RR.Pattern(lambda op, x: op.Mul(x, 2.0))


CVALS = [2.0, 2.00001, 2.00002, 2.00003, 1.99998, 1.99997, 2.1, 0.0, -2.0, 2.000000001, 1e9, 2]


def c3_const(i2: int, ci: int, rank: int, is_const: bool, is_graph_input: bool) -> bool:
    """constant values come from a table of edge values around the documented tolerance (symbolic floats do not finish)
    vp-pre: 0 <= i2 < 5 and 0 <= rank <= 2 and 0 <= ci < 12
    """
    cv = CVALS[ci]
    spec = [("", OPS[i2], ["a", "c"], [], 1)]
    m, g, n, v = mk(spec, ["a", "c"] if is_graph_input else ["a"] if False else ["a", "c"], ["v0"])
    if not is_graph_input:
        # detach c from the graph inputs: an initializer-like free value
        g.inputs.pop()
    if is_const:
        v["c"].const_value = FakeTensor(cv, rank)
    r = P3.match(m, g, n[0])
    close = abs(cv - 2.0) <= max(1e-5 * max(abs(cv), 2.0), 1e-8)
    expected = OPS[i2] == "Mul" and is_const and rank == 0 and close and not is_graph_input
    return bool(r) == expected


# ---------------------------------------------------------------- class 4: attribute variable, other attributes
P4 = RR.Pattern(lambda op, x, axis: op.Relu(x, axis=axis, _allow_other_attributes=False))
P4b = RR.Pattern(lambda op, x, axis: op.Relu(x, axis=axis, _allow_other_attributes=True))
P4c = RR.Pattern(lambda op, x, axis: op.Relu(x, axis=axis))


def c4_attrs(i1: int, axis: int, has_axis: bool, extra: bool, variant: int, is_ref: bool = False) -> bool:
    """is_ref: the node's attribute refers to an attribute parameter of the enclosing function (its value is unknown: no instance)
    vp-pre: 0 <= i1 < 5 and 0 <= variant < 3
    """
    ax = ir.RefAttr("axis", "p_axis", ir.AttributeType.INT) if is_ref else ir.AttrInt64("axis", axis)
    attrs = ([ax] if has_axis else []) + ([ir.AttrInt64("beta", 7)] if extra else [])
    m, g, n, v = mk([("", OPS[i1], ["a"], attrs, 1)], ["a"], ["v0"])
    pat = [P4, P4b, P4c][variant]
    r = pat.match(m, g, n[0])
    allow_extra = variant != 0  # default (None) allows other attributes
    expected = OPS[i1] == "Relu" and has_axis and (allow_extra or not extra) and not is_ref
    if bool(r) != expected:
        return False
    return (not r) or (r.bindings["axis"].as_int() == axis and r.bindings["x"] is v["a"])


# ---------------------------------------------------------------- class 5: other inputs
P5 = RR.Pattern(lambda op, x: op.Add(x, _allow_other_inputs=True))
P5b = RR.Pattern(lambda op, x: op.Add(x, _allow_other_inputs=False))
P5c = RR.Pattern(lambda op, x, y: op.Add(x, y))


def c5_inputs(i1: int, n_in: int, variant: int) -> bool:
    """
    vp-pre: 0 <= i1 < 5 and 1 <= n_in <= 3 and 0 <= variant < 3
    """
    ins = ["a", "b", "c"][:n_in]
    m, g, n, v = mk([("", OPS[i1], ins, [], 1)], ["a", "b", "c"], ["v0"])
    pat = [P5, P5b, P5c][variant]
    r = pat.match(m, g, n[0])
    if variant == 0:
        expected = OPS[i1] == "Add"
    elif variant == 1:
        expected = OPS[i1] == "Add" and n_in == 1
    else:
        expected = OPS[i1] == "Add" and n_in == 2
    return bool(r) == expected


# ---------------------------------------------------------------- class 6: OR alternatives
P6 = RR.Pattern(lambda op, x: op.Neg(PI.OrValue([op.Relu(x), op.Abs(x)], tag_var="which")))


def c6_or(i1: int, i2: int, d1: int) -> bool:
    """
    vp-pre: 0 <= i1 < 5 and 0 <= i2 < 5 and 0 <= d1 < 2
    """
    m, g, n, v = mk([(DOMS[d1], OPS[i1], ["a"], [], 1), ("", OPS[i2], ["v0"], [], 1)], ["a"], ["v1"])
    r = P6.match(m, g, n[1])
    expected = OPS[i2] == "Neg" and d1 == 0 and OPS[i1] in ("Relu", "Abs")
    if bool(r) != expected:
        return False
    return (not r) or (r.bindings["x"] is v["a"] and r.bindings["which"] == (0 if OPS[i1] == "Relu" else 1))


# ---------------------------------------------------------------- class 7: two outputs
def _p7(op, x):
    r = op.Relu(x)
    return r, op.Neg(r)


P7 = RR.Pattern(_p7)


def c7_two_outputs(i1: int, i2: int, inner_is_output: bool) -> bool:
    """
    vp-pre: 0 <= i1 < 5 and 0 <= i2 < 5
    """
    m, g, n, v = mk([("", OPS[i1], ["a"], [], 1), ("", OPS[i2], ["v0"], [], 1)], ["a"], ["v1"] + (["v0"] if inner_is_output else []))
    r = P7.match(m, g, n[0])  # multi-output patterns are anchored at the producer of the first output
    # v0 is an OUTPUT of the pattern, so it may be used elsewhere / be a graph output
    expected = OPS[i1] == "Relu" and OPS[i2] == "Neg"
    if bool(r) != expected:
        return False
    return (not r) or r.bindings["x"] is v["a"]


# ---------------------------------------------------------------- class 8: commutation
_R8 = RR.RewriteRule(lambda op, x, y: op.Add(op.Neg(x), y), lambda op, x, y: op.Sub(y, x))
R8 = _R8.commute()
P8_plain = RR.Pattern(lambda op, x, y: op.Add(op.Neg(x), y))
_R8m = RR.RewriteRule(lambda op, x, y: op.Sub(op.Neg(x), y), lambda op, x, y: op.Neg(op.Add(x, y)))
R8m = _R8m.commute()  # Sub is not commutative


def c8_commute(i1: int, i2: int, swapped: bool, which: int) -> bool:
    """
    vp-pre: 0 <= i1 < 5 and 0 <= which < 3 and 0 <= i2 < 6
    """
    ops2 = OPS + ["Sub"]
    spec = [("", OPS[i1], ["a"], [], 1), ("", ops2[i2], ["b", "v0"] if swapped else ["v0", "b"], [], 1)]
    m, g, n, v = mk(spec, ["a", "b"], ["v1"])
    if which == 0:
        got = any(bool(r.match(m, g, n[1])) for r in R8)
        expected = OPS[i1] == "Neg" and ops2[i2] == "Add"
    elif which == 1:
        got = bool(P8_plain.match(m, g, n[1]))
        expected = OPS[i1] == "Neg" and ops2[i2] == "Add" and not swapped
    else:
        got = any(bool(r.match(m, g, n[1])) for r in R8m)
        expected = OPS[i1] == "Neg" and ops2[i2] == "Sub" and not swapped
    return got == expected


# ---------------------------------------------------------------- class 17: commutation with an optional (may-be-absent) input
_R17 = RR.RewriteRule(lambda op, x, lo, y: op.Add(op.Clip(x, lo, PI.Var("hi", can_match_none=True)), y), lambda op, x, lo, y, hi: op.Identity(x))
R17 = _R17.commute()


def c17_commute_optional(i1: int, i2: int, swapped: bool, has_hi: bool, hi_is_none: bool) -> bool:
    """Add(Clip(x, lo, hi?), y) under commute=True: every commuted variant must keep `hi` optional (an absent or None third input
    of Clip matches), in either operand order of the Add
    vp-pre: 0 <= i1 < 6 and 0 <= i2 < 6
    """
    ops1 = OPS + ["Clip"]
    ops2 = OPS + ["Sub"]
    clip_ins = ["a", "lo"] + ([None if hi_is_none else "hi"] if has_hi else [])
    spec = [("", ops1[i1], clip_ins, [], 1), ("", ops2[i2], ["b", "v0"] if swapped else ["v0", "b"], [], 1)]
    m, g, n, v = mk(spec, ["a", "b", "lo", "hi"], ["v1"])
    got = [r.match(m, g, n[1]) for r in R17]
    matched = [r for r in got if r]
    expected = ops1[i1] == "Clip" and ops2[i2] == "Add"
    if bool(matched) != expected:
        return False
    if not matched:
        return True
    b = matched[0].bindings
    want_hi = v["hi"] if (has_hi and not hi_is_none) else None
    return b["x"] is v["a"] and b["lo"] is v["lo"] and b["y"] is v["b"] and b.get("hi") is want_hi


# ---------------------------------------------------------------- class 18: commutation of a pattern with a VARIADIC commutative op
def c18_commute_variadic(i1: int, i2: int, n_in: int, swapped: bool) -> bool:
    """Add(Max(x, y, z), w) under commute=True: Max is in the commutative list but has three operands here; generating the variants
    must not fail, and the variants must match the host in either operand order of the (binary) Add
    vp-pre: 0 <= i1 < 6 and 0 <= i2 < 5 and 1 <= n_in <= 3
    """
    ops1 = OPS + ["Max"]
    try:
        rules = RR.RewriteRule(lambda op, x, y, z, w: op.Add(op.Max(x, y, z), w), lambda op, x, y, z, w: op.Identity(x)).commute()
    except AssertionError:
        return False
    spec = [("", ops1[i1], ["a", "b", "c"][:n_in], [], 1), ("", OPS[i2], ["d", "v0"] if swapped else ["v0", "d"], [], 1)]
    m, g, n, v = mk(spec, ["a", "b", "c", "d"], ["v1"])
    matched = [r for r in (rule.match(m, g, n[1]) for rule in rules) if r]
    expected = ops1[i1] == "Max" and n_in == 3 and OPS[i2] == "Add"
    if bool(matched) != expected:
        return False
    if not matched:
        return True
    b = matched[0].bindings
    return b["w"] is v["d"] and {id(b["x"]), id(b["y"]), id(b["z"])} == {id(v["a"]), id(v["b"]), id(v["c"])}


# ---------------------------------------------------------------- class 9: three-node pattern, inner sharing
P9 = RR.Pattern(lambda op, x, y: op.Mul(op.Add(x, y), op.Neg(y)))


def c9_three(i0: int, i1: int, i2: int, same_y: bool, neg_first: bool) -> bool:
    """
    vp-pre: 0 <= i0 < 5 and 0 <= i1 < 5 and 0 <= i2 < 5
    """
    spec = [("", OPS[i0], ["a", "b"], [], 1), ("", OPS[i1], ["b" if same_y else "c"], [], 1),
            ("", OPS[i2], ["v1", "v0"] if neg_first else ["v0", "v1"], [], 1)]
    m, g, n, v = mk(spec, ["a", "b", "c"], ["v2"])
    r = P9.match(m, g, n[2])
    expected = OPS[i0] == "Add" and OPS[i1] == "Neg" and OPS[i2] == "Mul" and same_y and not neg_first
    if bool(r) != expected:
        return False
    return (not r) or (r.bindings["x"] is v["a"] and r.bindings["y"] is v["b"])


# ---------------------------------------------------------------- class 10: backtracking OR sharing a variable with its context
P10 = RR.Pattern(lambda op, x: op.Add(x, PI.OrValue([op.Mul(x, 2.0), op.Mul(2.0, x)])))
P10b = RR.Pattern(lambda op, x, y: op.Add(x, PI.OrValue([op.Neg(y), y])))


def c10_or_shared_var(i1: int, i2: int, same: bool, const_first: bool, is_two: bool) -> bool:
    """x + (x*2 | 2*x): alternatives have the same op (no dispatch by operator: backtracking); the variable x is bound
    outside the OR and reused inside it
    vp-pre: 0 <= i1 < 5 and 0 <= i2 < 5
    """
    spec = [("", OPS[i1], ["c", "a" if same else "b"] if const_first else ["a" if same else "b", "c"], [], 1),
            ("", OPS[i2], ["a", "v0"], [], 1)]
    m, g, n, v = mk(spec, ["a", "b", "c"], ["v1"])
    g.inputs.pop()  # c is a free constant value, not a graph input
    v["c"].const_value = FakeTensor(2.0 if is_two else 3.0, 0)
    r = P10.match(m, g, n[1])
    expected = OPS[i1] == "Mul" and OPS[i2] == "Add" and same and is_two
    if bool(r) != expected:
        return False
    return (not r) or r.bindings["x"] is v["a"]


def c10b_or_plain_alt(i1: int, i2: int, use_neg: bool) -> bool:
    """x + (Neg(y) | y): the second alternative is a plain variable
    vp-pre: 0 <= i1 < 5 and 0 <= i2 < 5
    """
    spec = [("", OPS[i1], ["b"], [], 1), ("", OPS[i2], ["a", "v0" if use_neg else "b"], [], 1)]
    m, g, n, v = mk(spec, ["a", "b"], ["v1", "v0"] if not use_neg else ["v1"])
    r = P10b.match(m, g, n[1])
    if OPS[i2] != "Add":
        return not r
    if not r:
        return False
    if use_neg and OPS[i1] == "Neg":
        return r.bindings["x"] is v["a"] and r.bindings["y"] is v["b"]
    if use_neg:
        return r.bindings["x"] is v["a"] and r.bindings["y"] is v["v0"]
    return r.bindings["x"] is v["a"] and r.bindings["y"] is v["b"]


# ---------------------------------------------------------------- class 15: a NODE pattern shared between an OR alternative and its context
def _p15(op, x, y):
    t = op.Neg(x)
    return op.Add(PI.OrValue([op.Abs(t), op.Abs(op.Relu(y))]), t)


P15 = RR.Pattern(_p15)


def c15_or_shared_node(i0: int, i1: int, i2: int, i3: int, shared: bool, same_in: bool) -> bool:
    """Add((Abs(t) | Abs(Relu(y))), t) with t = Neg(x): both alternatives start with Abs (backtracking OR); the node pattern t
    occurs inside the first alternative and outside the OR, so an instance through the first alternative needs ONE host node for t
    vp-pre: 0 <= i0 < 5 and 0 <= i1 < 5 and 0 <= i2 < 5 and 0 <= i3 < 5
    """
    spec = [("", OPS[i0], ["a"], [], 1), ("", OPS[i1], ["a" if same_in else "b"], [], 1), ("", OPS[i2], ["v0"], [], 1),
            ("", OPS[i3], ["v2", "v0" if shared else "v1"], [], 1)]
    m, g, n, v = mk(spec, ["a", "b"], ["v3"])
    r = P15.match(m, g, n[3])
    alt1 = OPS[i0] == "Neg" and shared
    alt2 = OPS[i0] == "Relu" and (not shared) and OPS[i1] == "Neg"
    expected = OPS[i3] == "Add" and OPS[i2] == "Abs" and (alt1 or alt2)
    if bool(r) != expected:
        return False
    if not r:
        return True
    if alt1:
        return r.bindings["x"] is v["a"]
    return r.bindings["x"] is v["a" if same_in else "b"] and r.bindings["y"] is v["a"]


# ---------------------------------------------------------------- class 16: an OR alternative that succeeds locally but conflicts later
P16 = RR.Pattern(lambda op, x: op.Add(PI.OrValue([op.Neg(x), x]), x))


def c16_or_commit(i0: int, i1: int, sel: int) -> bool:
    """Add((Neg(x) | x), x): on Add(Neg(a), Neg(a)) the first alternative succeeds locally (x = a) and then conflicts with the
    second operand; the subgraph is still an instance through the second alternative (x = the Neg output)
    vp-pre: 0 <= i0 < 5 and 0 <= i1 < 5 and 0 <= sel < 3
    """
    second = ["v0", "a", "b"][sel]
    spec = [("", OPS[i0], ["a"], [], 1), ("", OPS[i1], ["v0", second], [], 1)]
    m, g, n, v = mk(spec, ["a", "b"], ["v1"])
    r = P16.match(m, g, n[1])
    alt1 = OPS[i0] == "Neg" and second == "a"
    alt2 = second == "v0"
    expected = OPS[i1] == "Add" and (alt1 or alt2)
    if bool(r) != expected:
        return False
    if not r:
        return True
    return r.bindings["x"] is (v["a"] if alt1 else v["v0"])


# ---------------------------------------------------------------- class 11: pattern returns ONE output of a two-output node
def _p11(k):
    def pat(op, x):
        c = op.Neg(x)
        a, b = op.Split(c, _outputs=2)
        return a if k == 0 else b
    return pat


P11 = [RR.Pattern(_p11(0)), RR.Pattern(_p11(1))]
OPS11 = OPS + ["Split"]


def c11_one_of_two_outputs(i1: int, i2: int, k: int, other_used: bool, other_is_output: bool, inner_used: bool) -> bool:
    """the node's other output is not a pattern output: the match is removable only if it has no use outside the match and is
    not a graph output (same for the inner value c)
    vp-pre: 0 <= i1 < 5 and 0 <= i2 < 6 and 0 <= k < 2
    """
    spec = [("", OPS[i1], ["a"], [], 1), ("", OPS11[i2], ["v0"], [], 2)]
    mine, other = ("v1", "v1_1") if k == 0 else ("v1_1", "v1")
    outs = [mine]
    if other_used:
        spec.append(("", "Abs", [other], [], 1))
        outs.append("v2")
    if inner_used:
        spec.append(("", "Relu", ["v0"], [], 1))
        outs.append(f"v{len(spec) - 1}")
    if other_is_output:
        outs.append(other)
    m, g, n, v = mk(spec, ["a"], outs)
    r = P11[k].match(m, g, n[1])
    expected = OPS[i1] == "Neg" and OPS11[i2] == "Split" and not other_used and not other_is_output and not inner_used
    if bool(r) != expected:
        return False
    return (not r) or r.bindings["x"] is v["a"]


# ---------------------------------------------------------------- class 12: numeric constant under commutation
_R12 = RR.RewriteRule(lambda op, x: op.Mul(x, 1000.0), lambda op, x: op.Identity(x))
R12 = _R12.commute()
P12_plain = RR.Pattern(lambda op, x: op.Mul(x, 1000.0))
# |c - 1000| vs the documented tolerance max(rel_tol * max(|c|, 1000), abs_tol) = ~0.01 with rel_tol=1e-5, abs_tol=1e-8
CVALS12 = [1000.0, 1000.005, 999.995, 1000.009, 1000.02, 999.98, 1000.00001, 1000.0001, 1001.0, 0.0, -1000.0, 1000]


def c12_commute_const(i2: int, ci: int, swapped: bool, is_const: bool, commuted: bool) -> bool:
    """the swapped variants produced by commute() must compare constants with the same tolerance as the pattern itself
    vp-pre: 0 <= i2 < 5 and 0 <= ci < 12
    """
    cv = CVALS12[ci]
    spec = [("", OPS[i2], ["c", "a"] if swapped else ["a", "c"], [], 1)]
    m, g, n, v = mk(spec, ["a", "c"], ["v0"])
    g.inputs.pop()  # c is a free constant value, not a graph input
    if is_const:
        v["c"].const_value = FakeTensor(cv, 0)
    if commuted:
        got = any(bool(r.match(m, g, n[0])) for r in R12)
    else:
        got = bool(P12_plain.match(m, g, n[0]))
    close = abs(cv - 1000.0) <= max(1e-5 * max(abs(cv), 1000.0), 1e-8)
    expected = OPS[i2] == "Mul" and is_const and close and (commuted or not swapped)
    return got == expected


# ---------------------------------------------------------------- class 13: optional attribute patterns, attribute constants of several types
P13 = RR.Pattern(lambda op, x: op.Relu(x, alpha=PI.AttrVar("alpha", can_match_none=True), _allow_other_attributes=False))
P13b = RR.Pattern(lambda op, x: op.Relu(x, alpha=PI.AttrVar("alpha", can_match_none=True), gamma=PI.AttrVar("gamma", can_match_none=True),
                                        _allow_other_attributes=False))
P13c = RR.Pattern(lambda op, x: op.Relu(x, alpha=PI.AttrVar("alpha", can_match_none=True)))


def c13_optional_attrs(i1: int, has_alpha: bool, has_gamma: bool, has_beta: bool, variant: int) -> bool:
    """an optional attribute pattern may be absent from the node; with _allow_other_attributes=False every attribute of the node
    must be mentioned by the pattern, whatever the attribute counts are
    vp-pre: 0 <= i1 < 5 and 0 <= variant < 3
    """
    attrs = (([ir.AttrFloat32("alpha", 1.5)] if has_alpha else []) + ([ir.AttrFloat32("gamma", 2.0)] if has_gamma else [])
             + ([ir.AttrInt64("beta", 7)] if has_beta else []))
    m, g, n, v = mk([("", OPS[i1], ["a"], attrs, 1)], ["a"], ["v0"])
    pat = [P13, P13b, P13c][variant]
    r = pat.match(m, g, n[0])
    if variant == 0:
        unmentioned = has_gamma or has_beta
    elif variant == 1:
        unmentioned = has_beta
    else:
        unmentioned = False  # default: other attributes are allowed
    expected = OPS[i1] == "Relu" and not unmentioned
    if bool(r) != expected:
        return False
    if r:
        b = r.bindings.get("alpha")
        if has_alpha != (b is not None):
            return False
    return (not r) or r.bindings["x"] is v["a"]


# ---------------------------------------------------------------- class 14: attribute constants of several types
PCONST = [1, 1.0, "ab", [1, 2], [1.0], ["a", "b"], 2, "a"]
P14 = [RR.Pattern((lambda c: (lambda op, x: op.Relu(x, k=c)))(c)) for c in PCONST]
NATTR = [("INT", 1), ("FLOAT", 1.0), ("STRING", "ab"), ("INTS", [1, 2]), ("INTS", [1]), ("FLOATS", [1.0]), ("STRINGS", ["a", "b"]), ("STRING", "a"),
         ("INT", 2), ("FLOAT", 2.5), ("STRINGS", ["ab"])]


def _mk_attr(kind, v):
    return {"INT": ir.AttrInt64, "FLOAT": ir.AttrFloat32, "STRING": ir.AttrString, "INTS": ir.AttrInt64s, "FLOATS": ir.AttrFloat32s,
            "STRINGS": ir.AttrStrings}[kind]("k", v)


def c14_attr_constants(pi: int, ni: int, i1: int) -> bool:
    """documented meaning: standard equality of the values, element-wise and in order for list-valued attributes; a scalar never
    equals a list and a string is not a list of its characters; the matcher must not raise
    vp-pre: 0 <= pi < 8 and 0 <= ni < 11 and 0 <= i1 < 5
    """
    # the three indices are concretised by comparison forks (one path per combination); the matcher then runs on concrete values
    pi_, ni_, i1_ = _pick14(pi, 0, 7), _pick14(ni, 0, 10), _pick14(i1, 0, 4)
    from crosshair.tracers import NoTracing
    with NoTracing():
        return _c14_concrete(pi_, ni_, i1_)


def _pick14(v, lo, hi):
    for c in range(lo, hi + 1):
        if v == c:
            return c
    raise AssertionError("out of range")


def _c14_concrete(pi, ni, i1) -> bool:
    kind, val = NATTR[ni]
    m, g, n, v = mk([("", OPS[i1], ["a"], [_mk_attr(kind, val)], 1)], ["a"], ["v0"])
    try:
        r = P14[pi].match(m, g, n[0])
    except (TypeError, ValueError, AttributeError):
        return False  # the matcher must answer, not raise
    pc = PCONST[pi]
    p_list, n_list = isinstance(pc, list), isinstance(val, list)
    if p_list != n_list:
        same = False
    elif p_list:
        same = len(pc) == len(val) and all((isinstance(a, str) == isinstance(b, str)) and a == b for a, b in zip(pc, val))
    else:
        same = (isinstance(pc, str) == isinstance(val, str)) and pc == val
    return bool(r) == (OPS[i1] == "Relu" and same)


# ---------------------------------------------------------------- class 19: an input the pattern declares ABSENT (explicit None), with and without other inputs allowed
P19 = [RR.Pattern(lambda op, x, hi: op.Clip(x, None, hi)), RR.Pattern(lambda op, x, hi: op.Clip(x, None, hi, _allow_other_inputs=True))]


def c19_none_input(i1: int, n_in: int, lo_none: bool, hi_none: bool, extra_none: bool, allow: bool) -> bool:
    """Clip(x, None, hi [, _allow_other_inputs=True]) against a node with 1..4 inputs whose 2nd / 3rd / 4th input is a value or None:
    the slot declared None must be empty on the node whether or not further inputs are allowed
    vp-pre: 0 <= i1 < 6 and 1 <= n_in <= 4
    vp-pre: not (n_in == 4 and extra_none and not allow)
    """
    ops1 = OPS + ["Clip"]
    ins = ["a", None if lo_none else "lo", None if hi_none else "hi", None if extra_none else "b"][:n_in]
    m, g, n, v = mk([("", ops1[i1], ins, [], 1)], ["a", "b", "lo", "hi"], ["v0"])
    r = P19[1 if allow else 0].match(m, g, n[0])
    expected = ops1[i1] == "Clip" and n_in >= 3 and lo_none and not hi_none and (n_in == 3 or allow)
    if bool(r) != expected:
        return False
    if not r:
        return True
    return r.bindings["x"] is v["a"] and r.bindings["hi"] is v["hi"]


# ---------------------------------------------------------------- class 20: a pattern node with MORE outputs than the host node
P20 = [RR.Pattern(lambda op, x: op.Relu(x, _outputs=2)[0]), RR.Pattern(lambda op, x: op.Neg(op.Relu(x, _outputs=2)[1]))]


def c20_output_count(i1: int, i2: int, n_out: int, variant: int, use_second: bool) -> bool:
    """Relu(x, _outputs=2)[0] as the root, and Neg(Relu(x, _outputs=2)[1]): a host node with fewer outputs than the pattern node
    is not an instance
    vp-pre: 0 <= i1 < 5 and 0 <= i2 < 5 and 1 <= n_out <= 3 and 0 <= variant < 2
    """
    if variant == 0:
        m, g, n, v = mk([("", OPS[i1], ["a"], [], n_out)], ["a"], ["v0"])
        r = P20[0].match(m, g, n[0])
        expected = OPS[i1] == "Relu" and n_out >= 2
    else:
        src = "v0_1" if (use_second and n_out >= 2) else "v0"
        m, g, n, v = mk([("", OPS[i1], ["a"], [], n_out), ("", OPS[i2], [src], [], 1)], ["a"], ["v1"])
        r = P20[1].match(m, g, n[1])
        expected = OPS[i1] == "Relu" and OPS[i2] == "Neg" and n_out >= 2 and src == "v0_1"
    if bool(r) != expected:
        return False
    return (not r) or r.bindings["x"] is v["a"]


# ---------------------------------------------------------------- class 21: a numeric pattern constant against a constant that is not a number
class FakeStrTensor(FakeTensor):
    pass


def c21_const_kinds(i2: int, kind: int, rank: int) -> bool:
    """x * 2.0 against Mul(a, c) where c is a constant holding a number, a byte string, a str or a bool: a non-numeric constant is not
    an instance and must not raise
    vp-pre: 0 <= i2 < 5 and 0 <= kind < 5 and 0 <= rank <= 1
    """
    payload = [2.0, b"ab", "2.0", True, 2][kind]
    m, g, n, v = mk([("", OPS[i2], ["a", "c"], [], 1)], ["a", "c"], ["v0"])
    g.inputs.pop()
    v["c"].const_value = FakeTensor(payload, rank)
    try:
        r = P3.match(m, g, n[0])
    except Exception:  # noqa: BLE001 - the matcher must answer, not raise
        return False
    expected = OPS[i2] == "Mul" and rank == 0 and kind in (0, 4)
    return bool(r) == expected


# ---------------------------------------------------------------- class 22: commute=True over a backtracking OR without a tag variable
def _p22(op, x, y):
    return op.Relu(PI.OrValue([op.Add(x, y), x]))


def c22_commute_or(i0: int, i1: int, swapped: bool) -> bool:
    """Relu(Add(x, y) | x) -- a BACKTRACKING or (the second alternative is a plain variable) without tag variable -- under commute=True:
    constructing the commuted variants must succeed, and together they match exactly the hosts whose root is Relu
    vp-pre: 0 <= i0 < 5 and 0 <= i1 < 5
    """
    rule = RR.RewriteRule(_p22, lambda op, x, y=None: op.Identity(x))
    try:
        variants = rule.commute()
    except Exception:  # noqa: BLE001 - the library refuses its own documented option
        return False
    ins = ["b", "a"] if swapped else ["a", "b"]
    inner_ins = ins if OPS[i1] in ("Add", "Mul") else ["a"]
    m, g, n, v = mk([("", OPS[i1], inner_ins, [], 1), ("", OPS[i0], ["v0"], [], 1)], ["a", "b"], ["v1"])
    got = [r for r in (vr.match(m, g, n[1]) for vr in variants) if r]
    expected = OPS[i0] == "Relu"
    if bool(got) != expected:
        return False
    if not got:
        return True
    if OPS[i1] == "Add":
        return any(r.bindings["x"] is v[ins[0]] and r.bindings.get("y") is v[ins[1]] for r in got)
    return all(r.bindings["x"] is v["v0"] for r in got)


def _ob(name, timeout=200, bounds="", tt=None, slice_=None):
    if slice_ is not None:
        var, n = slice_
        obs = []
        for k in range(n):
            d = _ob(name, timeout, bounds, tt)
            d["id"] = f"c06.{name}.{var}{k}"
            d["extra_pres"] = [f"{var} == {k}"]
            obs.append(d)
        return obs
    d = {"id": f"c06.{name}", "func": name, "timeout": timeout,
         "functions": ["onnxscript.rewriter._matcher:SimplePatternMatcher", "onnxscript.rewriter._rewrite_rule:Pattern.match",
                       "onnxscript.rewriter._pattern_ir:NodePattern"],
         "bounds": bounds or "host leaves symbolic: op-type / domain indices over {Neg, Add, Abs, Mul, Relu} x {'', 'com.x'}, attribute ints unbounded, sharing booleans",
         "stubs": ["format cut on the rewriter modules", "const_value stub returning a symbolic float (class 3)"]}
    if tt:
        d["timeout_thorough"] = tt
    return d


# the three heaviest classes are sliced on one leaf (5 sub-obligations each, together the same region) to use the cores
OBLIGATIONS = [
    *_ob("c1_chain", 300, tt=900, slice_=("i1", 5)), _ob("c2_repeated"),
    *_ob("c3_const", 300, "constant value: bounded symbolic index into 12 edge values around rel_tol 1e-5 / abs_tol 1e-8, rank 0..2, const / graph-input flags", slice_=("i2", 5)),
    _ob("c4_attrs", 300), _ob("c5_inputs"), _ob("c6_or", 300), _ob("c7_two_outputs"), _ob("c8_commute", 400),
    *_ob("c9_three", 300, tt=900, slice_=("i0", 5)), _ob("c10_or_shared_var", 300), _ob("c10b_or_plain_alt", 300),
    _ob("c12_commute_const", 300, "constant value: bounded symbolic index into 12 values around the tolerance of 1000.0; op-type index, operand order, commuted or plain pattern symbolic"),
    _ob("c13_optional_attrs", 300, "host leaves symbolic: op-type index, presence of each of three attributes, pattern variant (strict with one / two optional attribute variables, default)"),
    _ob("c14_attr_constants", 300, "pattern constant index (8 constants: int, float, str, ints, floats, strings) x node attribute index (11 typed attributes) x op-type index, all symbolic"),
    _ob("c18_commute_variadic", 300, "host leaves symbolic: op-type indices, number of operands of the inner node (1..3), operand order of the root"),
    _ob("c17_commute_optional", 300, "host leaves symbolic: op-type indices of the inner and the root node, operand order of the root, presence of the optional third input and whether it is None"),
    _ob("c16_or_commit", 300, "host leaves symbolic: two op-type indices and which value (the inner node's output / its input / another input) is the root's second operand"),
    *_ob("c15_or_shared_node", 300, "host leaves symbolic: four op-type indices, whether the root's second operand is the node under the first alternative or a sibling, and the sibling's input (sliced on the first index)", slice_=("i0", 5)),
    _ob("c20_output_count", 200, "host leaves symbolic: op-type indices, number of outputs of the host node (1..3), which output feeds the consumer"),
    _ob("c21_const_kinds", 200, "host leaves symbolic: op-type index, kind of the constant payload (float / bytes / str / bool / int), rank 0..1"),
    _ob("c22_commute_or", 300, "host leaves symbolic: op-type indices of root and inner node, operand order"),
    _ob("c19_none_input", 200, "host leaves symbolic: op-type index, number of inputs 1..4, which of the 2nd/3rd/4th inputs are None, whether the pattern allows other inputs (explicit trailing None beyond a strict pattern excluded: recorded remark)"),
    _ob("c11_one_of_two_outputs", 300, "host leaves symbolic: op-type indices, which of the two outputs the pattern returns, whether the other output / the inner value is used outside or is a graph output"),
]
