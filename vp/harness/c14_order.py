"""C14 (a): hash-randomisation as a schedule.  converter.py and analysis.py are re-executed from their
current source with the order cut (every iteration over a set/frozenset with >= 2 elements yields the
permutation selected by the next schedule variable); the schedule is a list of symbolic ints; the
serialized FunctionProto must equal the one obtained under the identity schedule."""
from __future__ import annotations

import ast
from typing import List

from vp import loader

SCHEDULE: list = []
LOG: list = []


def _perm(items, c):
    items = sorted(items, key=repr)
    out, pool = [], list(items)
    while pool:
        k = c % len(pool)
        c //= len(pool)
        out.append(pool.pop(k))
    return out


def vp_iter(x, site=None):
    if isinstance(x, (set, frozenset)) and len(x) > 1:
        c = SCHEDULE.pop(0) if SCHEDULE else 0
        LOG.append((site, len(x), c))
        return _perm(x, c)
    return x


_AN, INFO_AN = loader.load_cut("onnxscript._internal.analysis", fmt=True, order_iter=vp_iter)
CV, INFO_CV = loader.load_cut("onnxscript._internal.converter", fmt=True, order_iter=vp_iter)

import onnx_ir  # noqa: E402
import onnxscript  # noqa: E402
from onnxscript import BOOL, FLOAT, INT64  # noqa: E402
from onnxscript import opset18 as op  # noqa: E402

try:
    from crosshair import realize
    from crosshair.tracers import NoTracing
    _orig_tensor = onnx_ir.tensor

    def _tensor_nt(*a, **k):
        a = [realize(x) for x in a]
        k = {kk: realize(v) for kk, v in k.items()}
        with NoTracing():
            return _orig_tensor(*a, **k)
    onnx_ir.tensor = _tensor_nt
    CV.ir.tensor = _tensor_nt
except Exception:  # pragma: no cover
    pass

SCRIPTS = {
    "if3": '''
def f(x: FLOAT[3], c: BOOL) -> FLOAT[3]:
    if c:
        alpha = x + 1.0
        beta = x * 2.0
        gamma = x - 3.0
    else:
        alpha = x
        beta = x + x
        gamma = x * x
    return alpha + beta + gamma
''',
    "loop3": '''
def f(x: FLOAT[3], n: INT64) -> FLOAT[3]:
    a = x
    b = x * 2.0
    c = x - 1.0
    for i in range(n):
        a = a + b
        b = b * c
        c = c - a
    return a + b + c
''',
    "while_if": '''
def f(x: FLOAT[3]) -> FLOAT[3]:
    u = x
    v = x + 1.0
    go = op.ReduceSum(u, keepdims=0) < 5.0
    while go:
        if op.ReduceSum(v, keepdims=0) > 1.0:
            u = u + v
            v = v - 1.0
        else:
            u = u * 2.0
            v = v + u
        go = op.ReduceSum(u, keepdims=0) < 5.0
    return u + v
''',
}


def translate(name: str) -> bytes:
    src = SCRIPTS[name]
    tree = ast.parse(src).body[0]
    c = CV.Converter(opset=onnxscript.values.Opset("this", 1), global_names={"FLOAT": FLOAT, "BOOL": BOOL, "INT64": INT64, "op": op},
                     source=src, default_opset=op)
    fir = c.translate_function_def(tree)
    return fir.to_function_proto().SerializeToString(deterministic=True)


BASE = {}
for _n in SCRIPTS:
    SCHEDULE[:] = []
    LOG[:] = []
    BASE[_n] = translate(_n)
SITES_HIT = {n: None for n in SCRIPTS}


def order_prop(si: int, c0: int, c1: int, c2: int, c3: int) -> bool:
    name = ["if3", "loop3", "while_if"][si]
    SCHEDULE[:] = [c0, c1, c2, c3]
    LOG[:] = []
    try:
        out = translate(name)
    finally:
        SCHEDULE[:] = []
    return out == BASE[name]


OBLIGATIONS = [
    {"id": f"c14.order.converter.{n}", "sig": "c0: int, c1: int, c2: int, c3: int",
     "pres": ["0 <= c0 < 6", "0 <= c1 < 6", "0 <= c2 < 6", "0 <= c3 < 6"],
     "call": f"H.order_prop({i}, c0, c1, c2, c3)", "timeout": 240,
     "functions": ["onnxscript._internal.converter:Converter._translate_if_stmt", "onnxscript._internal.converter:Converter._translate_loop_stmt",
                   "onnxscript._internal.analysis:AstAnalyzer"],
     "bounds": f"script {n!r}; the first 4 set iterations (each over <=3 elements: 6 permutations) are solver-chosen",
     "stubs": ["order cut: set iteration order chosen by schedule variables", "format cut", "ir.tensor untraced"]}
    for i, n in enumerate(SCRIPTS)
]
