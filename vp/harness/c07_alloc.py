"""C07 (X): the overload allocator used when a rule extracts its match into a function (`as_function=True`).
One inductive step from an ARBITRARY state: `model.functions` holds any subset of a 7-key table (overloads "1".."4" of the
requested (domain, name), plus same-named functions of another domain and another name); the returned overload must be free for
that (domain, name) -- otherwise the new function overwrites one that may still be called -- and must not depend on keys of
other (domain, name) pairs.  Covers any history of extractions and clean-ups over those keys (gaps included)."""
from __future__ import annotations

from vp import loader

RR, _I = loader.load_cut("onnxscript.rewriter._rewrite_rule")

KEYS = [("d", "F", "1"), ("d", "F", "2"), ("d", "F", "3"), ("d", "F", "4"), ("e", "F", "1"), ("d", "G", "1"), ("d", "F", "")]


class _Model:
    def __init__(self, functions):
        self.functions = functions


def fresh_overload(m0: bool, m1: bool, m2: bool, m3: bool, m4: bool, m5: bool, m6: bool) -> bool:
    present = {k: object() for k, mk in zip(KEYS, (m0, m1, m2, m3, m4, m5, m6)) if mk}
    before = set(present)
    r = RR._get_new_overload(_Model(present), "d", "F")
    if not isinstance(r, str) or r == "":
        return False
    if ("d", "F", r) in before:
        return False            # would overwrite an existing function
    if set(present) != before:
        return False            # the allocator itself must not change the model
    # independent of functions of other (domain, name) pairs
    only_own = {k: v for k, v in present.items() if k[:2] == ("d", "F")}
    return RR._get_new_overload(_Model(only_own), "d", "F") == r


OBLIGATIONS = [
    {"id": "c07.x.fresh_overload", "func": "fresh_overload", "timeout": 120,
     "functions": ["onnxscript.rewriter._rewrite_rule:_get_new_overload"],
     "bounds": "model.functions = any subset of 7 keys (overloads '1'..'4' and '' of the requested name, one function of another domain, one of another name)",
     "stubs": ["model stub with a plain dict as .functions"]},
]
