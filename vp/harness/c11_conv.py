"""C11 (translated graph): the real converter translates one-line scripts `return x[<form>]`; the
emitted Slice/Squeeze/Gather/Concat/Reshape/Constant/Add subgraph is interpreted under CrossHair on
abstract views with symbolic dims and symbolic scalar-tensor indices, following the ONNX operator
specification, and compared with NumPy's meaning of the same expression.

Forms = syntactic shapes of the index (which components are omitted / literal / scalar tensors);
literal constants come from a table (they are baked into the graph by the real converter at
import time of this module, i.e. from /repo's current source on every run).
"""
from __future__ import annotations

import ast
import itertools
import os

import onnx_ir as ir

from vp import common
from vp.harness.c11_eager import (Err, Unsupported, View, numpy_view, same_view, view_gather,
                                  view_slice, view_squeeze)

KEY_NEGSTEP = "c11-negstep-start-below-minus-dim"


def build(expr: str, rank: int, extra_inputs=()):
    """translate `def f(x, *extra): return <expr>` with the real converter -> plain node tuples"""
    import onnxscript
    from onnxscript import FLOAT, INT64, opset18 as op
    from onnxscript._internal import converter as cv

    params = ", ".join(
        ["x: FLOAT[" + ",".join("'d%d'" % i for i in range(rank)) + "]"] + [f"{n}: INT64" for n in extra_inputs]
    )
    src = f"def f({params}):\n    return {expr}\n"
    tree = ast.parse(src).body[0]
    c = cv.Converter(
        opset=onnxscript.values.Opset("this", 1),
        global_names={"FLOAT": FLOAT, "INT64": INT64, "op": op},
        source=src,
        default_opset=op,
    )
    fir = c.translate_function_def(tree)
    g = fir.graph
    nodes = []
    for n in g:
        attrs = {}
        for k, a in n.attributes.items():
            attrs[k] = a.value.numpy().tolist() if a.type == ir.AttributeType.TENSOR else a.value
        nodes.append((n.op_type, [None if v is None else v.name for v in n.inputs], [o.name for o in n.outputs], attrs))
    return nodes, [v.name for v in g.inputs], [v.name for v in g.outputs]


def interp(nodes, env):
    for op_type, ins, outs, attrs in nodes:
        a = [None if i is None else env[i] for i in ins]
        if op_type == "Constant":
            if "value" in attrs:
                r = attrs["value"]
            elif "value_int" in attrs:
                r = attrs["value_int"]
            elif "value_ints" in attrs:
                r = list(attrs["value_ints"])
            else:
                raise Unsupported("Constant form")
        elif op_type in ("Identity", "CastLike"):
            r = a[0]
        elif op_type == "Cast":
            r = a[0]
        elif op_type in ("Add", "Sub", "Mul"):
            if isinstance(a[0], (list, View)) or isinstance(a[1], (list, View)):
                raise Unsupported("tensor arithmetic")
            r = a[0] + a[1] if op_type == "Add" else (a[0] - a[1] if op_type == "Sub" else a[0] * a[1])
        elif op_type == "Neg":
            r = -a[0]
        elif op_type == "Reshape":
            if a[1] != [1]:
                raise Unsupported("Reshape target")
            if isinstance(a[0], list):
                if len(a[0]) != 1:
                    raise Err("reshape size")
                r = a[0]
            else:
                r = [a[0]]
        elif op_type == "Concat":
            r = []
            for l in a:
                if not isinstance(l, list):
                    raise Err("concat of scalar")
                r = r + l
        elif op_type == "Slice":
            n = len(a[1])
            axes = a[3] if len(a) > 3 and a[3] is not None else list(range(n))
            steps = a[4] if len(a) > 4 and a[4] is not None else [1] * n
            if not (len(a[2]) == n and len(axes) == n and len(steps) == n):
                raise Err("slice arity")
            r = view_slice(a[0], a[1], a[2], axes, steps)
        elif op_type == "Squeeze":
            r = view_squeeze(a[0], a[1])
        elif op_type == "Gather":
            r = view_gather(a[0], a[1], attrs.get("axis", 0))
        else:
            raise Unsupported(op_type)
        env[outs[0]] = r
    return env


# ------------------------------------------------------------------ forms
class Form:
    def __init__(self, expr, rank, extra, comps_src):
        self.expr, self.rank, self.extra, self.comps_src = expr, rank, tuple(extra), comps_src
        self.comps = eval("lambda i, j: " + comps_src)  # noqa: S307 - table written below
        self.built = None
        self.error = None
        try:
            self.built = build(expr, rank, extra)
        except Exception as e:  # noqa: BLE001 - refusal at translation time is allowed by the property
            self.error = f"{type(e).__name__}: {e}"[:200]


def _lit(v):
    return "" if v is None else str(v)


def _slice_txt(a, b, c):
    t = f"{_lit(a)}:{_lit(b)}"
    if c is not None:
        t += f":{c}"
    return t


def literal_forms():
    out = []
    A = [None, -3, -1, 0, 1, 2]
    C = [None, 1, 2, -1, -2]
    for a, b, c in itertools.product(A, A, C):
        out.append((f"x[{_slice_txt(a, b, c)}]", 1, (), f"[('s', {a}, {b}, {c})]"))
    for k in (-2, -1, 0, 1, 3):
        out.append((f"x[{k}]", 1, (), f"[('i', {k})]"))
    # rank 2 / 3 combinations
    S2 = [(None, 2, None), (1, None, None), (1, -1, None), (None, None, -1), (2, 0, -1), (None, 0, -1), (-2, None, -1), (None, None, 2), (-1, None, None)]
    for k in (-1, 0, 1):
        out.append((f"x[:, {k}]", 2, (), f"[('s', None, None, None), ('i', {k})]"))
        out.append((f"x[{k}]", 2, (), f"[('i', {k})]"))
        for l in (-1, 0, 2):
            out.append((f"x[{k}, {l}]", 2, (), f"[('i', {k}), ('i', {l})]"))
        for s in S2:
            out.append((f"x[{_slice_txt(*s)}, {k}]", 2, (), f"[('s', {s[0]}, {s[1]}, {s[2]}), ('i', {k})]"))
            out.append((f"x[{k}, {_slice_txt(*s)}]", 2, (), f"[('i', {k}), ('s', {s[0]}, {s[1]}, {s[2]})]"))
    for s, t in itertools.product(S2[:6], S2[3:]):
        out.append((f"x[{_slice_txt(*s)}, {_slice_txt(*t)}]", 2, (), f"[('s', {s[0]}, {s[1]}, {s[2]}), ('s', {t[0]}, {t[1]}, {t[2]})]"))
    out.append(("x[:, :]", 2, (), "[('s', None, None, None), ('s', None, None, None)]"))
    out.append(("x[:]", 1, (), "[('s', None, None, None)]"))
    for k, l, m in [(0, 1, -1), (-1, 0, 1), (1, 1, 1)]:
        out.append((f"x[{k}, {l}, {m}]", 3, (), f"[('i', {k}), ('i', {l}), ('i', {m})]"))
        out.append((f"x[{k}, :, {m}]", 3, (), f"[('i', {k}), ('s', None, None, None), ('i', {m})]"))
        out.append((f"x[:, {l}, {m}]", 3, (), f"[('s', None, None, None), ('i', {l}), ('i', {m})]"))
        out.append((f"x[{k}, 1:, {m}]", 3, (), f"[('i', {k}), ('s', 1, None, None), ('i', {m})]"))
        out.append((f"x[:, :, {m}]", 3, (), f"[('s', None, None, None), ('s', None, None, None), ('i', {m})]"))
        out.append((f"x[{k}, {l}]", 3, (), f"[('i', {k}), ('i', {l})]"))
        out.append((f"x[::-1, {l}, :2]", 3, (), f"[('s', None, None, -1), ('i', {l}), ('s', None, 2, None)]"))
    return [Form(*f) for f in out]


def tensor_forms():
    """forms whose components are scalar INT64 tensors i, j (symbolic, unbounded)"""
    out = [
        ("x[i]", 1, ("i",), "[('i', i)]"),
        ("x[i]", 2, ("i",), "[('i', i)]"),
        ("x[:, i]", 2, ("i",), "[('s', None, None, None), ('i', i)]"),
        ("x[i:j]", 1, ("i", "j"), "[('s', i, j, None)]"),
        ("x[i:]", 1, ("i",), "[('s', i, None, None)]"),
        ("x[:j]", 1, ("j",), "[('s', None, j, None)]"),
        ("x[i:j:2]", 1, ("i", "j"), "[('s', i, j, 2)]"),
        ("x[i:j:-1]", 1, ("i", "j"), "[('s', i, j, -1)]"),
        ("x[i::-1]", 1, ("i",), "[('s', i, None, -1)]"),
        ("x[:j:-2]", 1, ("j",), "[('s', None, j, -2)]"),
        ("x[i+1:i+2]", 1, ("i",), "[('s', i + 1, i + 2, None)]"),
        ("x[i:i+j, 1]", 2, ("i", "j"), "[('s', i, i + j, None), ('i', 1)]"),
        ("x[i:i+j, j]", 2, ("i", "j"), "[('s', i, i + j, None), ('i', j)]"),
        ("x[1, i]", 2, ("i",), "[('i', 1), ('i', i)]"),
        ("x[i, 1]", 2, ("i",), "[('i', i), ('i', 1)]"),
        ("x[i, j]", 2, ("i", "j"), "[('i', i), ('i', j)]"),
        ("x[i, 1:]", 2, ("i",), "[('i', i), ('s', 1, None, None)]"),
        ("x[1:, i]", 2, ("i",), "[('s', 1, None, None), ('i', i)]"),
        ("x[i, j]", 3, ("i", "j"), "[('i', i), ('i', j)]"),
        ("x[i, 1]", 3, ("i",), "[('i', i), ('i', 1)]"),
        ("x[1, i]", 3, ("i",), "[('i', 1), ('i', i)]"),
        ("x[i, :, j]", 3, ("i", "j"), "[('i', i), ('s', None, None, None), ('i', j)]"),
        ("x[0, 1, i]", 3, ("i",), "[('i', 0), ('i', 1), ('i', i)]"),
        ("x[i, 0, 1]", 3, ("i",), "[('i', i), ('i', 0), ('i', 1)]"),
        ("x[i:j, 0, 1]", 3, ("i", "j"), "[('s', i, j, None), ('i', 0), ('i', 1)]"),
        ("x[i, j, 1]", 3, ("i", "j"), "[('i', i), ('i', j), ('i', 1)]"),
        ("x[0, i, 1]", 3, ("i",), "[('i', 0), ('i', i), ('i', 1)]"),
        ("x[0, i, j]", 3, ("i", "j"), "[('i', 0), ('i', i), ('i', j)]"),
        ("x[i, 1:, j]", 3, ("i", "j"), "[('i', i), ('s', 1, None, None), ('i', j)]"),
        ("x[1:, i, j]", 3, ("i", "j"), "[('s', 1, None, None), ('i', i), ('i', j)]"),
        ("x[i, j, ::-1]", 3, ("i", "j"), "[('i', i), ('i', j), ('s', None, None, -1)]"),
        ("x[0, 1:, i]", 3, ("i",), "[('i', 0), ('s', 1, None, None), ('i', i)]"),
        ("x[i:j, 0]", 3, ("i", "j"), "[('s', i, j, None), ('i', 0)]"),
        ("x[i + j]", 1, ("i", "j"), "[('i', i + j)]"),
        ("x[-i]", 1, ("i",), "[('i', -i)]"),
        ("x[i - 1:]", 2, ("i",), "[('s', i - 1, None, None)]"),
        ("x[i:j:k]", 1, ("i", "j", "k"), None),  # step direction unknown: must be refused or right
    ]
    res = []
    for e, r, ex, cs in out:
        if cs is None:
            continue
        res.append(Form(e, r, ex, cs))
    return res


LIT = literal_forms()
TEN = tensor_forms()
LAST_OBSERVED: dict = {}


def _in_known_region(comps, dims) -> bool:
    if KEY_NEGSTEP not in common.live_known_keys():
        return False
    for c, d in zip(comps, dims):
        if c[0] == "s" and c[3] is not None and c[3] < 0 and c[1] is not None and c[1] < -d:
            return True
    return False


def form_prop(table: str, fi: int, d0: int, d1: int, d2: int, i: int, j: int) -> bool:
    form = (LIT if table == "lit" else TEN)[fi]
    dims = [d0, d1, d2][: form.rank]
    comps = form.comps(i, j)
    if form.built is None:
        return True  # refused at translation time: allowed
    if _in_known_region(comps, dims):
        return True
    if os.environ.get("VP_NOCUT") == "1" and max(dims) <= 64:
        return real_form_prop(form, dims, comps, i, j)
    nodes, gin, gout = form.built
    x = View([("ap", k, 0, 1, d) for k, d in enumerate(dims)], {})
    env = {gin[0]: x}
    for name in form.extra:
        env[name] = {"i": i, "j": j}[name]
    try:
        ref = numpy_view(dims, comps)
    except Err:
        ref = None
    try:
        got = interp(nodes, env)[gout[0]]
    except Err:
        return True  # run-time error is always allowed
    if ref is None:
        return False  # NumPy raises IndexError, the graph returns a tensor
    return same_view(got, ref)


def real_form_prop(form, dims, comps, i, j) -> bool:
    """Replay through the public API: script() the one-liner, run the model on onnxruntime, compare with NumPy."""
    import importlib.util
    import numpy as np
    import onnxruntime as ort

    d = common.WORK / "c11_replay"
    d.mkdir(parents=True, exist_ok=True)
    params = ", ".join(["x: FLOAT[" + ",".join(["None"] * form.rank) + "]"] + [f"{n}: INT64" for n in form.extra])
    src = (
        "from onnxscript import script, FLOAT, INT64, opset18 as op\n"
        f"@script(default_opset=op)\ndef f({params}):\n    return {form.expr}\n"
    )
    p = d / f"f_{abs(hash(src)) % 10**8}.py"
    p.write_text(src)
    spec = importlib.util.spec_from_file_location(p.stem, p)
    mod = importlib.util.module_from_spec(spec)
    import sys
    sys.modules[p.stem] = mod
    spec.loader.exec_module(mod)
    x = (np.arange(int(np.prod(dims)), dtype=np.float32) + 10).reshape(dims)
    feeds = {"x": x}
    for name in form.extra:
        feeds[name] = np.array({"i": i, "j": j}[name], dtype=np.int64)
    index = tuple(c[1] if c[0] == "i" else slice(c[1], c[2], c[3]) for c in comps)
    try:
        want = x[index]
    except IndexError:
        want = None
    so = ort.SessionOptions()
    so.log_severity_level = 4
    so.graph_optimization_level = ort.GraphOptimizationLevel.ORT_DISABLE_ALL
    try:
        sess = ort.InferenceSession(mod.f.to_model_proto().SerializeToString(), so)
        got = sess.run(None, feeds)[0]
    except Exception as e:  # noqa: BLE001 - an error is allowed
        LAST_OBSERVED.update(graph=f"error {type(e).__name__}", numpy=None if want is None else want.tolist())
        return True
    LAST_OBSERVED.update(expr=form.expr, dims=dims, graph_ort=got.tolist(), graph_shape=list(got.shape),
                         numpy=None if want is None else want.tolist(),
                         numpy_shape=None if want is None else list(want.shape))
    if want is None:
        return False
    return got.shape == want.shape and np.array_equal(got, want)


# ------------------------------------------------------------------ obligations
def _chunks(n, size):
    return [(lo, min(n, lo + size)) for lo in range(0, n, size)]


FUNCS = [
    "onnxscript._internal.converter:Converter._translate_subscript_expr",
    "onnxscript._internal.ast_utils:normalize_subscript_expr",
]
OBLIGATIONS = []
for lo, hi in _chunks(len(LIT), 24):
    OBLIGATIONS.append({
        "id": f"c11.conv.lit.{lo}-{hi}",
        "sig": "fi: int, d0: int, d1: int, d2: int",
        "pres": [f"{lo} <= fi < {hi}", "0 <= d0 <= 2**40", "0 <= d1 <= 2**40", "0 <= d2 <= 2**40"],
        "call": "H.form_prop('lit', fi, d0, d1, d2, 0, 0)",
        "timeout": 150, "timeout_thorough": 600, "tiers": ("quick", "thorough"),
        "functions": FUNCS,
        "bounds": f"literal forms {lo}..{hi-1} of {len(LIT)} (e.g. {LIT[lo].expr!r}); dims symbolic in [0, 2^40]",
        "stubs": ["emitted graph interpreted by the ONNX-spec view interpreter"],
    })
for k, f in enumerate(TEN):
    OBLIGATIONS.append({
        "id": f"c11.conv.ten.{k}.r{f.rank}." + f.expr.replace(" ", ""),
        "sig": "d0: int, d1: int, d2: int, i: int, j: int",
        "pres": ["0 <= d0 <= 2**40", "0 <= d1 <= 2**40", "0 <= d2 <= 2**40"]
        + (["j == 0"] if "j" not in f.extra else []) + (["i == 0"] if "i" not in f.extra else []) + (["d2 == 1"] if f.rank < 3 else []) + (["d1 == 1"] if f.rank < 2 else []),
        "call": f"H.form_prop('ten', {k}, d0, d1, d2, i, j)",
        "timeout": 240, "timeout_thorough": 900, "tiers": ("quick", "thorough"),
        "functions": FUNCS,
        "bounds": f"form {f.expr!r} rank {f.rank}; i, j unbounded symbolic scalar INT64 tensors; dims in [0, 2^40]",
        "stubs": ["emitted graph interpreted by the ONNX-spec view interpreter"],
    })
