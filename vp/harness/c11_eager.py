"""C11 (eager): the real `Tensor.__getitem__` under CrossHair.

The function under test is executed unchanged.  NumPy is replaced by a list-backed shim (NumPy
realises symbolic ints at the C boundary), the opset by a recording/interpreting opset whose
Slice/Gather/Squeeze follow the ONNX specification on an abstract *view* of the indexed tensor
(per remaining axis: which source axis, first index, stride, count).  The result view is compared
with CPython/NumPy's meaning of the same index expression (PySlice_AdjustIndices; NumPy basic
indexing), for all dims >= 0 and all start/stop in Z u {None}.
"""
from __future__ import annotations

import itertools
import types
from typing import List, Optional

from vp import loader
from vp.xhsym import ite, sand, smax, smin, snot, sor

T, _INFO_T = loader.load_cut("onnxscript.tensor")
from onnxscript._internal import autocast as AC  # noqa: E402


class Err(Exception):
    """the operation is an error at run time (allowed by the property)"""


class Unsupported(Exception):
    """harness cannot interpret (counts as harness error, never as a verdict)"""


# ------------------------------------------------------------------ abstract views
class View:
    # axes: list of ("ap", src, first, step, count) | ("ls", src, [positions])
    def __init__(self, axes, fixed):
        self.axes = list(axes)
        self.fixed = dict(fixed)

    @property
    def shape(self):
        return tuple(a[4] if a[0] == "ap" else len(a[2]) for a in self.axes)


def onnx_slice(count, start, end, step):
    """ONNX Slice (opset 13) along one axis of extent `count` -> (first, n).  Branch-free in start/end."""
    d = count
    if step == 0:
        raise Err("step 0")
    start = ite(start < 0, start + d, start)
    end = ite(end < 0, end + d, end)
    if step > 0:
        start = smin(smax(start, 0), d)
        end = smin(smax(end, 0), d)
        n = (end - start + step - 1) // step
    else:
        start = smin(smax(start, 0), d - 1)
        end = smin(smax(end, -1), d - 1)
        n = (start - end + (-step) - 1) // (-step)
    return start, smax(n, 0)


def view_slice(v: View, starts, ends, axes, steps) -> View:
    new = list(v.axes)
    seen = []
    for st, en, ax, sp in zip(starts, ends, axes, steps):
        r = len(new)
        if not (-r <= ax < r):
            raise Err("axis out of range")
        if ax < 0:
            ax += r
        if ax in seen:
            raise Err("duplicate axis")
        seen.append(ax)
        a = new[ax]
        if a[0] != "ap":
            raise Unsupported("Slice over gathered axis")
        _, src, first, step, count = a
        s0, n = onnx_slice(count, st, en, sp)
        new[ax] = ("ap", src, first + s0 * step, step * sp, n)
    return View(new, v.fixed)


def view_squeeze(v: View, axes) -> View:
    new, fixed = [], dict(v.fixed)
    r = len(v.axes)
    axes = [a + r if a < 0 else a for a in axes]
    for a in axes:
        if not (0 <= a < r):
            raise Err("squeeze axis out of range")
    for i, a in enumerate(v.axes):
        if i in axes:
            if a[0] == "ap":
                if a[4] != 1:
                    raise Err("squeeze of non-1 dim")
                fixed[a[1]] = a[2]
            else:
                if len(a[2]) != 1:
                    raise Err("squeeze of non-1 dim")
                fixed[a[1]] = a[2][0]
        else:
            new.append(a)
    return View(new, fixed)


def view_gather(v: View, idx, axis: int) -> View:
    r = len(v.axes)
    if not (-r <= axis < r):
        raise Err("gather axis out of range")
    if axis < 0:
        axis += r
    a = v.axes[axis]

    def pos(i):
        if a[0] == "ap":
            cnt = a[4]
            if not (-cnt <= i < cnt):
                raise Err("gather index out of range")
            if i < 0:
                i += cnt
            return a[2] + i * a[3]
        cnt = len(a[2])
        if not (-cnt <= i < cnt):
            raise Err("gather index out of range")
        return a[2][i]

    if isinstance(idx, list):
        new = list(v.axes)
        new[axis] = ("ls", a[1], [pos(i) for i in idx])
        return View(new, v.fixed)
    fixed = dict(v.fixed)
    fixed[a[1]] = pos(idx)
    return View(v.axes[:axis] + v.axes[axis + 1:], fixed)


def _cnt(a):
    return a[4] if a[0] == "ap" else len(a[2])


def same_view(v1: View, v2: View):
    """equal result tensors (shape and element positions); builds one formula, no forks"""
    if len(v1.axes) != len(v2.axes):
        return False
    shape_eq = True
    empty = False
    for a, b in zip(v1.axes, v2.axes):
        shape_eq = sand(shape_eq, _cnt(a) == _cnt(b))
        empty = sor(empty, _cnt(a) == 0)
    pos_eq = True
    for a, b in zip(v1.axes, v2.axes):
        if a[1] != b[1] or a[0] != b[0]:
            pos_eq = False
            break
        if a[0] == "ap":
            pos_eq = sand(pos_eq, a[2] == b[2], sor(a[4] <= 1, a[3] == b[3]))
        else:
            for x, y in zip(a[2], b[2]):
                pos_eq = sand(pos_eq, x == y)
    if pos_eq is not False:
        if sorted(v1.fixed) != sorted(v2.fixed):
            pos_eq = False
        else:
            for k in v1.fixed:
                pos_eq = sand(pos_eq, v1.fixed[k] == v2.fixed[k])
    return sand(shape_eq, sor(empty, pos_eq))


# ------------------------------------------------------------------ NumPy / CPython reference
def py_slice(d, a, b, c):
    """CPython PySlice_AdjustIndices -> (first, step, n).  Branch-free in a/b/d (None-ness aside)."""
    step = 1 if c is None else c
    if step == 0:
        raise Err("slice step cannot be zero")
    if step > 0:
        lo, hi = 0, d
        start = lo if a is None else ite(a < 0, smax(a + d, lo), smin(a, hi))
        stop = hi if b is None else ite(b < 0, smax(b + d, lo), smin(b, hi))
        n = ite(start < stop, (stop - start + step - 1) // step, 0)
    else:
        lo, hi = -1, d - 1
        start = hi if a is None else ite(a < 0, smax(a + d, lo), smin(a, hi))
        stop = lo if b is None else ite(b < 0, smax(b + d, lo), smin(b, hi))
        n = ite(stop < start, (start - stop + (-step) - 1) // (-step), 0)
    return start, step, n


def numpy_view(dims, comps) -> View:
    """NumPy meaning of x[comps] for x of shape dims.  comps: ("i",k) | ("s",a,b,c) | ("l",[k..])."""
    comps = list(comps) + [("s", None, None, None)] * (len(dims) - len(comps))
    adv = [j for j, c in enumerate(comps) if c[0] in ("i", "l")]
    has_list = any(c[0] == "l" for c in comps)
    axes, fixed = [], {}
    list_axis = None
    for src, (d, comp) in enumerate(zip(dims, comps)):
        if comp[0] == "i":
            k = comp[1]
            if not (-d <= k < d):
                raise Err("index out of bounds")
            fixed[src] = k + d if k < 0 else k
        elif comp[0] == "l":
            ps = []
            for k in comp[1]:
                if not (-d <= k < d):
                    raise Err("index out of bounds")
                ps.append(k + d if k < 0 else k)
            if list_axis is not None:
                raise Unsupported("two index arrays")
            list_axis = ("ls", src, ps)
            axes.append(list_axis)
        else:
            first, step, n = py_slice(d, comp[1], comp[2], comp[3])
            axes.append(("ap", src, first, step, n))
    if has_list and adv and (adv[-1] - adv[0] + 1 != len(adv)):
        # advanced indices separated by a slice: the broadcast dimension goes first
        axes.remove(list_axis)
        axes.insert(0, list_axis)
    elif has_list:
        # adjacent advanced indices: broadcast dim replaces them in place -> position of the first
        axes.remove(list_axis)
        n_before = sum(1 for j, c in enumerate(comps) if j < adv[0] and c[0] == "s")
        axes.insert(n_before, list_axis)
    return View(axes, fixed)


# ------------------------------------------------------------------ NumPy shim and opset
class ShimData:
    """stands for the indexed tensor's ndarray: only its view matters"""

    def __init__(self, view: View):
        self.view = view

    @property
    def shape(self):
        return self.view.shape


class ShimScalar:
    shape = ()

    def __init__(self, k):
        self.k = k

    def __index__(self):
        return self.k

    def __bool__(self):
        return bool(self.k)

    def __int__(self):
        return int(self.k)


class ShimVec:
    def __init__(self, v):
        self.v = list(v)

    @property
    def shape(self):
        return (len(self.v),)


class ShimMat:
    def __init__(self, rows):
        self.rows = [list(r) for r in rows]

    @property
    def T(self):
        return ShimMat([list(c) for c in zip(*self.rows)])

    def __getitem__(self, i):
        return ShimVec(self.rows[i])


def _unwrap(e):
    if isinstance(e, T.Tensor):
        e = e.value
    if isinstance(e, ShimScalar):
        return e.k
    return e


def _shim_array(obj, dtype=None):
    if isinstance(obj, list) and obj and isinstance(obj[0], list):
        return ShimMat([[_unwrap(e) for e in row] for row in obj])
    if isinstance(obj, list):
        return ShimVec([_unwrap(e) for e in obj])
    if isinstance(obj, bool):
        raise Unsupported("bool index")
    if isinstance(obj, int):
        return ShimScalar(obj)
    raise Unsupported(f"array({type(obj)})")


def _shim_squeeze(arr, axis=None):
    return ShimData(view_squeeze(arr.view, list(axis)))


SHIM = types.SimpleNamespace(
    ndarray=(ShimData, ShimScalar, ShimVec, ShimMat), int64="int64", bool_="bool", float32="float32",
    array=_shim_array, squeeze=_shim_squeeze,
)


class FakeOp:
    """opset whose ops follow the ONNX spec on views"""

    def __init__(self, version=18):
        self.version = version

    def Identity(self, x):
        return T.Tensor(ShimData(x.value.view), self)

    def Add(self, a, b):
        return T.Tensor(ShimScalar(_unwrap(a) + _unwrap(b)), self)

    def Slice(self, x, starts, ends, axes, steps):
        v = view_slice(x.value.view, starts.value.v, ends.value.v, axes.value.v, steps.value.v)
        return T.Tensor(ShimData(v), self)

    def Gather(self, x, idx, axis=0):
        i = idx.value
        if isinstance(i, ShimScalar):
            return T.Tensor(ShimData(view_gather(x.value.view, i.k, axis)), self)
        if isinstance(i, ShimVec):
            return T.Tensor(ShimData(view_gather(x.value.view, list(i.v), axis)), self)
        raise Unsupported("gather index kind")

    # scalar integer / boolean arithmetic an index computation may use (operands: scalar tensors or Python ints)
    def _scalar(self, f, *args):
        vals = [_unwrap(a) for a in args]
        if any(isinstance(v, (ShimData, ShimVec, ShimMat)) for v in vals):
            raise Unsupported("non-scalar operand of a scalar op")
        return T.Tensor(ShimScalar(f(*vals)), self)

    def Sub(self, a, b):
        return self._scalar(lambda x, y: x - y, a, b)

    def Mul(self, a, b):
        return self._scalar(lambda x, y: x * y, a, b)

    def Neg(self, a):
        return self._scalar(lambda x: -x, a)

    def Abs(self, a):
        return self._scalar(lambda x: x if x >= 0 else -x, a)

    def Less(self, a, b):
        return self._scalar(lambda x, y: x < y, a, b)

    def Greater(self, a, b):
        return self._scalar(lambda x, y: x > y, a, b)

    def LessOrEqual(self, a, b):
        return self._scalar(lambda x, y: x <= y, a, b)

    def GreaterOrEqual(self, a, b):
        return self._scalar(lambda x, y: x >= y, a, b)

    def Equal(self, a, b):
        return self._scalar(lambda x, y: x == y, a, b)

    def Not(self, a):
        return self._scalar(lambda x: not x, a)

    def Where(self, c, a, b):
        return self._scalar(lambda k, x, y: x if k else y, c, a, b)

    def __getattr__(self, name):
        # an operator this view model does not interpret: the case is skipped (counted), the check does not crash
        if name.startswith("__"):
            raise AttributeError(name)

        def unsupported(*a, **k):
            raise Unsupported(f"operator {name} is not modelled by the view interpreter")
        return unsupported


def run_getitem(dims, comps):
    """Run the real Tensor.__getitem__; returns a View or raises Err."""
    op = FakeOp()
    old_t, old_a, old_o = T.np, AC.np, T.onnx_opset
    T.np = SHIM
    AC.np = SHIM
    T.onnx_opset = types.SimpleNamespace(opset18=op)  # default opset of promoted int indices
    try:
        index = []
        for c in comps:
            if c[0] == "i":
                index.append(c[1])
            elif c[0] == "s":
                index.append(slice(c[1], c[2], c[3]))
            else:
                index.append(T.Tensor(ShimVec(c[1]), op))
        x = T.Tensor(ShimData(View([("ap", i, 0, 1, d) for i, d in enumerate(dims)], {})), op)
        try:
            r = x[tuple(index) if len(index) != 1 else index[0]]
        except Err:
            raise
        except Unsupported:
            raise
        except (ValueError, TypeError, RuntimeError, IndexError) as e:
            raise Err(f"{type(e).__name__}") from None
        return r.value.view
    finally:
        T.np, AC.np, T.onnx_opset = old_t, old_a, old_o


LAST_OBSERVED: dict = {}


def real_getitem_prop(dims, comps) -> bool:
    """Replay on the real code: onnxscript.tensor.Tensor over a real ndarray vs NumPy."""
    import numpy as np
    import onnxscript.tensor as RT

    x = (np.arange(int(np.prod(dims)), dtype=np.float32) + 10).reshape(dims)
    index = tuple(
        c[1] if c[0] == "i" else (slice(c[1], c[2], c[3]) if c[0] == "s" else np.array(c[1], dtype=np.int64)) for c in comps
    )
    tindex = tuple(RT.Tensor(e) if isinstance(e, np.ndarray) else e for e in index)
    try:
        want = x[index]
    except IndexError:
        want = None
    try:
        got = RT.Tensor(x)[tindex if len(tindex) != 1 else tindex[0]].value
    except Exception as e:  # noqa: BLE001 - an error is allowed by the property
        LAST_OBSERVED.update(eager=f"error {type(e).__name__}")
        return True
    LAST_OBSERVED.update(eager=got.tolist(), eager_shape=list(got.shape), numpy=None if want is None else want.tolist(),
                         numpy_shape=None if want is None else list(want.shape))
    if want is None:
        return False
    return got.shape == want.shape and bool(np.array_equal(got, want))


def getitem_prop(dims, comps) -> bool:
    """eager(x[idx]) is an error, or equals NumPy's x[idx]; if NumPy raises, eager must not return."""
    if loader.nocut() and all(isinstance(d, int) and d <= 64 for d in dims):
        return real_getitem_prop(dims, comps)
    try:
        ref = numpy_view(dims, comps)
    except Err:
        ref = None
    try:
        got = run_getitem(dims, comps)
    except Err:
        return True
    if ref is None:
        return False
    return same_view(got, ref)


# ------------------------------------------------------------------ obligations
STEPS_FULL = "(None, 1, 2, 3, -1, -2, -3)"
STEPS_SMALL = "(None, 2, -1)"


def _mk(kinds: str, rank: int, steps: list[str], timeout: int, tiers, tt=None):
    """kinds: string over i (int), s (slice), f (':'), l (1-D tensor of 2 ints)"""
    sig, pres, dims, comps = [], [], [], []
    si = 0
    for ax in range(rank):
        sig.append(f"d{ax}: int")
        pres.append(f"d{ax} >= 0")
        dims.append(f"d{ax}")
    for j, k in enumerate(kinds):
        if k == "i":
            sig.append(f"k{j}: int")
            comps.append(f"('i', k{j})")
        elif k == "s":
            sig += [f"a{j}: Optional[int]", f"b{j}: Optional[int]", f"c{j}: Optional[int]"]
            pres.append(f"c{j} in {steps[si]}")
            si += 1
            comps.append(f"('s', a{j}, b{j}, c{j})")
        elif k == "f":
            comps.append("('s', None, None, None)")
        elif k == "l":
            sig += [f"p{j}: int", f"q{j}: int"]
            comps.append(f"('l', [p{j}, q{j}])")
    ob = {
        "id": f"c11.eager.r{rank}.{kinds}",
        "sig": ", ".join(sig),
        "pres": pres,
        "call": f"H.getitem_prop([{', '.join(dims)}], [{', '.join(comps)}])",
        "timeout": timeout,
        "tiers": tiers,
        "functions": ["onnxscript.tensor:Tensor.__getitem__", "onnxscript._internal.autocast:cast_pyvalue_to_os_tensor"],
        "bounds": f"rank {rank}; index kinds {kinds!r} (i=int, s=slice, f=':', l=1-D tensor of 2 ints); dims>=0, ints, "
                  f"start/stop unbounded; steps {steps}",
        "stubs": ["numpy -> list-backed shim (array/.T/squeeze)", "opset -> ONNX-spec interpreter on views (Slice/Gather/Add/Identity)"],
    }
    if tt:
        ob["timeout_thorough"] = tt
    return ob


QT, TH = ("quick", "thorough"), ("thorough",)
F = STEPS_FULL
OBLIGATIONS = [
    _mk("s", 1, [F], 120, QT, 600),
    _mk("i", 1, [], 60, QT),
    _mk("f", 1, [], 60, QT),
    _mk("l", 1, [], 60, QT),
    _mk("i", 2, [], 60, QT),
    _mk("s", 2, [F], 120, QT, 600),
    _mk("l", 2, [], 60, QT),
    _mk("ii", 2, [], 90, QT),
    _mk("fi", 2, [], 60, QT),
    _mk("fs", 2, [F], 120, QT, 600),
    _mk("is", 2, [F], 150, QT, 600),
    _mk("si", 2, [F], 150, QT, 600),
    _mk("fl", 2, [], 60, QT),
    _mk("ff", 2, [], 60, QT),
    _mk("ss", 2, [F, STEPS_SMALL], 200, QT, 900),
    _mk("i", 3, [], 60, QT),
    _mk("s", 3, [F], 120, QT, 600),
    _mk("iii", 3, [], 120, QT, 600),
    _mk("ffi", 3, [], 60, QT),
    _mk("fis", 3, [F], 150, QT, 600),
    _mk("ifi", 3, [], 90, QT),
    _mk("sfi", 3, [F], 150, QT, 600),
    _mk("sis", 3, ["(None, -1)", "(None, 2)"], 200, QT, 900),
    _mk("il", 3, [], 60, QT),
    _mk("li", 3, [], 60, QT),
    _mk("ifl", 3, [], 60, QT),
    _mk("iil", 3, [], 60, QT),
    _mk("ili", 3, [], 60, QT),
    _mk("lii", 3, [], 60, QT),
    _mk("sl", 3, [STEPS_SMALL], 90, QT),
    _mk("ls", 3, [STEPS_SMALL], 90, QT),
    _mk("fl", 3, [], 60, QT),
    _mk("ffl", 3, [], 60, QT),
    _mk("ss", 2, [F, F], 1800, TH),
    _mk("sss", 3, [STEPS_SMALL, STEPS_SMALL, STEPS_SMALL], 1800, TH),
    _mk("sis", 3, [F, F], 1200, TH),
    _mk("ssi", 3, [F, F], 1200, TH),
    _mk("iss", 3, [F, F], 1200, TH),
]
for _o in OBLIGATIONS[-5:]:
    _o["id"] += ".deep"
