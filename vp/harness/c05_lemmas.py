"""C05-L2 / C09-X: integer side-condition lemmas on the REAL check / rewrite functions of the shipped rules (CrossHair).

Each function runs the current source of a rule's `check` (and, where the replacement is computed from integers, its
`rewrite`) on stub values whose constant payloads, attributes and static dims are *symbolic integers* (unbounded unless
stated), and compares the verdict with a short reference model of the ONNX shape / index rule written over the same integers:
"the check accepts  =>  the replacement means the same as the pattern, for every value of the integers".
Stubs (part of the claim, listed per obligation): `const_value.numpy()` returns a list-backed object (tolist / size / item /
ndim / flat); `ir.tensor` / `op.X` are recording functions; shapes are real `onnx_ir.Shape` objects built from the symbolic dims.
Dim *kinds* (static int / named symbol N / named symbol M / anonymous) are picked by a bounded symbolic index and every
symbol and anonymous dim has its own unbounded runtime value, so "for every binding" is decided by the solver, not sampled.
"""
from __future__ import annotations

from typing import List, Optional

import onnx_ir as ir

from vp import loader

BR, _ = loader.load_cut("onnxscript.rewriter.rules.common._basic_rules")
CS, _ = loader.load_cut("onnxscript.rewriter.rules.common._collapse_slices")
EX, _ = loader.load_cut("onnxscript.rewriter.rules.common._remove_expand_before_binary_op")
IU, _ = loader.load_cut("onnxscript.rewriter._ir_utils")
MR, _ = loader.load_cut("onnxscript.rewriter.rules.common._materialize_reshape_shape")
PC, _ = loader.load_cut("onnxscript.rewriter.rules.common._fuse_pad_into_conv")
BM, _ = loader.load_cut("onnxscript.rewriter.rules.common._broadcast_to_matmul")


# ----------------------------------------------------------------------------------------------------------- stubs
class FakeNp:
    """list-backed stand-in for the ndarray of an integer constant (1-D unless ndim given)"""

    def __init__(self, l, ndim=1):
        self.l = l
        self.ndim = ndim

    def tolist(self):
        return self.l if self.ndim else self.l[0]

    @property
    def size(self):
        return len(self.l)

    def item(self):
        assert len(self.l) == 1
        return self.l[0]

    @property
    def flat(self):
        return iter(self.l)

    @property
    def shape(self):
        return (len(self.l),) if self.ndim else ()


class FakeConst:
    def __init__(self, l, ndim=1):
        self._np = FakeNp(l, ndim)
        self.shape = (len(l),) if ndim else ()

    def numpy(self):
        return self._np


class FakeValue:
    def __init__(self, name, shape=None, const=None, ndim=1):
        self.name = name
        self.shape = shape
        self.const_value = None if const is None else FakeConst(const, ndim)
        self.type = None

    def producer(self):
        return None

    def is_graph_input(self):
        return False


class FakeAttr:
    def __init__(self, ints, ref=False):
        self._ints = ints
        self._ref = ref
        self.type = ir.AttributeType.INTS

    def is_ref(self):
        return self._ref

    def as_ints(self):
        return self._ints


class RecOp:
    """recording builder: op.X(*inputs, **attrs) -> ('X', inputs, attrs)"""

    def __getattr__(self, name):
        def f(*a, **k):
            return (name, a, k)
        return f


class Ctx:
    def __init__(self, out_shape=None, attrs=None):
        self.output_values = [FakeValue("out", out_shape)]
        self.nodes = [self]
        self.root = self
        self.attributes = self
        self._a = attrs or {}

    def get_int(self, k, d=None):
        return self._a.get(k, d)


def is_perm(p) -> bool:
    n = len(p)
    return all(0 <= v < n for v in p) and all(p[i] != p[j] for i in range(n) for j in range(i + 1, n))


# ------------------------------------------------------------------------------------------ Transpose(Transpose(x))
def _tt(p1, p2) -> bool:
    rule = BR.TransposeTranspose()
    a1, a2 = FakeAttr(p1), FakeAttr(p2)
    if not rule.check(None, FakeValue("x"), a1, a2):
        return True
    r = rule.rewrite(RecOp(), "x", a1, a2)
    n = len(p1)
    # Transpose(Transpose(x, p1), p2): output axis i is axis p1[p2[i]] of x
    want = [p1[p2[i]] for i in range(n)]
    if r[0] == "Identity":
        return want == list(range(n))
    return r[0] == "Transpose" and list(r[2]["perm"]) == want and r[1] == ("x",)


def transpose2(a0: int, a1: int, b0: int, b1: int) -> bool:
    """
    vp-pre: H.is_perm([a0, a1]) and H.is_perm([b0, b1])
    """
    return _tt([a0, a1], [b0, b1])


def transpose3(a0: int, a1: int, a2: int, b0: int, b1: int, b2: int) -> bool:
    """
    vp-pre: H.is_perm([a0, a1, a2]) and H.is_perm([b0, b1, b2])
    """
    return _tt([a0, a1, a2], [b0, b1, b2])


def transpose4(a0: int, a1: int, a2: int, a3: int, b0: int, b1: int, b2: int, b3: int) -> bool:
    """
    vp-pre: H.is_perm([a0, a1, a2, a3]) and H.is_perm([b0, b1, b2, b3])
    """
    return _tt([a0, a1, a2, a3], [b0, b1, b2, b3])


def transpose_identity(a0: int, a1: int, a2: int, n: int) -> bool:
    """TransposeIdentity fires only on the identity permutation (rank n <= 3)
    vp-pre: 1 <= n <= 3
    """
    p = [a0, a1, a2][:n]
    rule = BR.TransposeIdentity()
    ok = bool(rule.check(None, FakeValue("x"), FakeAttr(p)))
    return (not ok) or p == list(range(n))


# --------------------------------------------------------------------------------------- Unsqueeze(Unsqueeze(x))
def _unsq1(lst, a):
    """Unsqueeze with one axis on a list of markers; None = invalid (axis out of range)"""
    n = len(lst) + 1
    if a < 0:
        a += n
    if a < 0 or a >= n:
        return None
    return lst[:a] + [-1] + lst[a:]


def _unsqn(lst, axes):
    n = len(lst) + len(axes)
    ax = [a + n if a < 0 else a for a in axes]
    if any(a < 0 or a >= n for a in ax) or len(set(ax)) != len(ax):
        return None
    it = iter(lst)
    return [-1 if i in ax else next(it) for i in range(n)]


def unsqueeze_unsqueeze(v1: int, v2: int, r: int) -> bool:
    """axes of both Unsqueeze nodes: any integers; rank of x: 0..4
    vp-pre: 0 <= r <= 4
    """
    saved_g, saved_ir = BR.ir_utils, BR.ir
    vals = {"a1": v1, "a2": v2}

    class U:
        @staticmethod
        def get_singleton_value(v, rank=None):
            return vals[v]

    class I:
        DataType = ir.DataType

        @staticmethod
        def tensor(x, dtype=None):
            return list(x)

    BR.ir_utils, BR.ir = U, I
    try:
        rule = BR.UnsqueezeUnsqueeze()
        if not rule.check(None, "x", "a1", "a2"):
            return True
        rep = rule.rewrite(RecOp(), "x", "a1", "a2")
    finally:
        BR.ir_utils, BR.ir = saved_g, saved_ir
    x = list(range(r))
    s1 = _unsq1(x, v1)
    if s1 is None:
        return True   # the original model is invalid
    s2 = _unsq1(s1, v2)
    if s2 is None:
        return True
    assert rep[0] == "Unsqueeze" and rep[1][0] == "x" and rep[1][1][0] == "Constant"
    axes = rep[1][1][2]["value"]
    return _unsqn(x, list(axes)) == s2


# --------------------------------------------------------------------------------------------- redundant Slice
_I64MAX = 9223372036854775807


def _clamp(v, lo, hi):
    return lo if v < lo else (hi if v > hi else v)


def _slice_len_pos(d, start, end):
    """ONNX Slice, step 1 along one axis of size d: (first index, length)"""
    if start < 0:
        start += d
    if end < 0:
        end += d
    start = _clamp(start, 0, d)
    end = _clamp(end, 0, d)
    return start, (end - start if end > start else 0)


def mk_shape(kinds, vals):
    """dims: kind 0 static int vals[i], 1 symbol 'N', 2 symbol 'M', 3 anonymous"""
    out = []
    for k, v in zip(kinds, vals):
        out.append(v if k == 0 else ("N" if k == 1 else ("M" if k == 2 else None)))
    return ir.Shape(out)


def runtime(kinds, vals, n, m, anon):
    """runtime dims under the valuation N=n, M=m, i-th anonymous dim = anon[i]"""
    return [v if k == 0 else (n if k == 1 else (m if k == 2 else a)) for k, v, a in zip(kinds, vals, anon)]


def collapse_slice(k0: int, k1: int, d0: int, d1: int, start: int, end: int, axis: int, step: int, n: int, m: int, u0: int, u1: int, rank: int) -> bool:
    """collapse_slice_rule: check accepts => Slice is the identity under every binding of the symbolic dims
    vp-pre: 1 <= rank <= 2 and 0 <= k0 <= 3 and 0 <= k1 <= 3
    vp-pre: d0 >= 0 and d1 >= 0 and n >= 0 and m >= 0 and u0 >= 0 and u1 >= 0
    vp-pre: -rank <= axis < rank
    vp-pre: d0 < 4611686018427387904 and d1 < 4611686018427387904 and n < 4611686018427387904 and m < 4611686018427387904 and u0 < 4611686018427387904 and u1 < 4611686018427387904
    """
    kinds, vals = [k0, k1][:rank], [d0, d1][:rank]
    data = FakeValue("x", mk_shape(kinds, vals))
    ok = CS._check_if_redundant_slice(None, data, FakeValue("s", const=[start]), FakeValue("e", const=[end]),
                                      FakeValue("a", const=[axis]), FakeValue("p", const=[step]))
    if not ok:
        return True
    rt = runtime(kinds, vals, n, m, [u0, u1])
    d = rt[axis]
    if step != 1:
        return False
    first, length = _slice_len_pos(d, start, end)
    return first == 0 and length == d


# ------------------------------------------------------------------------------------------------- SlicesSplit
def slices_split(k0: int, k1: int, d0: int, d1: int, b0: int, e0: int, b1: int, e1: int, ax0: int, ax1: int, n: int, u0: int, rank: int) -> bool:
    """slice_split_rule: check accepts => (Slice, Slice) == Split(x, num_outputs=2, axis=-1) piecewise, for every last dim
    vp-pre: 1 <= rank <= 2 and 0 <= k0 <= 3 and 0 <= k1 <= 3 and d0 >= 0 and d1 >= 0 and n >= 0 and u0 >= 0
    """
    kinds, vals = [k0, k1][:rank], [d0, d1][:rank]
    x = FakeValue("x", mk_shape(kinds, vals))
    rule = BR.SlicesSplit()
    ok = rule.check(None, x, FakeValue("b0", const=[b0]), FakeValue("e0", const=[e0]), FakeValue("a0", const=[ax0]),
                    FakeValue("b1", const=[b1]), FakeValue("e1", const=[e1]), FakeValue("a1", const=[ax1]))
    if not ok:
        return True
    rep = rule.rewrite(RecOp(), "x", None, None, None, None, None, None)
    if not (rep[0] == "Split" and rep[2].get("num_outputs") == 2 and rep[2].get("axis") == -1):
        return False
    rt = runtime(kinds, vals, n, n, [u0, u0])
    if not (ax0 == ax1 and (ax0 == -1 or ax0 == rank - 1)):
        return False
    d = rt[-1]
    # Split(num_outputs=2) (opset 18+): first chunk ceil(d/2), second the rest
    c0 = (d + 1) // 2
    want = [(0, c0), (c0, d - c0)]
    got = [_slice_len_pos(d, b0, e0), _slice_len_pos(d, b1, e1)]
    # an empty piece has no meaningful first index
    return all(g[1] == w[1] and (g[1] == 0 or g[0] == w[0]) for g, w in zip(got, want))


# ------------------------------------------------------------------------------- Expand before a broadcasting op
def _bdim(a, b):
    if a == 1:
        return b
    if b == 1:
        return a
    return a if a == b else None


def _bshape(a, b):
    r = max(len(a), len(b))
    out = []
    for i in range(r):
        x = a[len(a) - r + i] if len(a) - r + i >= 0 else 1
        y = b[len(b) - r + i] if len(b) - r + i >= 0 else 1
        d = _bdim(x, y)
        if d is None:
            return None
        out.append(d)
    return out


def _expand_rt(x, e):
    """ONNX Expand: bidirectional broadcast of x with the target"""
    return _bshape(x, e)


def _expand_case(strategy, xk, xv, yk, yv, ek, ev, n, m, ux, uy, ue) -> bool:
    """strategy 1: constant target ev; 2: annotation of the Expand output (kinds ek / values ev); 3: annotation of the
    binary op's output (kinds ek / values ev), the runtime target being ANY list `ue`-independent: see callers"""
    x = FakeValue("x", mk_shape(xk, xv))
    y = FakeValue("y", mk_shape(yk, yv))
    s = FakeValue("s")
    saved = EX.get_numpy_value
    EX.get_numpy_value = lambda v: FakeNp(ev) if (v is s and strategy == 1) else None
    try:
        if strategy == 1:
            ok = EX._check_expand_removable(x, s, y)
        elif strategy == 2:
            ok = EX._check_expand_removable(x, s, y, expand_output=FakeValue("eo", mk_shape(ek, ev)))
        else:
            ok = EX._check_expand_removable(x, s, y, expand_output=FakeValue("eo"), binary_op_output=FakeValue("bo", mk_shape(ek, ev)))
    finally:
        EX.get_numpy_value = saved
    if not ok:
        return True
    xr, yr = runtime(xk, xv, n, m, ux), runtime(yk, yv, n, m, uy)
    if strategy == 1:
        ex = _bshape(xr, ev)       # ONNX Expand: bidirectional broadcast with the target
        if ex is None:
            return True            # the original model fails on this binding
    elif strategy == 2:
        ex = runtime(ek, ev, n, m, ue)
        if _bshape(xr, ex) != ex:
            return True            # annotation inconsistent with "Expand output of x" under this binding: outside the contract
    else:
        bo = runtime(ek, ev, n, m, ue)
        return _strategy3(xr, yr, bo)
    o1 = _bshape(ex, yr)
    if o1 is None:
        return True
    return _bshape(xr, yr) == o1


def _strategy3(xr, yr, bo) -> bool:
    # the annotation `bo` is the shape of BinaryOp(Expand(x, e), y) for SOME target e: bo = bshape(bshape(xr, e), yr), which
    # implies that xr and yr are both broadcastable to bo; under that contract removing the Expand must give bo again
    if _bshape(xr, bo) != bo or _bshape(yr, bo) != bo:
        return True
    return _bshape(xr, yr) == bo


def expand_s1(xk0: int, xk1: int, x0: int, x1: int, yk0: int, yk1: int, y0: int, y1: int, e0: int, e1: int, e2: int,
              xr: int, yr: int, er: int, n: int, m: int, ux0: int, ux1: int, uy0: int, uy1: int) -> bool:
    """BinaryOp(Expand(x, const shape), y) -> BinaryOp(x, y): ranks of x, y in 0..2, of the target in 1..3; dims of any kind
    vp-pre: 0 <= xr <= 2 and 0 <= yr <= 2 and 1 <= er <= 3
    vp-pre: 0 <= xk0 <= 3 and 0 <= xk1 <= 3 and 0 <= yk0 <= 3 and 0 <= yk1 <= 3
    vp-pre: x0 >= 0 and x1 >= 0 and y0 >= 0 and y1 >= 0 and e0 >= 0 and e1 >= 0 and e2 >= 0
    vp-pre: n >= 0 and m >= 0 and ux0 >= 0 and ux1 >= 0 and uy0 >= 0 and uy1 >= 0
    """
    return _expand_case(1, [xk0, xk1][:xr], [x0, x1][:xr], [yk0, yk1][:yr], [y0, y1][:yr], None, [e0, e1, e2][:er], n, m,
                        [ux0, ux1], [uy0, uy1], None)


def expand_s23(strategy: int, xk0: int, xk1: int, x0: int, x1: int, yk0: int, yk1: int, y0: int, y1: int, ek0: int, ek1: int, e0: int, e1: int,
               xr: int, yr: int, er: int, n: int, m: int, ux0: int, ux1: int, uy0: int, uy1: int, ue0: int, ue1: int) -> bool:
    """strategies 2 / 3: the rule reads a shape ANNOTATION (of the Expand output / of the binary op's output) with dims of any kind
    vp-pre: 2 <= strategy <= 3 and 0 <= xr <= 2 and 0 <= yr <= 2 and 0 <= er <= 2
    vp-pre: 0 <= xk0 <= 3 and 0 <= xk1 <= 3 and 0 <= yk0 <= 3 and 0 <= yk1 <= 3 and 0 <= ek0 <= 3 and 0 <= ek1 <= 3
    vp-pre: x0 >= 0 and x1 >= 0 and y0 >= 0 and y1 >= 0 and e0 >= 0 and e1 >= 0
    vp-pre: n >= 0 and m >= 0 and ux0 >= 0 and ux1 >= 0 and uy0 >= 0 and uy1 >= 0 and ue0 >= 0 and ue1 >= 0
    """
    return _expand_case(strategy, [xk0, xk1][:xr], [x0, x1][:xr], [yk0, yk1][:yr], [y0, y1][:yr], [ek0, ek1][:er], [e0, e1][:er], n, m,
                        [ux0, ux1], [uy0, uy1], [ue0, ue1])


# ------------------------------------------------------------------------------------- MaterializeReshapeShape
def materialize_reshape(k0: int, k1: int, k2: int, d0: int, d1: int, d2: int, rank: int, u0: int, u1: int, u2: int, n: int, m: int) -> bool:
    """Reshape(data, dynamic shape) with an annotated output -> Reshape(data, constant, allowzero=1): whenever the rule fires, the
    constant target must be a VALID target (allowzero=1 forbids 0 beside -1; a -1 cannot be inferred beside a zero dim) that yields
    the annotated output shape under every binding of its symbolic dim
    vp-pre: 1 <= rank <= 3 and 0 <= k0 <= 3 and 0 <= k1 <= 3 and 0 <= k2 <= 3
    vp-pre: d0 >= 0 and d1 >= 0 and d2 >= 0 and u0 >= 0 and u1 >= 0 and u2 >= 0 and n >= 0 and m >= 0
    """
    kinds, vals = [k0, k1, k2][:rank], [d0, d1, d2][:rank]
    saved_u, saved_ir = MR.ir_utils, MR.ir

    class U:
        @staticmethod
        def get_numpy_value(v):
            return None

    class I:
        DataType = ir.DataType

        @staticmethod
        def tensor(x, dtype=None):
            return list(x)

    MR.ir_utils, MR.ir = U, I
    try:
        rule = MR.MaterializeReshapeShape()
        if not rule.check(Ctx(mk_shape(kinds, vals)), FakeValue("data"), FakeValue("shape")):
            return True
        rep = rule.rewrite(RecOp(), "data", "shape")
    finally:
        MR.ir_utils, MR.ir = saved_u, saved_ir
    assert rep[0] == "Reshape" and rep[1][1][0] == "Constant"
    tgt = list(rep[1][1][2]["value"])
    allowzero = rep[2].get("allowzero", 0)
    out_rt = runtime(kinds, vals, n, m, [u0, u1, u2])
    if len(tgt) != rank:
        return False
    neg = [i for i in range(rank) if tgt[i] == -1]
    if len(neg) > 1 or any(t < -1 for t in tgt):
        return False
    if allowzero != 1:
        return False        # a static 0 would mean "copy from the input"
    if neg and any(t == 0 for t in tgt):
        return False        # invalid under allowzero=1, and the -1 could not be inferred anyway
    # every non-negative entry must be the runtime output dim; the -1 is inferred as total / (product of the others) = that dim
    return all(tgt[i] == out_rt[i] for i in range(rank) if tgt[i] != -1)


# ------------------------------------------------------------------------------------------- Pad into Conv helpers
def fill_pads(rank: int, n: int, a0: int, a1: int, a2: int, p0: int, p1: int, p2: int, q0: int, q1: int, q2: int) -> bool:
    """fill_pads_with_axes(pads, axes, rank) = the explicit [begin..., end...] list of ONNX Pad with an `axes` input: axis a gets
    (begin, end) = (pads[i], pads[i + N]); every other axis (0, 0)
    vp-pre: 1 <= rank <= 3 and 0 <= n <= rank
    vp-pre: 0 <= a0 < rank and 0 <= a1 < rank and 0 <= a2 < rank and a0 != a1 and a0 != a2 and a1 != a2
    """
    axes = [a0, a1, a2][:n]
    pads = [p0, p1, p2][:n] + [q0, q1, q2][:n]
    r = PC.fill_pads_with_axes(pads, axes, rank)
    if len(r) != 2 * rank:
        return False
    for ax in range(rank):
        if ax in axes:
            i = axes.index(ax)
            want = (pads[i], pads[i + n])
        else:
            want = (0, 0)
        if (r[ax], r[ax + rank]) != want:
            return False
    return True


def same_pads(mode: int, x: int, k: int, st: int, d: int) -> bool:
    """NormalizePadFormatConv.compute_pads for auto_pad SAME_UPPER / SAME_LOWER on one spatial axis: with the output annotated
    ceil(x / stride) (ONNX), the explicit pads reproduce that output size and put the odd element at the end (UPPER) / beginning (LOWER)
    vp-pre: 0 <= mode <= 1 and x >= 1 and 1 <= k <= 4 and 1 <= st <= 3 and 1 <= d <= 3
    """
    kk = _pickc(k, 1, 4)
    ss = _pickc(st, 1, 3)
    dd = _pickc(d, 1, 3)
    y = (x + ss - 1) // ss
    attrs = {"auto_pad": "SAME_UPPER" if mode == 0 else "SAME_LOWER", "kernel_shape": [kk], "strides": [ss], "dilations": [dd]}
    r = PC.NormalizePadFormatConv.compute_pads([x], [y], attrs)
    if len(r) != 2:
        return False
    b, e = r[0], r[1]
    span = (kk - 1) * dd + 1
    if b < 0 or e < 0:
        return False
    total = b + e
    if x + total < span:
        return False
    out = (x + total - span) // ss + 1
    if out != y:
        return False
    # ONNX: total = max(0, (y - 1) * stride + span - x); SAME_UPPER puts the extra element at the end
    want_total = (y - 1) * ss + span - x
    if want_total < 0:
        want_total = 0
    if total != want_total:
        return False
    return (b == total // 2) if mode == 0 else (e == total // 2)


def _pickc(v, lo, hi):
    for c in range(lo, hi + 1):
        if v == c:
            return c
    raise AssertionError("out of range")


# ------------------------------------------------------------------------- Reshape / MatMul / Reshape -> MatMul
def _matmul_shape(a, b):
    """NumPy / ONNX MatMul result shape; None = invalid"""
    if len(a) == 0 or len(b) == 0:
        return None
    a1, b1 = len(a) == 1, len(b) == 1
    aa = [1] + a if a1 else a
    bb = b + [1] if b1 else b
    if aa[-1] != bb[-2]:
        return None
    batch = _bshape(aa[:-2], bb[:-2])
    if batch is None:
        return None
    out = batch + [aa[-2], bb[-1]]
    if b1:
        out = out[:-1]
    if a1:
        out = out[:-2] + out[-1:] if not b1 else out[:-1]
    return out


def matmul_reshape(ra: int, rb: int, rc: int, a0: int, a1: int, a2: int, b0: int, b1: int, b2: int, c0: int, c1: int, c2: int, c3: int) -> bool:
    """check_if_not_need_reshape accepts => MatMul(a, b) is valid and has exactly the shape the final Reshape asks for (static dims)
    vp-pre: 1 <= ra <= 3 and 1 <= rb <= 3 and 0 <= rc <= 4
    vp-pre: a0 >= 0 and a1 >= 0 and a2 >= 0 and b0 >= 0 and b1 >= 0 and b2 >= 0
    """
    a, b, c = [a0, a1, a2][:ra], [b0, b1, b2][:rb], [c0, c1, c2, c3][:rc]
    va, vb = FakeValue("a", ir.Shape(a)), FakeValue("b", ir.Shape(b))
    if not BM.check_if_not_need_reshape(None, va, vb, FakeValue("c", const=c)):
        return True
    return _matmul_shape(a, b) == c


OBLIGATIONS = [
    {"id": "c05.lemma.transpose2", "func": "transpose2", "timeout": 60,
     "functions": ["onnxscript.rewriter.rules.common._basic_rules:TransposeTranspose.check", "onnxscript.rewriter.rules.common._basic_rules:TransposeTranspose.rewrite"],
     "bounds": "all pairs of permutations of rank 2 (entries unbounded ints constrained to be permutations)", "stubs": ["FakeAttr", "RecOp"]},
    {"id": "c05.lemma.transpose3", "func": "transpose3", "timeout": 120,
     "functions": ["onnxscript.rewriter.rules.common._basic_rules:TransposeTranspose.rewrite"], "bounds": "rank 3", "stubs": ["FakeAttr", "RecOp"]},
    {"id": "c05.lemma.transpose4", "func": "transpose4", "timeout": 400, "tiers": ("thorough",),
     "functions": ["onnxscript.rewriter.rules.common._basic_rules:TransposeTranspose.rewrite"], "bounds": "rank 4", "stubs": ["FakeAttr", "RecOp"]},
    {"id": "c05.lemma.transpose_identity", "func": "transpose_identity", "timeout": 60,
     "functions": ["onnxscript.rewriter.rules.common._basic_rules:TransposeIdentity.check"], "bounds": "rank 1..3, entries unbounded ints", "stubs": ["FakeAttr"]},
    {"id": "c05.lemma.unsqueeze_unsqueeze", "func": "unsqueeze_unsqueeze", "timeout": 120,
     "functions": ["onnxscript.rewriter.rules.common._basic_rules:UnsqueezeUnsqueeze.check", "onnxscript.rewriter.rules.common._basic_rules:UnsqueezeUnsqueeze.rewrite"],
     "bounds": "axes: all integers; rank of x 0..4", "stubs": ["ir_utils.get_singleton_value -> symbolic int", "ir.tensor -> list", "RecOp"]},
    *[{"id": f"c05.lemma.matmul_reshape.a{x}b{y}c{z}", "func": "matmul_reshape",
       "extra_pres": [f"ra == {x} and rb == {y} and rc == {z}"] + ([] if (x, y) == (1, 1) else ["a0 <= 3 and a1 <= 3 and a2 <= 3 and b0 <= 3 and b1 <= 3 and b2 <= 3"]),
       "timeout": 300, "timeout_thorough": 1500,
       "tiers": ("quick", "thorough") if (x, y) == (1, 1) or (x, y, z) == (2, 2, 2) else ("thorough",),
       "functions": ["onnxscript.rewriter.rules.common._broadcast_to_matmul:check_if_not_need_reshape"],
       "bounds": (f"rank(a)={x}, rank(b)={y}, rank of the final shape {z}; dims of the final shape unbounded integers; dims of a and b " +
                  ("unbounded >= 0" if (x, y) == (1, 1) else "in 0..3 (the rule tests membership in a set of dims, which makes CrossHair enumerate values)") +
                  "; static shapes only: the rule refuses symbolic ones"),
       "stubs": ["FakeValue.const_value list-backed"]} for x in (1, 2, 3) for y in (1, 2, 3) for z in range(0, 5) if z in (max(x, y) - 1, max(x, y), max(x, y) + 1) or (x, y) == (1, 1)],
    {"id": "c05.lemma.fill_pads_with_axes", "func": "fill_pads", "timeout": 200,
     "functions": ["onnxscript.rewriter.rules.common._fuse_pad_into_conv:fill_pads_with_axes"],
     "bounds": "rank 1..3, 0..rank distinct axes, pad amounts unbounded integers", "stubs": []},
    {"id": "c05.lemma.same_pads", "func": "same_pads", "timeout": 200,
     "functions": ["onnxscript.rewriter.rules.common._fuse_pad_into_conv:NormalizePadFormatConv.compute_pads"],
     "bounds": "one spatial axis: input size unbounded >= 1; kernel 1..4, stride 1..3, dilation 1..3 (concretised by forks so that the arithmetic stays linear); both SAME modes",
     "stubs": []},
    {"id": "c05.lemma.materialize_reshape", "func": "materialize_reshape", "timeout": 200,
     "functions": ["onnxscript.rewriter.rules.common._materialize_reshape_shape:MaterializeReshapeShape.check",
                   "onnxscript.rewriter.rules.common._materialize_reshape_shape:MaterializeReshapeShape.rewrite"],
     "bounds": "output annotation of rank 1..3, every dim static (unbounded >= 0) / N / M / anonymous with unbounded runtime values",
     "stubs": ["ir_utils.get_numpy_value -> None (dynamic shape input)", "ir.tensor -> list", "RecOp", "Ctx"]},
    *[{"id": f"c05.lemma.collapse_slice.r{r}", "func": "collapse_slice", "extra_pres": [f"rank == {r}"], "timeout": 200,
       "functions": ["onnxscript.rewriter.rules.common._collapse_slices:_check_if_redundant_slice"],
       "bounds": f"rank {r}; start/end/step: all integers; axis in [-rank, rank); dims static (0 <= d < 2**62) / N / M / anonymous with runtime values in [0, 2**62)",
       "stubs": ["FakeValue.const_value.numpy() list-backed"]} for r in (1, 2)],
    {"id": "c05.lemma.slices_split", "func": "slices_split", "timeout": 200,
     "functions": ["onnxscript.rewriter.rules.common._basic_rules:SlicesSplit.check", "onnxscript.rewriter.rules.common._basic_rules:SlicesSplit.rewrite"],
     "bounds": "rank 1..2; begins/ends/axes: all integers; dims static (unbounded) / symbolic", "stubs": ["FakeValue.const_value.numpy() list-backed", "RecOp"]},
    *[{"id": f"c05.lemma.expand_s1.x{a}y{b}e{c}", "func": "expand_s1", "extra_pres": [f"xr == {a} and yr == {b} and er == {c}"], "timeout": 300, "timeout_thorough": 1500,
       "tiers": ("quick", "thorough") if a + b <= 1 or (a, b) == (1, 1) else ("thorough",),
       "functions": ["onnxscript.rewriter.rules.common._remove_expand_before_binary_op:_check_expand_removable"],
       "bounds": f"rank(x)={a}, rank(y)={b}, rank(target)={c}; static dims unbounded >= 0; symbols N, M and anonymous dims with unbounded runtime values",
       "stubs": ["get_numpy_value -> list-backed constant"]}
      for a in range(3) for b in range(3) for c in range(1, 4)],
    *[{"id": f"c05.lemma.expand_s{st}.x{a}y{b}e{c}", "func": "expand_s23", "extra_pres": [f"strategy == {st} and xr == {a} and yr == {b} and er == {c}"], "timeout": 300, "timeout_thorough": 1500,
       "tiers": ("quick", "thorough") if a + b + c <= 2 or (a, b, c) == (1, 1, 1) else ("thorough",),
       "functions": ["onnxscript.rewriter.rules.common._remove_expand_before_binary_op:_check_expand_removable",
                     "onnxscript.rewriter.rules.common._remove_expand_before_binary_op:_check_dims_sufficient",
                     "onnxscript.rewriter.rules.common._remove_expand_before_binary_op:_compute_broadcast_shape"],
       "bounds": f"rank(x)={a}, rank(y)={b}, rank(annotation)={c}; every dim static / N / M / anonymous, unbounded runtime values; annotation assumed consistent with the run",
       "stubs": ["FakeValue shapes are real onnx_ir.Shape objects"]}
      for st in (2, 3) for a in range(3) for b in range(3) for c in range(3)],
]
