"""C12 (X): differential lemma — autocast.cast_inputs (converter and eager mode share it) and
BuilderBase._cast_inputs decide the same cast target for every literal operand, for abstract
signatures (<=3 formals with type-variable ids or a concrete type, variadic / homogeneous flags) and
argument kinds (tensor with dtype index, literal, None), whenever tensors bound to one type variable
have one dtype (the precondition under which 'first binding wins' and 'last binding wins' coincide).
"""
from __future__ import annotations

import types
from typing import List

from vp import loader

AC, _I1 = loader.load_cut("onnxscript._internal.autocast")
TB, _I2 = loader.load_cut("onnxscript._internal.tape_builder")
import onnx  # noqa: E402

VAR = onnx.defs.OpSchema.FormalParameterOption.Variadic
SINGLE = onnx.defs.OpSchema.FormalParameterOption.Single
TYPES = ["T", "T1", "tensor(int64)"]


class FakeIrValue:
    def __init__(self, dt):
        self.type = types.SimpleNamespace(dtype=dt)
        self.dt = dt


def run_both(tv: List[int], variadic_last: bool, homogeneous: bool, kinds: List[int]):
    """kinds[i]: 0 = literal, 1/2 = tensor of dtype 'A'/'B', 3 = None.  Returns (autocast targets, builder targets)
    per argument: the dtype name a literal is cast to (None = not cast), '-' for non-literals."""
    n = len(tv)
    # ---- autocast signature (ir.schemas-like objects)
    params = []
    for i, t in enumerate(tv):
        params.append(types.SimpleNamespace(
            type_constraint=types.SimpleNamespace(name=TYPES[t]),
            variadic=(variadic_last and i == n - 1), homogeneous=homogeneous))
    sig = types.SimpleNamespace(inputs=params)
    args = []
    for k in kinds:
        if k == 0:
            args.append("LIT")
        elif k == 3:
            args.append(None)
        else:
            args.append(FakeIrValue("A" if k == 1 else "B"))
    a_out = AC.cast_inputs(
        lambda x: x.dt if isinstance(x, FakeIrValue) else None,
        lambda x, ty: ("CAST", ty) if x == "LIT" else x,
        sig, args)
    a_res = [o[1] if isinstance(o, tuple) else "-" for o in a_out]
    # ---- builder schema (onnx.defs-like objects)
    formals = []
    for i, t in enumerate(tv):
        formals.append(types.SimpleNamespace(type_str=TYPES[t], option=(VAR if (variadic_last and i == n - 1) else SINGLE),
                                             is_homogeneous=homogeneous))
    schema = types.SimpleNamespace(inputs=formals)

    class FakeBuilder:
        def _input_to_ir_value(self, value, like_type=None):
            if value == "LIT":
                return ("CAST", like_type.dt if like_type is not None else None)
            return value
    b_args = [a if not isinstance(a, FakeIrValue) else _mk_ir_value(a) for a in args]
    b_out = TB.BuilderBase._cast_inputs(FakeBuilder(), schema, b_args)
    b_res = [o[1] if isinstance(o, tuple) else "-" for o in b_out]
    return a_res, b_res


class _IrValueShim(TB.ir.Value):
    """passes `isinstance(x, ir.Value)` in the builder; carries the abstract dtype"""

    def __init__(self, dt):  # noqa: D107 - no super().__init__: only identity and .dt are used
        self.dt = dt


def _mk_ir_value(a: FakeIrValue):
    v = _IrValueShim.__new__(_IrValueShim)
    v.dt = a.dt
    return v


def consistent(tv, variadic_last, kinds) -> bool:
    """tensors bound to the same type variable have the same dtype"""
    n = len(tv)
    seen = {}
    for i, k in enumerate(kinds):
        f = i if i < n else n - 1
        if i >= n and not variadic_last:
            return True
        if k in (1, 2) and TYPES[tv[f]] in ("T", "T1"):
            if seen.setdefault(TYPES[tv[f]], k) != k:
                return False
    return True


def diff2(t0: int, t1: int, variadic_last: bool, homogeneous: bool, k0: int, k1: int, k2: int) -> bool:
    """
    vp-pre: 0 <= t0 <= 2 and 0 <= t1 <= 2 and 0 <= k0 <= 3 and 0 <= k1 <= 3 and 0 <= k2 <= 3
    """
    tv, kinds = [t0, t1], [k0, k1, k2]
    if not variadic_last:
        kinds = kinds[:2]
    if not consistent(tv, variadic_last, kinds):
        return True
    try:
        a, b = run_both(tv, variadic_last, homogeneous, kinds)
    except ValueError:
        return True
    return a == b


def diff3(t0: int, t1: int, t2: int, k0: int, k1: int, k2: int) -> bool:
    """
    vp-pre: 0 <= t0 <= 2 and 0 <= t1 <= 2 and 0 <= t2 <= 2 and 0 <= k0 <= 3 and 0 <= k1 <= 3 and 0 <= k2 <= 3
    """
    tv, kinds = [t0, t1, t2], [k0, k1, k2]
    if not consistent(tv, False, kinds):
        return True
    a, b = run_both(tv, False, True, kinds)
    return a == b


OBLIGATIONS = [
    {"id": "c12.x.cast_inputs_vs_builder.2formals", "func": "diff2", "timeout": 200,
     "functions": ["onnxscript._internal.autocast:cast_inputs", "onnxscript._internal.tape_builder:BuilderBase._cast_inputs"],
     "bounds": "2 formals (type var T/T1/concrete), variadic+homogeneous flags, <=3 arguments of kind literal/tensor(A)/tensor(B)/None",
     "stubs": ["signature / schema objects replaced by namespaces with the attributes the functions read", "ir.Value shim carrying an abstract dtype"]},
    {"id": "c12.x.cast_inputs_vs_builder.3formals", "func": "diff3", "timeout": 300,
     "functions": ["onnxscript._internal.autocast:cast_inputs", "onnxscript._internal.tape_builder:BuilderBase._cast_inputs"],
     "bounds": "3 formals, 3 arguments, no variadic", "stubs": ["as above"]},
]
