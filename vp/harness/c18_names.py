"""C18 (naming part): construction histories of onnxscript.nn module trees.

A history is a sequence of construction steps chosen by symbolic integers (which container is created, when it is
nested, when it is attached to the -- possibly already named -- root, appends/extends after naming).  The harness
concretises every step opcode by comparison forks (one solver-decided path per history; CrossHair reports the
partition exhaustive), then runs the real nn / GraphBuilder code concretely on that history and checks:
every Parameter appears exactly once as an initializer, named root.name + '.' + its state_dict key, and is the
Parameter object itself; the graph passes onnx.checker; node and value names are unique."""
from __future__ import annotations

from typing import List

import onnx
import onnx_ir as ir

import onnxscript
from onnxscript import nn

DT = ir.DataType
OPS = ["new_list", "new_list2", "new_seq", "nest", "attach", "append_leaf_attached", "append_detached_to_attached",
       "extend_attached", "append_leaf_detached", "slice_attached"]
NOPS = len(OPS)


class Leaf(nn.Module):
    def __init__(self, with_bias=False):
        super().__init__(None)
        self.weight = nn.Parameter([2], name="weight")
        if with_bias:
            self.bias = nn.Parameter([2], name="bias")
        else:
            self.bias = None

    def forward(self, op, x):
        y = op.Mul(x, self.weight)
        if self.bias is not None:
            y = op.Add(y, self.bias)
        return y


class Root(nn.Module):
    in_if = False   # set per history: every child is called inside the then-branch of an If (a subgraph built by a sub-builder)
    cond = None

    def __init__(self, name=None, own=False):
        super().__init__(name)
        # a parameter of the root itself, with the same attribute name as the leaves' (realised before theirs)
        if own:
            self.weight = nn.Parameter([2], name="weight")
        self._own = own

    def forward(self, op, x):
        if self._own:
            x = op.Mul(x, self.weight)
        for cname, child in self.named_children():
            if self.in_if:
                gb = op.builder
                src = x

                def branch(fn, nm):
                    o = ir.Value(name=nm, type=ir.TensorType(DT.FLOAT), shape=ir.Shape([2]))
                    return gb.subgraph(fn, inputs=[], outputs=[o], name=nm)
                def then_fn(op2, child=child, src=src):
                    r_ = run(child, op2, src)
                    return op2.Identity(src) if r_ is src else r_   # a branch cannot return an outer value itself
                x = op.If(self.cond, then_branch=branch(then_fn, f"then_{cname}"),
                          else_branch=branch(lambda op2, src=src: op2.Identity(src), f"else_{cname}"))
            else:
                x = run(child, op, x)
        return x


def run(m, op, x):
    if isinstance(m, nn.Sequential):
        return m(op, x) if len(m) else x
    if isinstance(m, nn.ModuleList):
        for c in m:
            x = run(c, op, x)
        return x
    return m(op, x)


ROOT_MODES = ["named_at_construction", "named_at_the_end", "unnamed"]


def history(steps, named_first, root_own: bool = False, in_if: bool = False):
    """Execute one concrete construction history; returns (ok, detail).  named_first: bool (legacy) or index into ROOT_MODES."""
    mode = ROOT_MODES[(0 if named_first else 1) if isinstance(named_first, bool) else named_first]
    named_first = mode == "named_at_construction"
    prefix = "" if mode == "unnamed" else "model."
    root = Root("model" if named_first else None, root_own)
    root.in_if = bool(in_if)
    detached: list = []
    attached: list = []
    n_attr = 0
    for s in steps:
        o = OPS[s]
        if o == "new_list":
            detached.append(nn.ModuleList())
        elif o == "new_list2":
            detached.append(nn.ModuleList([Leaf(), Leaf(True)]))
        elif o == "new_seq":
            detached.append(nn.Sequential(Leaf()))
        elif o == "nest":
            if len(detached) < 2 or isinstance(detached[-2], Leaf):
                return None, "skip"
            top = detached.pop()
            detached[-1].append(top)
        elif o == "attach":
            if not detached:
                return None, "skip"
            c = detached.pop()
            setattr(root, f"s{n_attr}", c)
            n_attr += 1
            attached.append(c)
        elif o == "append_leaf_attached":
            if not attached:
                return None, "skip"
            attached[-1].append(Leaf())
        elif o == "append_detached_to_attached":
            if not attached or not detached:
                return None, "skip"
            attached[-1].append(detached.pop())
        elif o == "extend_attached":
            if not attached:
                return None, "skip"
            extra = [Leaf(True)] + ([detached.pop()] if detached else [])
            attached[-1].extend(extra)
        elif o == "append_leaf_detached":
            if not detached:
                return None, "skip"
            detached[-1].append(Leaf())
        elif o == "slice_attached":
            # slicing creates a view list over the same modules; it must not disturb their names
            if not attached or not isinstance(attached[-1], nn.ModuleList) or isinstance(attached[-1], nn.Sequential):
                return None, "skip"
            _ = attached[-1][0:1]
    while detached:
        c = detached.pop()
        setattr(root, f"s{n_attr}", c)
        n_attr += 1
    if mode == "named_at_the_end":
        root._set_name("model")  # pylint: disable=protected-access
    g = ir.Graph(name="g", inputs=[], outputs=[], nodes=[], opset_imports={"": 18})
    x = ir.Value(name="x", type=ir.TensorType(DT.FLOAT), shape=ir.Shape([2]))
    g.inputs.append(x)
    if in_if:
        root.cond = ir.Value(name="c", type=ir.TensorType(DT.BOOL), shape=ir.Shape([]))
        g.inputs.append(root.cond)
    gb = onnxscript.GraphBuilder(g)
    try:
        y = root(gb.op, x)
    except NotImplementedError as e:
        if "ModuleList is not callable directly" in str(e):
            return None, "skip (a ModuleList inside a Sequential is documented as not callable)"
        raise
    if y is x:
        return None, "skip (no parameters used)"
    g.outputs.append(y)
    sd = root.state_dict()
    want = sorted(prefix + k for k in sd)
    got = sorted(n for n in g.initializers if not n.startswith("const_"))
    params = list(root.parameters())
    if len(params) != len(sd):
        return False, f"{len(params)} parameters but {len(sd)} state_dict keys {sorted(sd)}"
    if got != want:
        return False, f"initializer names {got} != root.name + state_dict keys {want}"
    by_name = dict(root.named_parameters())
    for k, p in by_name.items():
        v = g.initializers.get(prefix + k)
        if v is not p:
            return False, f"initializer {prefix}{k} is not the Parameter object"
    names = [o.name for nd in ir.traversal.RecursiveGraphIterator(g) for o in nd.outputs] + list(g.initializers) + ["x"]
    if len(set(names)) != len(names):
        return False, "duplicate value names"
    nn_ = [nd.name for nd in ir.traversal.RecursiveGraphIterator(g)]
    if len(set(nn_)) != len(nn_):
        return False, "duplicate node names"
    for v in g.initializers.values():
        if v.const_value is None:
            v.const_value = ir.tensor([1.0, 2.0], dtype=DT.FLOAT, name=v.name)
    y.type = ir.TensorType(DT.FLOAT)
    y.shape = ir.Shape([2])
    proto = ir.to_proto(ir.Model(g, ir_version=9))
    try:
        onnx.checker.check_model(proto, full_check=True)
    except Exception as e:  # noqa: BLE001
        return False, f"checker: {str(e)[:160]}"
    return True, f"{len(want)} parameters"


def _pick(v, lo, hi):
    for c in range(lo, hi + 1):
        if v == c:
            return c
    raise AssertionError("out of the stated range")


def names_prop(steps: List[int], root_mode: int, root_own: bool, in_if: bool) -> bool:
    st = [_pick(s, 0, NOPS - 1) for s in steps]
    rm = _pick(root_mode, 0, len(ROOT_MODES) - 1)
    ro = True if root_own else False
    ii = True if in_if else False
    from crosshair.tracers import NoTracing
    with NoTracing():
        ok, _ = history(st, rm, ro, ii)
    return ok is not False


def explain(steps, root_mode, root_own=False, in_if=False):
    return history(list(steps), root_mode, root_own, in_if)


def _ob(n, fixed=()):
    pres = [f"len(steps) == {n}", f"all(0 <= s < {NOPS} for s in steps)", f"0 <= root_mode < {len(ROOT_MODES)}"] + [f"steps[{i}] == {k}" for i, k in enumerate(fixed)]
    return {
        "id": f"c18.names.n{n}" + "".join(f".{OPS[k]}" for k in fixed),
        "sig": "steps: List[int], root_mode: int, root_own: bool, in_if: bool",
        "pres": pres,
        "call": "H.names_prop(steps, root_mode, root_own, in_if)",
        "timeout": 300, "timeout_thorough": 1200,
        "tiers": ("quick", "thorough") if n <= 4 else ("thorough",),
        "functions": ["onnxscript.nn._module_list:ModuleList._register_child", "onnxscript.nn._module_list:ModuleList._set_name",
                      "onnxscript.nn._sequential:Sequential._register_child", "onnxscript.nn._sequential:Sequential._set_name",
                      "onnxscript.nn._module:Module.__setattr__", "onnxscript.nn._module:Module.__call__",
                      "onnxscript.nn._parameter:Parameter._realize"],
        "bounds": f"construction histories of {n} steps over {NOPS} step kinds {OPS} (symbolic), root named at construction / at the end / not at all "
                  "and owning a parameter called like the leaves' or not, children called directly or inside an If branch built by a sub-builder (symbolic); leaves have 1-2 parameters; histories whose step is not applicable are skipped",
        "stubs": [],
    }


# sliced on the leading steps so that every obligation stays near 1200 histories x 12 root configurations (about 30 histories/s)
OBLIGATIONS = ([_ob(1), _ob(2)] + [_ob(3, (k,)) for k in range(NOPS)] + [_ob(4, (a, b)) for a in range(3) for b in range(NOPS)]
               + [_ob(5, (a, b)) for a in range(3) for b in range(NOPS)])
