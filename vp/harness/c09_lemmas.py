"""C09-X: the predicates and partial evaluators that JUSTIFY shape-based simplifications, for every binding (CrossHair).

Shapes are real `onnx_ir.Shape` objects whose entries are static ints (symbolic integers >= 0), one of the symbols N / M, or an
anonymous dim -- the kind is picked by a bounded symbolic index -- and every symbol and every anonymous dim has its own unbounded
runtime value.  "predicate says equal  =>  equal under every valuation"; "evaluator returns Identity  =>  the operator is the
identity under every valuation"; "merged shape describes the same tensor as both operands whenever they describe one tensor".
The evaluators run on real `ir.Node` / `OptimizerState` objects with a real `TapeBuilder`."""
from __future__ import annotations

import onnx_ir as ir

from vp import loader

CF, _ = loader.load_cut("onnxscript.optimizer._constant_folding")
IU, _ = loader.load_cut("onnxscript.rewriter._ir_utils")
from onnxscript._internal.tape_builder import TapeBuilder  # noqa: E402

SYMS = ["N", "M"]


def mk(kinds, vals):
    dims = []
    for k, v in zip(kinds, vals):
        dims.append(v if k == 0 else (ir.SymbolicDim(SYMS[k - 1]) if k in (1, 2) else ir.SymbolicDim(None)))
    return ir.Shape(dims)


def runtime(kinds, vals, vn, vm, unk):
    return [v if k == 0 else (vn if k == 1 else (vm if k == 2 else u)) for k, v, u in zip(kinds, vals, unk)]


def same_shape_cf(r1: int, r2: int, a0: int, a1: int, a2: int, b0: int, b1: int, b2: int, x0: int, x1: int, x2: int, y0: int, y1: int, y2: int,
                  vn: int, vm: int, u0: int, u1: int, u2: int, w0: int, w1: int, w2: int) -> bool:
    """optimizer._same_shape(s1, s2) => equal runtime shapes under every valuation
    vp-pre: 0 <= r1 <= 3 and 0 <= r2 <= 3
    vp-pre: 0 <= a0 <= 3 and 0 <= a1 <= 3 and 0 <= a2 <= 3 and 0 <= b0 <= 3 and 0 <= b1 <= 3 and 0 <= b2 <= 3
    vp-pre: x0 >= 0 and x1 >= 0 and x2 >= 0 and y0 >= 0 and y1 >= 0 and y2 >= 0
    """
    k1, v1, k2, v2 = [a0, a1, a2][:r1], [x0, x1, x2][:r1], [b0, b1, b2][:r2], [y0, y1, y2][:r2]
    if not CF._same_shape(mk(k1, v1), mk(k2, v2)):
        return True
    return runtime(k1, v1, vn, vm, [u0, u1, u2]) == runtime(k2, v2, vn, vm, [w0, w1, w2])


def same_shape_iu(r1: int, r2: int, a0: int, a1: int, a2: int, b0: int, b1: int, b2: int, x0: int, x1: int, x2: int, y0: int, y1: int, y2: int,
                  vn: int, vm: int, u0: int, u1: int, u2: int, w0: int, w1: int, w2: int) -> bool:
    """rewriter._ir_utils.same_shape(s1, s2) => equal runtime shapes under every valuation
    vp-pre: 0 <= r1 <= 3 and 0 <= r2 <= 3
    vp-pre: 0 <= a0 <= 3 and 0 <= a1 <= 3 and 0 <= a2 <= 3 and 0 <= b0 <= 3 and 0 <= b1 <= 3 and 0 <= b2 <= 3
    vp-pre: x0 >= 0 and x1 >= 0 and x2 >= 0 and y0 >= 0 and y1 >= 0 and y2 >= 0
    """
    k1, v1, k2, v2 = [a0, a1, a2][:r1], [x0, x1, x2][:r1], [b0, b1, b2][:r2], [y0, y1, y2][:r2]
    if not IU.same_shape(mk(k1, v1), mk(k2, v2)):
        return True
    return runtime(k1, v1, vn, vm, [u0, u1, u2]) == runtime(k2, v2, vn, vm, [w0, w1, w2])


def same_dim_iu(a: int, b: int, x: int, y: int, vn: int, vm: int, u: int, w: int) -> bool:
    """_ir_utils.same_dim(d1, d2) => equal runtime values; get_dim agrees with the shape entry for every index
    vp-pre: 0 <= a <= 3 and 0 <= b <= 3 and x >= 0 and y >= 0
    """
    d1, d2 = mk([a], [x])[0], mk([b], [y])[0]
    if not IU.same_dim(d1, d2):
        return True
    return runtime([a], [x], vn, vm, [u]) == runtime([b], [y], vn, vm, [w])


def _eval(opname, k1, v1, k2, v2):
    x = ir.Value(name="x", shape=mk(k1, v1), type=ir.TensorType(ir.DataType.FLOAT))
    sh = ir.Value(name="sh", type=ir.TensorType(ir.DataType.INT64))
    node = ir.Node("", opname, [x, sh], name="e")
    state = CF.OptimizerState()
    state.set_sym_value(sh, mk(k2, v2))
    return getattr(CF, opname.lower())(node, TapeBuilder(), state)


def _is_identity(r) -> bool:
    p = r.producer() if isinstance(r, ir.Value) else None
    return p is not None and p.op_type == "Identity"


def expand_eval(r1: int, r2: int, a0: int, a1: int, b0: int, b1: int, x0: int, x1: int, y0: int, y1: int,
                vn: int, vm: int, u0: int, u1: int, w0: int, w1: int) -> bool:
    """Expand(x, target) with a SYMBOLIC target value: Identity only if the broadcast of x with the target is x for every valuation
    vp-pre: 0 <= r1 <= 2 and 0 <= r2 <= 2 and 0 <= a0 <= 3 and 0 <= a1 <= 3 and 0 <= b0 <= 3 and 0 <= b1 <= 3
    vp-pre: x0 >= 0 and x1 >= 0 and y0 >= 0 and y1 >= 0 and vn >= 0 and vm >= 0 and u0 >= 0 and u1 >= 0 and w0 >= 0 and w1 >= 0
    """
    k1, v1, k2, v2 = [a0, a1][:r1], [x0, x1][:r1], [b0, b1][:r2], [y0, y1][:r2]
    r = _eval("Expand", k1, v1, k2, v2)
    if r is None:
        return True
    if not _is_identity(r):
        return True   # another replacement (shape-value propagation): decided by the model-level part of C09
    rx, rs = runtime(k1, v1, vn, vm, [u0, u1]), runtime(k2, v2, vn, vm, [w0, w1])
    if len(rs) > len(rx):
        return False  # the result would have the rank of the target
    off = len(rx) - len(rs)
    return all(rx[off + i] == rs[i] or rs[i] == 1 for i in range(len(rs)))


def reshape_eval(r1: int, r2: int, a0: int, a1: int, b0: int, b1: int, x0: int, x1: int, y0: int, y1: int,
                 vn: int, vm: int, u0: int, u1: int, w0: int, w1: int) -> bool:
    """Reshape(x, target) with a symbolic target value (entries are dims, hence >= 0): Identity only if the target is x's shape
    for every valuation (a 0 entry copies the input dim, which is then 0 as well)
    vp-pre: 0 <= r1 <= 2 and 0 <= r2 <= 2 and 0 <= a0 <= 3 and 0 <= a1 <= 3 and 0 <= b0 <= 3 and 0 <= b1 <= 3
    vp-pre: x0 >= 0 and x1 >= 0 and y0 >= 0 and y1 >= 0 and vn >= 0 and vm >= 0 and u0 >= 0 and u1 >= 0 and w0 >= 0 and w1 >= 0
    """
    k1, v1, k2, v2 = [a0, a1][:r1], [x0, x1][:r1], [b0, b1][:r2], [y0, y1][:r2]
    r = _eval("Reshape", k1, v1, k2, v2)
    if r is None or not _is_identity(r):
        return True
    rx, rs = runtime(k1, v1, vn, vm, [u0, u1]), runtime(k2, v2, vn, vm, [w0, w1])
    if len(rx) != len(rs):
        return False
    return all(rs[i] == rx[i] or (rs[i] == 0 and rx[i] == 0) for i in range(len(rx)))


def merge_shapes(r: int, a0: int, a1: int, a2: int, b0: int, b1: int, b2: int, x0: int, x1: int, x2: int, y0: int, y1: int, y2: int,
                 vn: int, vm: int, u0: int, u1: int, u2: int, w0: int, w1: int, w2: int) -> bool:
    """_merge_shapes(p, o): whenever p and o describe one and the same tensor under a valuation, so does the merged shape (every
    static entry equals the runtime dim, every named entry evaluates to it); no information of p is lost
    vp-pre: 0 <= r <= 3
    vp-pre: 0 <= a0 <= 3 and 0 <= a1 <= 3 and 0 <= a2 <= 3 and 0 <= b0 <= 3 and 0 <= b1 <= 3 and 0 <= b2 <= 3
    vp-pre: x0 >= 0 and x1 >= 0 and x2 >= 0 and y0 >= 0 and y1 >= 0 and y2 >= 0
    """
    k1, v1, k2, v2 = [a0, a1, a2][:r], [x0, x1, x2][:r], [b0, b1, b2][:r], [y0, y1, y2][:r]
    rt1, rt2 = runtime(k1, v1, vn, vm, [u0, u1, u2]), runtime(k2, v2, vn, vm, [w0, w1, w2])
    if rt1 != rt2:
        return True   # the two annotations do not describe one tensor under this valuation
    m = CF._merge_shapes(mk(k1, v1), mk(k2, v2))
    if len(m) != r:
        return False
    for i in range(r):
        d = m[i]
        if isinstance(d, int):
            if d != rt1[i]:
                return False
        elif d.value == "N":
            if vn != rt1[i]:
                return False
        elif d.value == "M":
            if vm != rt1[i]:
                return False
        elif d.value is None:
            if k1[i] != 3 and k2[i] != 3:
                return False   # information lost: both operands knew more
        else:
            return False
    return True


# reachability of the interesting branch (beyond the per-obligation vacuity twin): on a concrete instance both evaluators DO return Identity
for _op in ("Expand", "Reshape"):
    if not _is_identity(_eval(_op, [0, 1], [2, 0], [0, 1], [2, 0])):
        raise RuntimeError(f"c09_lemmas: the {_op} evaluator no longer returns Identity on equal shapes [2, N]: harness wiring is stale")


def _slices(name, func, combos, timeout, fns, bounds, quick):
    return [{"id": f"c09.lemma.{name}.{tag}", "func": func, "extra_pres": [pre], "timeout": timeout, "timeout_thorough": 900,
             "tiers": ("quick", "thorough") if q else ("thorough",), "functions": fns, "bounds": bounds.format(tag=tag),
             "stubs": ["real ir.Shape / ir.Node / OptimizerState / TapeBuilder objects; format cut"]} for tag, pre, q in combos if quick or True]


OBLIGATIONS = (
    _slices("same_shape_cf", "same_shape_cf", [(f"r{a}{b}", f"r1 == {a} and r2 == {b}", a + b <= 4 and abs(a - b) <= 1) for a in range(4) for b in range(4)], 300,
            ["onnxscript.optimizer._constant_folding:_same_shape"],
            "ranks {tag}; every dim static (unbounded >= 0) / N / M / anonymous; unbounded runtime values", True)
    + _slices("same_shape_iu", "same_shape_iu", [(f"r{a}{b}", f"r1 == {a} and r2 == {b}", a + b <= 4 and abs(a - b) <= 1) for a in range(4) for b in range(4)], 300,
              ["onnxscript.rewriter._ir_utils:same_shape"], "ranks {tag}; dims of any kind; unbounded runtime values", True)
    + [{"id": "c09.lemma.same_dim_iu", "func": "same_dim_iu", "timeout": 120, "functions": ["onnxscript.rewriter._ir_utils:same_dim"],
        "bounds": "two dims of any kind; unbounded values", "stubs": []}]
    + _slices("expand_eval", "expand_eval", [(f"r{a}{b}", f"r1 == {a} and r2 == {b}", a + b <= 3) for a in range(3) for b in range(3)], 300,
              ["onnxscript.optimizer._constant_folding:expand", "onnxscript.optimizer._constant_folding:_same_shape"],
              "rank(x), rank(target value) = {tag}; dims of any kind; unbounded runtime values", True)
    + _slices("reshape_eval", "reshape_eval", [(f"r{a}{b}", f"r1 == {a} and r2 == {b}", a + b <= 3) for a in range(3) for b in range(3)], 300,
              ["onnxscript.optimizer._constant_folding:reshape", "onnxscript.optimizer._constant_folding:_same_shape"],
              "rank(x), rank(target value) = {tag}; dims of any kind; unbounded runtime values", True)
    + _slices("merge_shapes", "merge_shapes", [(f"r{a}", f"r == {a}", a <= 2) for a in range(3)]
              + [(f"r3.a{k}b{j}", f"r == 3 and a0 == {k} and b0 == {j}", False) for k in range(4) for j in range(4)], 300,
              ["onnxscript.optimizer._constant_folding:_merge_shapes"], "rank {tag}; dims of any kind; unbounded runtime values", True)
)
