"""CrossHair driver: obligations -> generated wrapper modules -> parallel workers -> verdicts.

A harness module (vp/harness/*.py) defines plain functions returning bool whose docstrings carry
`vp-pre: <expr>` lines, and a list OBLIGATIONS of dicts:
    id, func, timeout (CPU s per condition), tiers ("quick","thorough"), functions (callables or
    "module:qualname" strings of the repo code the obligation executes), bounds, stubs, [per_path]
For every obligation a wrapper file with two functions is generated:
    main_  : pre = the harness pre-conditions (+ negated known-finding regions), post: _
    twin_  : same pre, post: not _    (reachability witness: must be REFUTED)
Outcomes of main_: confirmed -> discharged; refuted -> counterexample, replayed concretely in a
fresh process on the unpatched modules (VP_NOCUT=1); unknown/pre_unsat -> inconclusive.
"""
from __future__ import annotations

import ast
import concurrent.futures as cf
import importlib
import inspect
import json
import os
import re
import subprocess
import sys
import textwrap
import time
from pathlib import Path

from . import common

PY = sys.executable


def _fn_node(mod, func: str) -> ast.FunctionDef:
    src = inspect.getsource(mod)
    for n in ast.parse(src).body:
        if isinstance(n, ast.FunctionDef) and n.name == func:
            return n
    raise KeyError(func)


def _pres(doc: str) -> list[str]:
    return [m.group(1).strip() for m in re.finditer(r"^\s*vp-pre:\s*(.+)$", doc or "", re.M)]


def ob_parts(modname: str, ob: dict):
    """(signature text, preconditions, call expression over H) of an obligation."""
    if "call" in ob:
        return ob["sig"], list(ob.get("pres", [])), ob["call"]
    mod = importlib.import_module(modname)
    node = _fn_node(mod, ob["func"])
    names = [a.arg for a in node.args.args]
    return (ast.unparse(node.args), _pres(ast.get_docstring(node) or "") + list(ob.get("extra_pres", [])),
            f"H.{ob['func']}({', '.join(names)})")


def gen_wrapper(pid: str, modname: str, ob: dict, extra_pre: list[str]) -> Path:
    sig, pres, call = ob_parts(modname, ob)
    pres = pres + [f"not ({r})" for r in extra_pre]
    pre_block = "".join(f"    pre: {p}\n" for p in pres)
    text = (
        "import sys, typing\n"
        f"sys.path.insert(0, {str(common.ROOT)!r})\n"
        "from typing import *\n"
        f"import {modname} as H\n\n"
        f"def main_({sig}) -> bool:\n    \"\"\"\n{pre_block}    post: _\n    \"\"\"\n    return {call}\n\n"
        f"def twin_({sig}) -> bool:\n    \"\"\"\n{pre_block}    post: not _\n    \"\"\"\n    return {call}\n"
    )
    d = common.WORK / pid
    d.mkdir(parents=True, exist_ok=True)
    p = d / (re.sub(r"[^A-Za-z0-9_]", "_", ob["id"]) + ".py")
    p.write_text(text)
    return p


def _run_worker(file: Path, func: str, tmo: float, per_path, live_keys=()) -> dict:
    wall = tmo * 2.5 + 90
    t0 = time.time()
    env = dict(os.environ)
    env.pop("VP_NOCUT", None)
    env["VP_KNOWN_LIVE"] = ",".join(sorted(live_keys))
    try:
        cp = subprocess.run(
            [PY, "-m", "vp.xh_worker", str(file), func, str(tmo), "" if per_path is None else str(per_path)],
            capture_output=True, text=True, timeout=wall, cwd=str(common.ROOT), env=env,
        )
    except subprocess.TimeoutExpired:
        return {"status": "unknown", "detail": f"wall timeout {wall}s", "paths": 0, "wall_s": round(time.time() - t0, 1)}
    m = re.search(r"@@VPJSON@@(.*)$", cp.stdout, re.M)
    if not m:
        return {"status": "error", "detail": "no verdict; rc=%s stderr=%s" % (cp.returncode, cp.stderr[-1500:]), "paths": 0,
                "wall_s": round(time.time() - t0, 1)}
    return json.loads(m.group(1))


_CALL_RE = re.compile(r"when calling \w+\((.*?)\)(?: \(which (?:returns|raises).*\))?$", re.S)


def parse_cex(message: str, sig: str = "") -> dict | None:
    m = _CALL_RE.search(message.strip())
    if not m:
        return None
    try:
        call = ast.parse("f(" + m.group(1) + ")", mode="eval").body
        names = [a.arg for a in ast.parse(f"def f({sig}): pass").body[0].args.args]
        out = {}
        if len(call.args) > len(names):
            return None
        for n, a in zip(names, call.args):
            out[n] = ast.literal_eval(a)
        for kw in call.keywords:
            out[kw.arg] = ast.literal_eval(kw.value)
        return out
    except Exception:
        return None


def concrete_replay(modname: str, ob, args: dict, timeout: float = 300) -> dict:
    """Re-run the harness function on concrete values in a fresh process, unpatched modules."""
    env = dict(os.environ)
    env["VP_NOCUT"] = "1"
    env.pop("VP_KNOWN_LIVE", None)
    try:
        cp = subprocess.run(
            [PY, "-m", "vp.xh_replay", modname, ob_parts(modname, ob)[2], json.dumps(args)],
            capture_output=True, text=True, timeout=timeout, cwd=str(common.ROOT), env=env,
        )
    except subprocess.TimeoutExpired:
        return {"returned": None, "error": "timeout"}
    m = re.search(r"@@VPJSON@@(.*)$", cp.stdout, re.M)
    if not m:
        return {"returned": None, "error": cp.stderr[-1500:]}
    return json.loads(m.group(1))


def describe_functions(fs) -> list[str]:
    out = []
    for f in fs or []:
        if isinstance(f, str):
            try:
                modname, qual = f.split(":")
                o = importlib.import_module(modname)
                for part in qual.split("."):
                    o = getattr(o, part)
                out.append(common.src_ref(o))
            except Exception as e:
                out.append(f"{f} (unresolved: {e})")
        else:
            out.append(common.src_ref(f))
    return out


def region_holds(region: str, args: dict) -> bool:
    try:
        return bool(eval(region, {"__builtins__": {"abs": abs, "len": len, "min": min, "max": max, "any": any, "all": all}}, dict(args)))
    except Exception:
        return False


def run_obligations(run: common.Run, modnames: list[str], tier: str, only: str | None = None) -> dict:
    """Run all obligations of the harness modules for the tier.  Fills run.coverage['xh']."""
    pid = run.pid
    items = []
    for modname in modnames:
        mod = importlib.import_module(modname)
        for ob in mod.OBLIGATIONS:
            if tier not in ob.get("tiers", ("quick", "thorough")):
                continue
            if only and only not in ob["id"]:
                continue
            ob = dict(ob)
            if tier == "thorough" and "timeout_thorough" in ob:
                ob["timeout"] = ob["timeout_thorough"]
            items.append((modname, ob))

    # known findings (committed file, never written here): the stored witness of each finding is
    # replayed first on the unpatched code; only while it still reproduces is the finding's region
    # excluded from the obligations' preconditions (and the KNOWN-FINDING line printed).
    by_id = {ob["id"]: (modname, ob) for modname, ob in items}
    live_regions: dict[str, list[str]] = {ob["id"]: [] for _, ob in items}
    import fnmatch
    live_keys: set[str] = set()
    for kf in common.known_for(pid):
        if kf.get("engine", "X") != "X":
            continue
        wit = kf.get("witness") or {}
        live = True
        if wit.get("harness") in by_id:
            wm, wob = by_id[wit["harness"]]
            r = concrete_replay(wm, wob, wit["args"])
            if r.get("returned") is False:
                run.known(kf["text"])
            elif r.get("returned") is True:
                live = False
                print(f"note: known finding {kf.get('key')} no longer reproduces; its region is checked again", flush=True)
            else:
                live = False
                run.harness_error(f"witness replay for {kf.get('key')} errored: {str(r)[:500]}")
        elif wit:
            # witness harness not part of this tier/selection: replay it anyway if resolvable
            cand = [(m, o) for m in modnames for o in importlib.import_module(m).OBLIGATIONS if o["id"] == wit.get("harness")]
            if cand:
                r = concrete_replay(cand[0][0], cand[0][1], wit["args"])
                if r.get("returned") is False:
                    run.known(kf["text"])
                else:
                    live = False
        if not live:
            continue
        live_keys.add(kf.get("key", ""))
        for modname, ob in items:
            names = [a.arg for a in ast.parse(f"def f({ob_parts(modname, ob)[0]}): pass").body[0].args.args]
            for reg in kf.get("regions", []):
                if not fnmatch.fnmatch(ob["id"], reg.get("harness", "*")):
                    continue
                if "template" in reg:
                    for j in range(6):
                        if all(v.format(j=j) in names for v in reg["needs"]):
                            live_regions[ob["id"]].append(reg["template"].format(j=j))
                else:
                    live_regions[ob["id"]].append(reg["region"])

    tasks = []
    whole_known = [(m, ob) for m, ob in items if "True" in live_regions[ob["id"]]]
    items = [(m, ob) for m, ob in items if "True" not in live_regions[ob["id"]]]
    for modname, ob in items:
        f = gen_wrapper(pid, modname, ob, live_regions[ob["id"]])
        tasks.append((modname, ob, f, "main_"))
        tasks.append((modname, ob, f, "twin_"))

    results: dict[tuple[str, str], dict] = {}
    with cf.ThreadPoolExecutor(max_workers=common.jobs()) as ex:
        futs = {}
        for modname, ob, f, fn in tasks:
            tmo = ob["timeout"] if fn == "main_" else min(ob["timeout"], ob.get("twin_timeout", 60))
            futs[ex.submit(_run_worker, f, fn, tmo, ob.get("per_path"), live_keys)] = (ob["id"], fn)
        for fu in cf.as_completed(futs):
            results[futs[fu]] = fu.result()

    samples = []
    n_ob = n_dis = n_inc = paths = twins_ok = 0
    cpu = 0.0
    for modname, ob in items:
        oid = ob["id"]
        rm, rt = results[(oid, "main_")], results[(oid, "twin_")]
        n_ob += 1
        paths += rm.get("paths", 0)
        cpu += rm.get("wall_s", 0) + rt.get("wall_s", 0)
        entry = {
            "id": oid, "function": ob.get("func") or ob.get("call"), "module": modname, "status": rm["status"], "paths": rm.get("paths", 0),
            "twin": rt["status"], "wall_s": rm.get("wall_s"), "timeout_cpu_s": ob["timeout"],
            "bounds": ob.get("bounds", ""), "stubs": ob.get("stubs", []),
            "functions_encoded": describe_functions(ob.get("functions")),
            "excluded_known_regions": live_regions[oid],
        }
        # vacuity twin
        if rt["status"] == "refuted":
            twins_ok += 1
        elif rt["status"] == "confirmed":
            run.harness_error(f"{oid}: vacuity twin CONFIRMED (property can never evaluate to True)")
        elif rt["status"] == "pre_unsat":
            run.harness_error(f"{oid}: vacuity twin: precondition unsatisfiable")
        elif rt["status"] == "error":
            run.harness_error(f"{oid}: twin worker error: {rt.get('detail')}")
        else:
            run.note_inconclusive(f"{oid}: vacuity twin not refuted within budget ({rt['status']})")
        # main verdict
        if rm["status"] == "confirmed":
            n_dis += 1
        elif rm["status"] == "refuted":
            msg = next((m for m in rm.get("messages", []) if m["state"] in ("POST_FAIL", "EXEC_ERR", "POST_ERR")), {})
            args = parse_cex(msg.get("message", ""), ob_parts(modname, ob)[0])
            entry["counterexample"] = msg.get("message", "")[:500]
            if args is None:
                run.harness_error(f"{oid}: counterexample could not be parsed: {msg.get('message','')[:300]}")
            else:
                rep = concrete_replay(modname, ob, args)
                entry["replay"] = rep
                if rep.get("returned") is False:
                    path = common.write_replay(pid, {
                        "harness": oid, "engine": "X", "module": modname, "call": ob_parts(modname, ob)[2],
                        "assignment": args, "rebuild": {"kind": "call"}, "observed": rep,
                        "crosshair_message": msg.get("message", "")[:1000], "reproduced": True,
                    })
                    run.violation(path, f"{oid} {args}")
                elif rep.get("returned") is True:
                    # solver model does not reproduce on the real code: CrossHair model imprecision
                    n_inc += 1
                    run.note_inconclusive(f"{oid}: counterexample {args} does not reproduce concretely (CrossHair model imprecision)")
                    entry["status"] = "spurious_cex"
                else:
                    run.harness_error(f"{oid}: replay of {args} errored: {str(rep)[:600]}")
        elif rm["status"] in ("unknown", "pre_unsat"):
            n_inc += 1
            run.note_inconclusive(f"{oid}: {rm['status']} after {rm.get('paths',0)} paths ({rm.get('detail','budget exhausted')})")
        else:
            run.harness_error(f"{oid}: worker error: {rm.get('detail')} {rm.get('tb','')[-800:]}")
        samples.append(entry)

    for modname, ob in whole_known:
        samples.append({"id": ob["id"], "status": "skipped: whole obligation lies in a live known-finding region",
                        "function": ob.get("call"), "bounds": ob.get("bounds", "")})
    cov = run.coverage
    cov["obligations"] = cov.get("obligations", 0) + n_ob
    cov["discharged"] = cov.get("discharged", 0) + n_dis
    cov["inconclusive"] = cov.get("inconclusive", 0) + n_inc
    cov["evaluations"] = cov.get("evaluations", 0) + paths
    cov["distinct_nontrivial"] = cov.get("distinct_nontrivial", 0) + twins_ok
    cov.setdefault("samples", []).extend(samples)
    cov["crosshair_paths"] = cov.get("crosshair_paths", 0) + paths
    cov["crosshair_wall_s"] = round(cov.get("crosshair_wall_s", 0) + cpu, 1)
    return {"obligations": n_ob, "discharged": n_dis, "inconclusive": n_inc, "paths": paths}


def run_side_obligations(run: common.Run, modnames: list[str], tier: str, only, key: str, explanation: str, keep_samples: int = 3) -> dict:
    """CrossHair obligations of a property whose main counts come from another engine: the obligation counts go under
    coverage[key] (and coverage['obligations'/'discharged']); evaluations / distinct_nontrivial / samples of the main engine are kept."""
    cov = run.coverage
    keep = {k: cov.get(k) for k in ("evaluations", "distinct_nontrivial", "samples")}
    for k in ("obligations", "discharged", "inconclusive", "evaluations", "distinct_nontrivial", "samples", "crosshair_paths", "crosshair_wall_s"):
        cov.pop(k, None)
    run_obligations(run, modnames, tier, only)
    lem = {k: cov.pop(k, None) for k in ("obligations", "discharged", "inconclusive", "crosshair_paths", "crosshair_wall_s")}
    lem["obligation_records"] = cov.pop("samples", [])
    lem["vacuity_twins_refuted"] = cov.pop("distinct_nontrivial", 0)
    cov.pop("evaluations", None)
    lem["explanation"] = explanation
    cov[key] = lem
    cov["obligations"], cov["discharged"] = lem["obligations"] or 0, lem["discharged"] or 0
    for k, v in keep.items():
        if v is not None:
            cov[k] = v
    cov["samples"] = list(keep["samples"] or []) + lem["obligation_records"][:keep_samples]
    return lem
