"""Non-forking helpers for reference models executed under CrossHair.

`ite(c, a, b)`, `smin`, `smax`, `sand`, `sor`, `snot` build a single z3 term when an operand is a
CrossHair symbolic (no path fork); on concrete values they are the ordinary Python operations, so
the same reference model runs unchanged in concrete replay and translator validation.
Only reference models (my side of a postcondition) use these; the code under test never does.
"""
from __future__ import annotations

try:
    import z3
    from crosshair.libimpl.builtinslib import SymbolicBool, SymbolicInt
    from crosshair.tracers import NoTracing, is_tracing
    _HAVE = True
except Exception:  # pragma: no cover
    _HAVE = False


def _tracing() -> bool:
    return _HAVE and is_tracing()


def _ivar(x):
    if isinstance(x, SymbolicInt):
        return x.var
    if isinstance(x, SymbolicBool):
        return z3.If(x.var, 1, 0)
    if isinstance(x, bool):
        return z3.IntVal(int(x))
    if isinstance(x, int):
        return z3.IntVal(x)
    return None


def _bvar(x):
    if isinstance(x, SymbolicBool):
        return x.var
    if isinstance(x, bool):
        return z3.BoolVal(x)
    return None


def ite(c, a, b):
    if _tracing():
        with NoTracing():
            if isinstance(c, SymbolicBool):
                va, vb = _ivar(a), _ivar(b)
                if va is not None and vb is not None:
                    return SymbolicInt(z3.If(c.var, va, vb))
                ba, bb = _bvar(a), _bvar(b)
                if ba is not None and bb is not None:
                    return SymbolicBool(z3.If(c.var, ba, bb))
    return a if c else b


def smin(a, b):
    return ite(a <= b, a, b)


def smax(a, b):
    return ite(a >= b, a, b)


def sand(*xs):
    if _tracing():
        with NoTracing():
            vs = [_bvar(x) for x in xs]
            if all(v is not None for v in vs) and any(isinstance(x, SymbolicBool) for x in xs):
                return SymbolicBool(z3.And(*vs))
    r = True
    for x in xs:
        r = r and x
    return r


def sor(*xs):
    if _tracing():
        with NoTracing():
            vs = [_bvar(x) for x in xs]
            if all(v is not None for v in vs) and any(isinstance(x, SymbolicBool) for x in xs):
                return SymbolicBool(z3.Or(*vs))
    r = False
    for x in xs:
        r = r or x
    return r


def snot(x):
    if _tracing():
        with NoTracing():
            if isinstance(x, SymbolicBool):
                return SymbolicBool(z3.Not(x.var))
    return not x


def fdiv(a, k: int):
    """floor division by a concrete positive int without forking"""
    return a // k
