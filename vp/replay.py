"""./check --replay <file>: re-run a recorded counterexample against the real (unpatched) code."""
import json
import sys

from . import common


def main(path: str) -> int:
    rec = json.load(open(path))
    kind = rec.get("rebuild", {}).get("kind")
    pid = rec.get("property", "?")
    if kind == "call":
        from . import xh
        ob = {"call": rec["call"], "sig": ", ".join(rec["assignment"]), "pres": []}
        r = xh.concrete_replay(rec["module"], ob, rec["assignment"])
        print(json.dumps(r, indent=1, default=str))
        if r.get("returned") is False:
            print(f"REPRODUCED property={pid} harness={rec.get('harness')}")
            return 1
        print("not reproduced" if r.get("returned") else "replay error")
        return 0 if r.get("returned") else common.EXIT_HARNESS
    if kind in ("model", "script", "pair"):
        from .symonnx import replay as sreplay
        return sreplay.main(rec)
    print(f"unknown replay kind {kind!r}")
    return common.EXIT_HARNESS
