"""C13 — ONNX -> Python (proto2python) -> ONNX round-trips to an equivalent model.

(S) For typed models obtained from the C01 script corpus (the documented round trip) and tensor-typed
generated models, x export options: the generated source is written to a file, imported (the decorator
needs real source), decoration must succeed, to_model_proto() must have the same number of inputs and
outputs, and symonnx + z3 decide [[M']] == [[M]] for ALL input values.  Any exception other than a
descriptive refusal for out-of-class models is a violation.
(X) lemmas on the name clean-up helpers (vp/harness/c13x.py).
"""
from __future__ import annotations

import base64
import concurrent.futures as cf
import itertools
import traceback

import numpy as np
import onnx
import onnx_ir as ir

from vp import common, xh

OPTIONS_Q = [dict(), dict(rename=True), dict(use_operators=True), dict(inline_const=True), dict(use_operators=True, inline_const=True),
             dict(skip_initializers=True)]


def all_options():
    out = []
    for r, u, i, s in itertools.product([False, True], repeat=4):
        out.append({k: v for k, v in (("rename", r), ("use_operators", u), ("inline_const", i), ("skip_initializers", s)) if v})
    return out


def _constant_tensors(m):
    from onnx import numpy_helper as nh_
    out = []

    def walk(g):
        inputs_ = {i.name for i in g.input}
        for t in g.initializer:
            if t.name in inputs_:
                continue  # an overridable default, not a constant: left to the semantic comparison
            out.append(nh_.to_array(t))
        for n in g.node:
            for a in n.attribute:
                if a.type == onnx.AttributeProto.TENSOR and n.op_type == "Constant":
                    out.append(nh_.to_array(a.t))
                elif a.type == onnx.AttributeProto.GRAPH:
                    walk(a.g)
    walk(m.graph)
    for f in m.functions:
        for n in f.node:
            for a in n.attribute:
                if a.type == onnx.AttributeProto.TENSOR and n.op_type == "Constant":
                    out.append(nh_.to_array(a.t))
    return out


def _constants_lost(m1, m2, inline_const=False) -> str:
    """Every constant tensor of the original that has a non-finite element or more than one element must occur bit for bit
    (same dtype, shape, bytes) among the constants of the round-tripped model.  (Decides what the real-valued semantics cannot:
    NaN, infinities, signed zeros, exact bit patterns of tables.)  Scalars with ordinary values may legitimately be re-typed when
    they are inlined as Python literals and are left to the semantic comparison."""
    def key(a):
        if a.dtype.kind in "OSU":
            return ("string", tuple(a.shape), repr([x.decode() if isinstance(x, bytes) else str(x) for x in a.reshape(-1).tolist()]))
        return (str(a.dtype), tuple(a.shape), a.tobytes())
    have = {}
    for a in _constant_tensors(m2):
        have[key(a)] = have.get(key(a), 0) + 1
    for a in _constant_tensors(m1):
        special = a.dtype.kind == "f" and a.size and not np.all(np.isfinite(a))
        if not (special or a.size > 1):
            continue
        if inline_const and not special and a.ndim <= 1 and a.size < 5 and str(a.dtype) in ("float32", "int64"):
            continue  # rendered as a Python literal: may come back re-typed / re-shaped by promotion; left to the semantic comparison
        if a.dtype.kind not in "fiubOSU":
            continue
        if have.get(key(a), 0) == 0:
            return f"constant {a.dtype}{list(a.shape)} {np.array2string(a.reshape(-1)[:6], threshold=6)} has no bitwise equal in the round-tripped model"
    return ""


def _attach_functions(m2, fns, main_fn):
    """append the FunctionProtos of the other script functions of the generated module (and their opset imports)"""
    from onnx import helper as oh_
    have = {(f_.domain, f_.name) for f_ in m2.functions}
    for f_ in fns:
        if f_ is not main_fn:
            fp_ = f_.to_function_proto()
            if (fp_.domain, fp_.name) not in have:
                have.add((fp_.domain, fp_.name))
                m2.functions.append(fp_)
    doms_ = {o.domain for o in m2.opset_import}
    for fp_ in m2.functions:
        if fp_.domain not in doms_:
            doms_.add(fp_.domain)
            m2.opset_import.append(oh_.make_opsetid(fp_.domain, 1))


def _worker(payload):
    name, mb, spec, opts = payload
    from onnxscript.backend import onnx_export
    from vp.symonnx import equiv as Q
    from vp.symonnx import interp as I
    from vp.symonnx import replay as R
    from vp.symonnx import scripts as S
    from vp.symonnx.values import DT, Malformed, NotEncoded, fresh
    mp = onnx.load_from_string(mb)
    rec = {"model": name, "options": opts, "verdict": None, "detail": "", "stage": None}
    rec["has_initializer_input"] = bool({t.name for t in mp.graph.initializer} & {i.name for i in mp.graph.input})
    rec["function_attribute_names"] = sorted({a for f in mp.functions for a in list(f.attribute) + [ap.name for ap in f.attribute_proto]})
    stats = Q.Stats()
    is_fn = name.startswith("fn:")
    try:
        src = onnx_export.export2python(mp.functions[0] if is_fn else mp, **opts)
    except Exception as e:  # noqa: BLE001
        rec.update(verdict="export_raised", stage="export", detail=f"{type(e).__name__}: {str(e)[:160]}", tb=traceback.format_exc()[-600:])
        rec["solver"] = stats.as_dict()
        return rec
    rec["source"] = src[:3000]
    try:
        compile(src, "<generated>", "exec")
    except SyntaxError as e:
        rec.update(verdict="invalid_python", stage="compile", detail=str(e)[:200])
        rec["solver"] = stats.as_dict()
        return rec
    try:
        mod = S.load_source(src, "c13")
    except Exception as e:  # noqa: BLE001
        rec.update(verdict="decoration_failed", stage="decorate", detail=f"{type(e).__name__}: {str(e)[:200]}")
        rec["solver"] = stats.as_dict()
        return rec
    if is_fn:
        import json as _json
        fp = mp.functions[0]
        fn2 = next((v for k, v in vars(mod).items() if hasattr(v, "to_function_proto") and hasattr(v, "function_ir") and v.name == fp.name), None)
        if fn2 is None:
            rec.update(verdict="decoration_failed", stage="decorate", detail=f"generated module does not define the script function {fp.name}")
            rec["solver"] = stats.as_dict()
            return rec
        try:
            attrs_ = _json.loads(next((e.value for e in mp.metadata_props if e.key == "vp_attrs"), "{}"))
            m2 = S.call_model(fn2, attrs_, [i.type.tensor_type.elem_type for i in mp.graph.input])
        except Exception as e:  # noqa: BLE001
            rec.update(verdict="export_of_roundtrip_failed", stage="to_function_proto", detail=f"{type(e).__name__}: {str(e)[:200]}")
            rec["solver"] = stats.as_dict()
            return rec
    elif opts.get("skip_initializers"):
        # the generated module defines make_model(<skipped initializers>): call it with the original values of the initializers
        # the exporter skips (more than 4 elements; main graph first, then subgraphs in node order)
        from onnx import numpy_helper as nh

        def large(g):
            out_ = [nh.to_array(t) for t in g.initializer if int(np.prod(t.dims)) > 4]
            for n_ in g.node:
                for a_ in n_.attribute:
                    if a_.type == onnx.AttributeProto.GRAPH:
                        out_ += large(a_.g)
            return out_
        try:
            import inspect
            mk = getattr(mod, "make_model")
            args = large(mp.graph)
            if len(inspect.signature(mk).parameters) != len(args):
                rec.update(verdict="signature_changed", stage="make_model",
                           detail=f"make_model takes {len(inspect.signature(mk).parameters)} initializers, the model has {len(args)} large ones")
                rec["solver"] = stats.as_dict()
                return rec
            m2 = mk(*args)
            if mp.functions:
                from vp.symonnx import wellformed as W_
                unresolved = W_.check_calls(m2)
                if unresolved:
                    rec["functions_not_reattached"] = unresolved[0]
                    _attach_functions(m2, [v for v in vars(mod).values() if hasattr(v, "to_function_proto") and hasattr(v, "function_ir")], None)
        except Exception as e:  # noqa: BLE001
            rec.update(verdict="decoration_failed", stage="make_model", detail=f"{type(e).__name__}: {str(e)[:200]}")
            rec["solver"] = stats.as_dict()
            return rec
    else:
        fns = [v for k, v in vars(mod).items() if hasattr(v, "to_model_proto") and hasattr(v, "function_ir")]
        main = [f for f in fns if f.name == (mp.graph.name or "")]
        fn = main[0] if main else (fns[-1] if fns else None)
        if fn is None:
            rec.update(verdict="decoration_failed", stage="decorate", detail="no script function defined by the generated module")
            rec["solver"] = stats.as_dict()
            return rec
        try:
            m2 = fn.to_model_proto()
            if mp.functions:
                from vp.symonnx import wellformed as W_
                unresolved = W_.check_calls(m2)
                if unresolved:
                    # the generated source calls model-local functions through their Opset object, so the regenerated script
                    # function does not know them as callees: reported once as a side finding; the comparison goes on with the
                    # FunctionProtos of the other generated script functions appended by hand, so that their bodies are still compared
                    rec["functions_not_reattached"] = unresolved[0]
                    _attach_functions(m2, fns, fn)
        except Exception as e:  # noqa: BLE001
            rec.update(verdict="export_of_roundtrip_failed", stage="to_model_proto", detail=f"{type(e).__name__}: {str(e)[:200]}")
            rec["solver"] = stats.as_dict()
            return rec
    ins1 = list(mp.graph.input)
    if len(ins1) != len(m2.graph.input) or len(mp.graph.output) != len(m2.graph.output):
        rec.update(verdict="signature_changed", stage="signature",
                   detail=f"inputs {len(ins1)} -> {len(m2.graph.input)}, outputs {len(mp.graph.output)} -> {len(m2.graph.output)}")
        rec["solver"] = stats.as_dict()
        return rec
    lost = _constants_lost(mp, m2, inline_const=bool(opts.get("inline_const")))
    if lost:
        rec.update(verdict="constant_changed", stage="constants", detail=lost)
        rec["solver"] = stats.as_dict()
        return rec
    try:
        inputs1 = {n: fresh(n, sh, DT(dt)) for n, dt, sh in spec}
        order = [i.name for i in ins1]
        inputs2 = {i2.name: inputs1[n1] for n1, i2 in zip(order, m2.graph.input)}
        r1 = I.interpret(ir.from_proto(mp), inputs1)
        r2 = I.interpret(ir.from_proto(m2), inputs2)
        def tol_fn(a, b):
            # forward-error bound: a constant sub-expression evaluated numerically in float32 on one side and symbolically (exact
            # arithmetic) on the other differs by rounding only
            try:
                t1 = I.interpret(ir.from_proto(mp), inputs1, track_mag=True)
                t2 = I.interpret(ir.from_proto(m2), inputs2, track_mag=True)
                if len(t1) == 1 and len(t2) == 1 and not t1[0]["bottom"] and not t2[0]["bottom"]:
                    return t1[0], t2[0]
            except Exception:  # noqa: BLE001
                pass
            return None, None
        v = Q.compare(r1, r2, inputs1, stats, tol_fn=tol_fn, skip_if_first_fails=True)
        rec.update(verdict=v["verdict"], detail=v.get("detail", ""), stage="equivalence")
        rec["uf"] = sorted(set().union(*[r["uf"] for r in r1 + r2]))
        if v["verdict"] == "cex":
            feeds1 = R.np_inputs(v["inputs"]) if v.get("inputs") else {n: np.zeros(sh, dtype=DT(dt).numpy()) for n, dt, sh in spec}
            feeds2 = {i2.name: feeds1[n1] for n1, i2 in zip(order, m2.graph.input)}
            o1, e1 = R.ort_run(mp.SerializeToString(), feeds1)
            o2, e2 = R.ort_run(m2.SerializeToString(), feeds2)
            d = R.outputs_differ(o1, o2)
            rec["replay"] = {"reproduced": d is not None, "difference": d, "ort_err_a": e1, "ort_err_b": e2}
            rec["replay_record"] = {"engine": "S", "options": opts, "generated_source": src,
                                    "inputs": {n: {"dtype": DT(dt).name, "shape": list(sh), "values": feeds1[n].tolist()} for n, dt, sh in spec},
                                    "rebuild": {"kind": "pair", "transformation": f"proto2python({opts})",
                                                "model_a_b64": base64.b64encode(mp.SerializeToString()).decode(),
                                                "model_b_b64": base64.b64encode(m2.SerializeToString()).decode()},
                                    "note": "model_b inputs are positional renamings of model_a's", "detail": v.get("detail")}
    except NotEncoded as e:
        rec.update(verdict="not_encoded", detail=str(e)[:200])
    except Malformed as e:
        rec.update(verdict="malformed", detail=str(e)[:200], stage="equivalence")
    rec["solver"] = stats.as_dict()
    return rec


# groups of names that collide after clean-up: pairs, triples, and names equal to the suffix the exporter would generate
GROUPS = [["a.b", "a_b", "a-b", "a_b_0"], ["x-y", "x_y_0", "x_y", "x.y"], ["for", "r_for", "r.for", "r_for_0"],
          ["0", "__0", "__0_0", "_.0"], ["a.b.c", "a_b_c", "a.b_c", "a_b.c"], ["lambda", "r_lambda", "return", "r_return"],
          ["1x", "__1x", "x y", "x_y_1"]]
TRICKY = [n for g in GROUPS for n in g]
assert len(set(TRICKY)) == len(TRICKY)


def adversarial_rename(mp: onnx.ModelProto, shift: int) -> onnx.ModelProto:
    """rename intermediate values (main graph node outputs that are not graph outputs) with names that need clean-up
    and collide after clean-up"""
    m = onnx.ModelProto()
    m.CopyFrom(mp)
    outs = {o.name for o in m.graph.output}
    ins = {i.name for i in m.graph.input}
    mapping = {}
    k = shift
    for n in m.graph.node:
        for o in n.output:
            if o and o not in outs and o not in ins and o not in mapping:
                mapping[o] = TRICKY[(4 * shift + (k - shift)) % len(TRICKY)] if k < shift + len(TRICKY) else o
                k += 1

    def ren_graph(g):
        for n in g.node:
            for idx, i in enumerate(n.input):
                if i in mapping:
                    n.input[idx] = mapping[i]
            for idx, o in enumerate(n.output):
                if o in mapping:
                    n.output[idx] = mapping[o]
            for a in n.attribute:
                if a.type == onnx.AttributeProto.GRAPH:
                    ren_graph(a.g)
    ren_graph(m.graph)
    del m.graph.value_info[:]
    return m


def corpus(tier):
    """typed models from the script corpus + tensor-typed generated models"""
    from vp.gen import scripts as G
    from vp.props import c02
    from vp.symonnx import eager as E
    from vp.symonnx import equiv as Q
    from vp.symonnx import scripts as S
    from vp.symonnx.values import SV
    items = []
    progs = list(G.CORE) + G.random_programs(common.seed(), 30 if tier == "quick" else 400)
    for p in progs:
        try:
            mod = S.load_source(S.HEADER + p.src, "c13src")
            fn = getattr(mod, p.entry)
            spec = p.specs[0]
            inputs = S.sym_inputs(spec)
            res, _ = E.eager_paths(fn, [E.SymTensor(inputs[n]) for n, _, _ in spec], dict(p.attrs[0]), base_constraints=Q.box_constraints(inputs))
            outs = [r["outs"] for r in res if r.get("outs")]
            if not outs or not all(isinstance(o, SV) for o in outs[0]):
                continue
            sig = {tuple((o.dtype, o.shape) for o in os_) for os_ in outs if all(isinstance(o, SV) for o in os_)}
            if len(sig) != 1:
                continue
            try:
                tsrc = c02.typed_source(S.HEADER + p.src, p.entry, spec, list(next(iter(sig))))
                tmod = S.load_source(tsrc, "c13typed")
                mp = getattr(tmod, p.entry).to_model_proto()
                items.append((f"script:{p.name}", mp.SerializeToString(), [(n, int(dt), tuple(sh)) for n, dt, sh in spec]))
                if "random" not in p.tags and len(mp.graph.node) >= 3:
                    am = adversarial_rename(mp, len(items))
                    items.append((f"script:{p.name}:tricky-names", am.SerializeToString(), [(n, int(dt), tuple(sh)) for n, dt, sh in spec]))
            except ValueError:
                pass  # required attribute parameters: no model leg, the function leg below still applies
            # function leg: the FunctionProto itself (attribute parameters stay parameters), wrapped in a one-node call model
            if "random" not in p.tags and any(a for a in p.attrs) or ("float" in p.src and "random" not in p.tags and p.attrs != [{}]):
                import json as _json
                for ai, attrs in enumerate(p.attrs):
                    cm = S.call_model(fn, attrs, [int(dt) for _, dt, _ in spec])
                    if len(cm.functions) != 1:
                        continue  # calls to other functions: a single FunctionProto cannot be exported on its own
                    e_ = cm.metadata_props.add()
                    e_.key, e_.value = "vp_attrs", _json.dumps(attrs)
                    items.append((f"fn:{p.name}:{ai}", cm.SerializeToString(), [(n, int(dt), tuple(sh)) for n, dt, sh in spec]))
        except Exception:  # noqa: BLE001 - refused programs are not in the class
            continue
    # every binary operator the exporter may render as a Python operator (and look-alikes with attributes), per element type
    from onnx import helper as oh
    from onnx import TensorProto as TP
    table = [("Add", {}), ("Sub", {}), ("Mul", {}), ("Div", {}), ("Pow", {}), ("MatMul", {}), ("Mod", {"fmod": 1}), ("Mod", {"fmod": 0}),
             ("And", {}), ("Or", {}), ("Xor", {}), ("Greater", {}), ("Less", {}), ("Equal", {}), ("GreaterOrEqual", {}), ("LessOrEqual", {}),
             ("BitShift", {"direction": "LEFT"}), ("BitShift", {"direction": "RIGHT"})]
    for opn, at in table:
        for dt in (TP.FLOAT, TP.INT64, TP.BOOL, TP.UINT8):
            logical, cmp_ = opn in ("And", "Or", "Xor"), opn in ("Greater", "Less", "Equal", "GreaterOrEqual", "LessOrEqual")
            if logical != (dt == TP.BOOL) and not (cmp_ and dt != TP.BOOL and dt != TP.UINT8):
                if not (dt in (TP.FLOAT, TP.INT64) and not logical and opn != "BitShift"):
                    if not (opn == "BitShift" and dt == TP.UINT8):
                        continue
            if dt == TP.UINT8 and opn != "BitShift":
                continue
            if opn == "BitShift" and dt != TP.UINT8:
                continue
            if opn == "Mod" and dt == TP.FLOAT and not at.get("fmod"):
                continue
            if opn == "MatMul" and dt != TP.FLOAT:
                continue
            if opn == "Pow" and dt != TP.FLOAT:
                continue
            shp = [2, 2] if opn == "MatMul" else [3]
            odt = TP.BOOL if (cmp_ or logical) else dt
            nodes = [oh.make_node(opn, ["x", "y"], ["t"], **at)]
            if odt == TP.BOOL:
                nodes.append(oh.make_node("Not", ["t"], ["z"]))
            elif odt == TP.UINT8:
                nodes.append(oh.make_node("Identity", ["t"], ["z"]))
            else:
                nodes.append(oh.make_node("Neg", ["t"], ["z"]))
            g = oh.make_graph(nodes, "optable", [oh.make_tensor_value_info("x", dt, shp), oh.make_tensor_value_info("y", dt, shp)],
                              [oh.make_tensor_value_info("z", odt, shp)])
            m = oh.make_model(g, opset_imports=[oh.make_opsetid("", 18)], ir_version=9)
            try:
                onnx.checker.check_model(m, full_check=True)
            except Exception:  # noqa: BLE001
                continue
            items.append((f"optable:{opn}{at or ''}:{TP.DataType.Name(dt)}", m.SerializeToString(), [("x", int(dt), tuple(shp)), ("y", int(dt), tuple(shp))]))
            if not at and opn in ("Add", "Mul", "Sub", "Less", "And", "MatMul"):
                # a graph made ONLY of operators that use_operators renders in infix form (no opset is mentioned in its body)
                nodes2 = [oh.make_node(opn, ["x", "y"], ["t"]), oh.make_node(opn, ["t", "y"] if not cmp_ else ["y", "x"], ["z"])]
                if cmp_:
                    nodes2 = [oh.make_node(opn, ["x", "y"], ["z"])]
                g2 = oh.make_graph(nodes2, "infixonly", [oh.make_tensor_value_info("x", dt, shp), oh.make_tensor_value_info("y", dt, shp)],
                                   [oh.make_tensor_value_info("z", odt, shp)])
                m2 = oh.make_model(g2, opset_imports=[oh.make_opsetid("", 18)], ir_version=9)
                try:
                    onnx.checker.check_model(m2, full_check=True)
                    items.append((f"optable:infix-only:{opn}:{TP.DataType.Name(dt)}", m2.SerializeToString(),
                                  [("x", int(dt), tuple(shp)), ("y", int(dt), tuple(shp))]))
                except Exception:  # noqa: BLE001
                    pass
    # the same operators with a CONSTANT operand on either side (negative / positive, 0-d / one-element 1-d): what inline_const renders
    from onnx import numpy_helper as nh_
    for opn in ("Add", "Sub", "Mul", "Div", "Pow"):
        for cval, cshape in ((-2.0, ()), (2.0, ()), (-2.0, (1,)), (0.5, (1,))):
            for const_first in (True, False):
                ins_ = ["c", "x"] if const_first else ["x", "c"]
                g = oh.make_graph([oh.make_node(opn, ins_, ["t"]), oh.make_node("Neg", ["t"], ["z"])], "optconst",
                                  [oh.make_tensor_value_info("x", TP.FLOAT, [3])], [oh.make_tensor_value_info("z", TP.FLOAT, [3])],
                                  [nh_.from_array(np.full(cshape, cval, dtype=np.float32), "c")])
                m = oh.make_model(g, opset_imports=[oh.make_opsetid("", 18)], ir_version=9)
                try:
                    onnx.checker.check_model(m, full_check=True)
                except Exception:  # noqa: BLE001
                    continue
                items.append((f"optconst:{opn}({'c,x' if const_first else 'x,c'}) c={cval}{list(cshape)}", m.SerializeToString(), [("x", int(TP.FLOAT), (3,))]))
    # constant TABLES with special values (NaN, +-inf, -0.0, tiny), several dtypes and ranks, as initializer and as Constant node:
    # the symbolic semantics is over the reals, so these are decided by the constant-preservation side verdict (bitwise)
    special = [np.nan, np.inf, -np.inf, -0.0, 1e-5, 3.0]
    for dt_, npdt in ((TP.FLOAT, np.float32), (TP.DOUBLE, np.float64), (TP.FLOAT16, np.float16)):
        for shape_ in ((6,), (2, 3), (1,), ()):
            vals_ = np.array(special, dtype=npdt)[: int(np.prod(shape_)) if shape_ else 1].reshape(shape_)
            for form_ in ("init", "node"):
                if form_ == "init" and dt_ != TP.FLOAT and vals_.size > 4:
                    continue  # skip_initializers refuses large initializers of other types with a descriptive error (allowed)
                tbl = nh_.from_array(vals_, "tbl")
                nodes_ = ([oh.make_node("Constant", [], ["tbl"], value=tbl)] if form_ == "node" else []) + [
                    oh.make_node("Shape", ["tbl"], ["s"]), oh.make_node("Cast", ["s"], ["sf"], to=TP.FLOAT),
                    oh.make_node("ReduceSum", ["sf"], ["r"], keepdims=0), oh.make_node("Add", ["x", "r"], ["y"]),
                    oh.make_node("Identity", ["tbl"], ["t_out"])]
                g_ = oh.make_graph(nodes_, "consttable", [oh.make_tensor_value_info("x", TP.FLOAT, [2])],
                                   [oh.make_tensor_value_info("y", TP.FLOAT, [2]), oh.make_tensor_value_info("t_out", dt_, list(shape_))],
                                   [tbl] if form_ == "init" else [])
                m_ = oh.make_model(g_, opset_imports=[oh.make_opsetid("", 18)], ir_version=9)
                try:
                    onnx.checker.check_model(m_, full_check=True)
                except Exception:  # noqa: BLE001
                    continue
                items.append((f"consttable:{TP.DataType.Name(dt_)}{list(shape_)}:{form_}", m_.SerializeToString(), [("x", int(TP.FLOAT), (2,))]))
    # a small (inlinable) Constant that is itself a GRAPH OUTPUT, alone and beside a use; float ATTRIBUTES (not tensors) with special values
    for cval_, also_used in ((2.0, True), (2.0, False), (-0.0, True)):
        cn_ = oh.make_node("Constant", [], ["c"], value=nh_.from_array(np.array(cval_, dtype=np.float32), "c_v"))
        nodes_ = [cn_, oh.make_node("Mul", ["x", "c"], ["y"])] if also_used else [cn_, oh.make_node("Neg", ["x"], ["y"])]
        g_ = oh.make_graph(nodes_, "constout", [oh.make_tensor_value_info("x", TP.FLOAT, [2])],
                           [oh.make_tensor_value_info("y", TP.FLOAT, [2]), oh.make_tensor_value_info("c", TP.FLOAT, [])])
        m_ = oh.make_model(g_, opset_imports=[oh.make_opsetid("", 18)], ir_version=9)
        items.append((f"constout:c={cval_} used={also_used}", m_.SerializeToString(), [("x", int(TP.FLOAT), (2,))]))
    for tag_, kw_ in (("value_float=inf", {"value_float": float("inf")}), ("value_float=-inf", {"value_float": float("-inf")}),
                      ("value_floats=[1,inf]", {"value_floats": [1.0, float("inf")]}), ("value_float=1e-05", {"value_float": 1e-5}),
                      ("value_float=nan", {"value_float": float("nan")})):
        nodes_ = [oh.make_node("Constant", [], ["k"], **kw_), oh.make_node("Min", ["x", "k"], ["y"]) if "floats" not in tag_ else oh.make_node("Min", ["x", "k"], ["y"])]
        g_ = oh.make_graph(nodes_, "floatattr", [oh.make_tensor_value_info("x", TP.FLOAT, [2])], [oh.make_tensor_value_info("y", TP.FLOAT, [2])])
        m_ = oh.make_model(g_, opset_imports=[oh.make_opsetid("", 18)], ir_version=9)
        try:
            onnx.checker.check_model(m_, full_check=True)
            items.append((f"floatattr:{tag_}", m_.SerializeToString(), [("x", int(TP.FLOAT), (2,))]))
        except Exception:  # noqa: BLE001
            pass
    # a STRING table whose elements contain the letters of the special float values
    stbl = nh_.from_array(np.array(["info", "banana", "nan", "x inf y"], dtype=object), "stbl")
    for form_ in ("init", "node"):
        nodes_ = ([oh.make_node("Constant", [], ["stbl"], value=stbl)] if form_ == "node" else []) + [
            oh.make_node("Identity", ["stbl"], ["s_out"]), oh.make_node("Neg", ["x"], ["y"])]
        g_ = oh.make_graph(nodes_, "stringtable", [oh.make_tensor_value_info("x", TP.FLOAT, [2])],
                           [oh.make_tensor_value_info("y", TP.FLOAT, [2]), oh.make_tensor_value_info("s_out", TP.STRING, [4])], [stbl] if form_ == "init" else [])
        m_ = oh.make_model(g_, opset_imports=[oh.make_opsetid("", 18)], ir_version=9)
        try:
            onnx.checker.check_model(m_, full_check=True)
            items.append((f"consttable:STRING[4]:{form_}", m_.SerializeToString(), [("x", int(TP.FLOAT), (2,))]))
        except Exception:  # noqa: BLE001
            pass
    # small constants that are used as an If-branch output or as the initial value of a Loop state variable (inline_const must
    # still bind them)
    def _cn(name, v):
        return oh.make_node("Constant", [], [name], value=nh_.from_array(np.array(v, dtype=np.float32), name + "_v"))
    tb_ = oh.make_graph([_cn("tc", [5.0, 6.0])], "then", [], [oh.make_tensor_value_info("tc", TP.FLOAT, [2])])
    eb_ = oh.make_graph([oh.make_node("Neg", ["x"], ["e"])], "else", [], [oh.make_tensor_value_info("e", TP.FLOAT, [2])])
    g_ = oh.make_graph([oh.make_node("If", ["cnd"], ["y0"], then_branch=tb_, else_branch=eb_), oh.make_node("Add", ["y0", "x"], ["y"])], "ifconst",
                       [oh.make_tensor_value_info("x", TP.FLOAT, [2]), oh.make_tensor_value_info("cnd", TP.BOOL, [])], [oh.make_tensor_value_info("y", TP.FLOAT, [2])])
    # while-style Loops whose condition and state variables feed each other: the body hands the CURRENT condition on to a state
    # variable, or returns a state input as the next condition (both need the updates at the end of the body to be simultaneous)
    one_ = nh_.from_array(np.array(1.0, dtype=np.float32), "one")
    lim_ = nh_.from_array(np.array(3.0, dtype=np.float32), "lim")
    for kind_ in ("state_records_current_condition", "state_input_is_next_condition"):
        bin_ = [oh.make_tensor_value_info("it", TP.INT64, []), oh.make_tensor_value_info("ci", TP.BOOL, []),
                oh.make_tensor_value_info("s", TP.FLOAT, []), oh.make_tensor_value_info("p", TP.BOOL, [])]
        bn_ = [oh.make_node("Add", ["s", "one"], ["s_out"]), oh.make_node("Less", ["s_out", "lim"], ["lt"])]
        if kind_ == "state_records_current_condition":
            bouts_ = ["lt", "s_out", "ci"]           # p_out = the condition this iteration ran under
        else:
            bouts_ = ["p", "s_out", "lt"]            # cond_out = the flag computed one iteration earlier
        bg_ = oh.make_graph(bn_, "wbody", bin_, [oh.make_tensor_value_info(bouts_[0], TP.BOOL, []), oh.make_tensor_value_info("s_out", TP.FLOAT, []),
                                                 oh.make_tensor_value_info(bouts_[2], TP.BOOL, [])])
        wg_ = oh.make_graph([oh.make_node("Loop", ["", "b", "x", "b"], ["sf", "pf"], body=bg_), oh.make_node("Cast", ["pf"], ["pff"], to=TP.FLOAT),
                            oh.make_node("Add", ["sf", "pff"], ["y"])], "whileloop",
                           [oh.make_tensor_value_info("x", TP.FLOAT, []), oh.make_tensor_value_info("b", TP.BOOL, [])],
                           [oh.make_tensor_value_info("y", TP.FLOAT, [])], [one_, lim_])
        wm_ = oh.make_model(wg_, opset_imports=[oh.make_opsetid("", 18)], ir_version=9)
        try:
            onnx.checker.check_model(wm_, full_check=True)
            items.append((f"constuse:while_loop:{kind_}", wm_.SerializeToString(), [("x", int(TP.FLOAT), ()), ("b", int(TP.BOOL), ())]))
        except Exception as e:  # noqa: BLE001
            pass
    # sibling If branches that use the SAME name: a constant in one, a computed value in the other (valid ONNX: separate graphs)
    tb2_ = oh.make_graph([_cn("c", 3.0), oh.make_node("Mul", ["x", "c"], ["t"])], "then", [], [oh.make_tensor_value_info("t", TP.FLOAT, [2])])
    eb2_ = oh.make_graph([oh.make_node("Neg", ["x"], ["c"]), oh.make_node("Mul", ["x", "c"], ["e"])], "else", [], [oh.make_tensor_value_info("e", TP.FLOAT, [2])])
    for tbx, ebx, nm in ((tb2_, eb2_, "constant_in_then"), (eb2_, tb2_, "constant_in_else")):
        g2_ = oh.make_graph([oh.make_node("If", ["cnd"], ["y"], then_branch=tbx, else_branch=ebx)], "ifsib",
                            [oh.make_tensor_value_info("x", TP.FLOAT, [2]), oh.make_tensor_value_info("cnd", TP.BOOL, [])], [oh.make_tensor_value_info("y", TP.FLOAT, [2])])
        items.append((f"constuse:sibling_branches_reuse_a_name:{nm}", oh.make_model(g2_, opset_imports=[oh.make_opsetid("", 18)], ir_version=9).SerializeToString(),
                      [("x", int(TP.FLOAT), (2,)), ("cnd", int(TP.BOOL), ())]))
    items.append(("constuse:if_branch_returns_constant", oh.make_model(g_, opset_imports=[oh.make_opsetid("", 18)], ir_version=9).SerializeToString(),
                  [("x", int(TP.FLOAT), (2,)), ("cnd", int(TP.BOOL), ())]))
    body_ = oh.make_graph([oh.make_node("Identity", ["ci"], ["co"]), oh.make_node("Add", ["st", "x"], ["so"])], "body",
                          [oh.make_tensor_value_info("it", TP.INT64, []), oh.make_tensor_value_info("ci", TP.BOOL, []), oh.make_tensor_value_info("st", TP.FLOAT, [2])],
                          [oh.make_tensor_value_info("co", TP.BOOL, []), oh.make_tensor_value_info("so", TP.FLOAT, [2])])
    g_ = oh.make_graph([_cn("init", [1.0, 2.0]), oh.make_node("Loop", ["n", "", "init"], ["y"], body=body_)], "loopconst",
                       [oh.make_tensor_value_info("x", TP.FLOAT, [2])], [oh.make_tensor_value_info("y", TP.FLOAT, [2])],
                       [nh_.from_array(np.array(2, dtype=np.int64), "n")])
    items.append(("constuse:loop_state_starts_at_constant", oh.make_model(g_, opset_imports=[oh.make_opsetid("", 18)], ir_version=9).SerializeToString(),
                  [("x", int(TP.FLOAT), (2,))]))
    # a Loop body that hands one state variable on to another one (outputs: cond, a + b, a): the emitted bindings must read every
    # right-hand side before binding any target
    body_ = oh.make_graph([oh.make_node("Identity", ["ci"], ["co"]), oh.make_node("Add", ["a_in", "b_in"], ["s"])], "body",
                          [oh.make_tensor_value_info("it", TP.INT64, []), oh.make_tensor_value_info("ci", TP.BOOL, []),
                           oh.make_tensor_value_info("a_in", TP.FLOAT, [2]), oh.make_tensor_value_info("b_in", TP.FLOAT, [2])],
                          [oh.make_tensor_value_info("co", TP.BOOL, []), oh.make_tensor_value_info("s", TP.FLOAT, [2]), oh.make_tensor_value_info("a_in", TP.FLOAT, [2])])
    g_ = oh.make_graph([oh.make_node("Loop", ["n", "", "x", "y"], ["fa", "fb"], body=body_)], "loopswap",
                       [oh.make_tensor_value_info("x", TP.FLOAT, [2]), oh.make_tensor_value_info("y", TP.FLOAT, [2])],
                       [oh.make_tensor_value_info("fa", TP.FLOAT, [2]), oh.make_tensor_value_info("fb", TP.FLOAT, [2])],
                       [nh_.from_array(np.array(3, dtype=np.int64), "n")])
    m_ = oh.make_model(g_, opset_imports=[oh.make_opsetid("", 18)], ir_version=9)
    try:
        onnx.checker.check_model(m_, full_check=True)
        items.append(("constuse:loop_state_handed_to_another_state", m_.SerializeToString(), [("x", int(TP.FLOAT), (2,)), ("y", int(TP.FLOAT), (2,))]))
    except Exception:  # noqa: BLE001
        pass
    from vp.gen import models as GM
    n_gen = 25 if tier == "quick" else 300
    for i in range(n_gen):
        try:
            m, spec, feats = GM.random_model(common.seed() + 7, i)
        except Exception:  # noqa: BLE001
            continue
        if "sequence" in feats or "function_attr_ref" in feats:
            continue
        try:
            from onnxscript import optimizer
            optimizer.remove_unused_nodes(m)
            m = onnx.shape_inference.infer_shapes(m)
        except Exception:  # noqa: BLE001
            pass
        items.append((f"gen{i}", m.SerializeToString(), [(a, int(b), tuple(c)) for a, b, c in spec]))
    return items


def main(tier: str, only=None) -> int:
    run = common.Run("C13", tier, "translation_validation")
    items = corpus(tier)
    opts = OPTIONS_Q if tier == "quick" else all_options()
    payloads = [(n, mb, spec, o) for (n, mb, spec) in items for o in opts if not only or only in n]
    with cf.ProcessPoolExecutor(max_workers=common.jobs()) as ex:
        results = list(ex.map(_worker, payloads, chunksize=4))
    known = [k for k in common.known_for("C13") if k.get("engine") == "S"]
    counts, solver = {}, {"unsat": 0, "sat": 0, "unknown": 0, "queries": 0, "solver_s": 0.0}
    samples = []

    def report(r, kind, text, rr=None):
        for k in known:
            m = k.get("match", {})
            if m.get("verdict") and m["verdict"] != r["verdict"]:
                continue
            if m.get("option") and not r["options"].get(m["option"]):
                continue
            if m.get("detail_contains") and m["detail_contains"] not in (r.get("detail") or ""):
                continue
            if m.get("model_contains") and not any(mc in r["model"] for mc in m["model_contains"]):
                continue
            if m.get("initializer_input") and not r.get("has_initializer_input"):
                continue
            if m.get("unbound_is_function_attribute") and not any(
                    f"Unbound name: {a}." in (r.get("detail") or "") or f"Unbound name: {a}" == (r.get("detail") or "").strip().split("ERROR: ")[-1].rstrip(".")
                    or f"Cannot use ir.Value '{a}' as an attribute" in (r.get("detail") or "")
                    for a in r.get("function_attribute_names") or []):
                continue
            run.known(k["text"])
            return
        label = f"{r['model']} options={r['options']}"
        path = common.write_replay("C13", rr or {"engine": "S", "harness": "c13." + label, "rebuild": {"kind": "c13"}, "problem": kind,
                                                 "detail": text, "source": r.get("source"), "tb": r.get("tb")})
        run.violation(path, f"{label}: {kind}: {text[:200]}")
    for r in results:
        counts[r["verdict"]] = counts.get(r["verdict"], 0) + 1
        for k, v in (r.get("solver") or {}).items():
            solver[k] = round(solver[k] + v, 3)
        if r.get("functions_not_reattached"):
            counts["functions_not_reattached"] = counts.get("functions_not_reattached", 0) + 1
            r_side = dict(r, verdict="functions_not_reattached", detail=r["functions_not_reattached"])
            report(r_side, "functions_not_reattached", "to_model_proto() of the regenerated script function: " + r["functions_not_reattached"])
        if r["verdict"] in ("export_raised", "invalid_python", "decoration_failed", "export_of_roundtrip_failed", "signature_changed", "malformed",
                            "constant_changed"):
            report(r, r["verdict"], r["detail"])
        elif r["verdict"] == "cex":
            rep = r.get("replay", {})
            if rep.get("reproduced"):
                rr = dict(r["replay_record"])
                rr["harness"] = f"c13.{r['model']}"
                report(r, "value", f"{r['detail']} | {rep.get('difference')}", rr)
            elif r.get("uf"):
                counts["cex_not_reproduced_uf"] = counts.get("cex_not_reproduced_uf", 0) + 1
            else:
                run.harness_error(f"{r['model']} {r['options']}: counterexample does not reproduce ({r['detail']})")
        elif r["verdict"] == "unknown":
            run.note_inconclusive(f"{r['model']} {r['options']}: solver unknown")
        if len(samples) < 8 and r["verdict"] in ("equiv", "equiv_tol"):
            samples.append({"model": r["model"], "options": r["options"], "verdict": r["verdict"], "source_head": (r.get("source") or "")[:400]})
    try:
        import vp.harness.c13x  # noqa: F401
        xh.run_obligations(run, ["vp.harness.c13x"], tier, only)
    except ModuleNotFoundError:
        pass
    from onnxscript.backend import onnx_export
    run.coverage.update({
        "programs": len(items), "disagreements_checked": counts.get("cex", 0),
        "samples": (run.coverage.get("samples") or []) + (samples or [{"note": "no equivalent round trip in this run"}]),
        "model_option_pairs": len(results), "evaluations": len(results) + run.coverage.get("evaluations", 0),
        "distinct_nontrivial": counts.get("equiv", 0) + counts.get("equiv_tol", 0) + run.coverage.get("distinct_nontrivial", 0),
        "verdicts": counts, "queries": solver, "options": opts,
        "functions_encoded": [common.src_ref(onnx_export.export2python), common.src_ref(onnx_export._Exporter)],
    })
    run.assumptions += ["skip_initializers=True: the generated make_model() is called with the original values of the skipped initializers and its result compared like the others",
                        "models: typed variants of the script corpus + tensor-typed generated models without sequences / local functions"]
    return run.finish()
