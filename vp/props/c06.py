"""C06 — the pattern matcher reports a match exactly when the subgraph is an instance."""
from vp import common, xh


def main(tier, only=None):
    run = common.Run("C06", tier, "other")
    run.coverage["explanation"] = (
        "CrossHair/z3 symbolic execution of the real Pattern.match / SimplePatternMatcher (format cut) on nine structure classes "
        "(chain with attribute constant and removability, repeated variable, numeric constant with tolerance and rank/graph-input "
        "conditions, attribute variables and allow_other_attributes in three settings, allow_other_inputs in three settings, "
        "OR alternatives with tag, two-output patterns, commute=True vs plain vs non-commutative op, three-node pattern with shared "
        "variable). Per class the host LEAVES are symbolic (op-type/domain indices over an alphabet with 'other', unbounded attribute "
        "ints, symbolic constant value, sharing/consumer/graph-output booleans); the match verdict and the bindings must equal a "
        "declarative spec of 'is an instance'. Structure classes (pattern shape, host wiring) are enumerated."
    )
    run.assumptions += ["host wiring is fixed per class (<=3 host nodes); leaves are symbolic", "const_value replaced by a stub carrying a symbolic float"]
    xh.run_obligations(run, ["vp.harness.c06"], tier, only)
    return run.finish()
