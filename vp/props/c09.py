"""C09 — shape-based simplifications hold for every runtime binding of symbolic dims.

(S) Host models (rulehosts + dedicated shape-computation models) are re-declared with symbolic input
dims (shared names, distinct names for equal sizes, unnamed dims, leading-dim-only); optimize() runs
ONCE per declared model; then for every binding of the symbols to {0,1,2,3,7} both the original and the
optimized model are interpreted at the bound shapes and z3 decides equality for all input values;
a binding on which exactly one of the two fails is a counterexample ("accepts exactly the same inputs").
(X) lemmas on the shape predicates live in vp/harness/c09x.py when present.
"""
from __future__ import annotations

import concurrent.futures as cf
import copy
import itertools
import random

import numpy as np
import onnx
import onnx_ir as ir
from onnx import TensorProto as TP
from onnx import helper as oh
from onnx import numpy_helper as nh

from vp import common
from vp.props import c03 as C3
from vp.props import optcommon as OC

VALUES = [0, 1, 2, 3, 7]


MODES = ["shared", "distinct", "unnamed", "lead", "lead_unnamed", "lead_distinct", "distinct_keep1", "unnamed_vi", "lead_unnamed_vi", "trail"]


def redeclare(mb: bytes, spec, mode: str):
    """-> (model bytes with symbolic input dims, symspec {input: [dim names/ints]}, symbols {name: original size})"""
    m = onnx.load_from_string(mb)
    del m.graph.value_info[:]
    symbols: dict = {}
    symspec = {}
    by_size: dict = {}
    for inp in m.graph.input:
        tt = inp.type.tensor_type
        dims = []
        for ax, d in enumerate(tt.shape.dim):
            size = d.dim_value
            if mode == "shared":
                name = by_size.setdefault(size, f"S{len(by_size)}")
            elif mode == "distinct":
                name = f"D{len(symbols)}"
            elif mode in ("unnamed", "unnamed_vi"):
                name = f"?{len(symbols)}"
            elif mode == "lead":
                name = by_size.setdefault(size, f"N{len(by_size)}") if ax == 0 else None
            elif mode in ("lead_unnamed", "lead_unnamed_vi"):
                name = f"?{len(symbols)}" if ax == 0 else None
            elif mode == "lead_distinct":
                # a fresh symbol per leading dim; dims of size 1 stay static (rules reason from a known 1)
                name = f"L{len(symbols)}" if ax == 0 and size != 1 else None
            elif mode == "trail":
                # only the LAST axis is symbolic (leading dims stay static)
                name = f"T{len(symbols)}" if ax == len(tt.shape.dim) - 1 else None
            elif mode == "distinct_keep1":
                name = f"K{len(symbols)}" if size != 1 else None
            else:
                raise ValueError(mode)
            if name is None:
                dims.append(size)
                continue
            symbols.setdefault(name, size)
            dims.append(name)
        symspec[inp.name] = dims
        del tt.shape.dim[:]
        for dn in dims:
            nd = tt.shape.dim.add()
            if isinstance(dn, int):
                nd.dim_value = dn
            elif not dn.startswith("?"):
                nd.dim_param = dn
    # graph inputs with initializers keep their concrete declared shape
    inits = {t.name: t for t in m.graph.initializer}
    for inp in m.graph.input:
        if inp.name in inits:
            arr = nh.to_array(inits[inp.name])
            tt = inp.type.tensor_type
            del tt.shape.dim[:]
            for s in arr.shape:
                tt.shape.dim.add().dim_value = s
            symspec[inp.name] = list(arr.shape)
    used = {d for dims in symspec.values() for d in dims if isinstance(d, str)}
    symbols = {k: v for k, v in symbols.items() if k in used}
    for o in m.graph.output:
        if o.type.HasField("tensor_type"):
            et = o.type.tensor_type.elem_type
            o.type.Clear()
            o.type.tensor_type.elem_type = et
    try:
        m = onnx.shape_inference.infer_shapes(m, strict_mode=False, data_prop=True)
    except Exception:  # noqa: BLE001
        pass
    if mode.endswith("_vi"):
        # intermediate annotations with ANONYMOUS unknown dims (what a model carries when its annotations were written by a
        # tool that does not invent names): the generated 'unk__N' names are removed again
        for v in list(m.graph.value_info) + list(m.graph.output):
            if v.type.HasField("tensor_type") and v.type.tensor_type.HasField("shape"):
                for d in v.type.tensor_type.shape.dim:
                    if d.dim_param.startswith("unk__"):
                        d.ClearField("dim_param")
    return m.SerializeToString(), symspec, symbols


def shape_models():
    """dedicated models mixing data ops with shape computations (declared with concrete shapes; redeclare() lifts them)"""
    from vp.props.rulehosts import H
    F, I64 = TP.FLOAT, TP.INT64
    out = []
    for xs in [(2, 3), (3,), (2, 3, 2)]:
        r = len(xs)
        h = H(f"Expand(y, Shape(x)) x={list(xs)}")
        h.inp("x", F, xs)
        h.inp("y", F, xs[-1:])
        h.n("Shape", ["x"], "s")
        h.n("Expand", ["y", "s"], "e")
        h.n("Add", ["e", "x"], "z")
        h.out("z")
        out.append(h.build())
        h = H(f"Reshape(x, Shape(y)) same shapes x={list(xs)}")
        h.inp("x", F, xs)
        h.inp("y", F, xs)
        h.n("Shape", ["y"], "s")
        h.n("Reshape", ["x", "s"], "z")
        h.out("z")
        out.append(h.build())
        h = H(f"Reshape(x, Concat(Shape(x)[0:1], [-1])) x={list(xs)}")
        h.inp("x", F, xs)
        h.n("Shape", ["x"], "s", start=0, end=1)
        h.c("m1", np.array([-1], dtype=np.int64))
        h.n("Concat", ["s", "m1"], "t", axis=0)
        h.n("Reshape", ["x", "t"], "z")
        h.out("z")
        out.append(h.build())
        h = H(f"Slice(x, 0, Shape(x)[0]) x={list(xs)}")
        h.inp("x", F, xs)
        h.n("Shape", ["x"], "s", start=0, end=1)
        h.c("z0", np.array([0], dtype=np.int64))
        h.c("ax", np.array([0], dtype=np.int64))
        h.n("Slice", ["x", "z0", "s", "ax"], "y")
        h.n("Neg", ["y"], "z")
        h.out("z")
        out.append(h.build())
        h = H(f"Mul(x, Cast(Size(x))) and Abs(Shape) x={list(xs)}")
        h.inp("x", F, xs)
        h.n("Size", ["x"], "n")
        h.n("Cast", ["n"], "nf", to=F)
        h.n("Mul", ["x", "nf"], "y")
        h.n("Shape", ["x"], "s")
        h.n("Abs", ["s"], "sa")
        h.n("Cast", ["sa"], "sf", to=F)
        h.n("ReduceSum", ["sf"], "t", keepdims=0)
        h.n("Add", ["y", "t"], "z")
        h.out("z")
        out.append(h.build())
        h = H(f"Expand(x, const shape of x) x={list(xs)}")
        h.inp("x", F, xs)
        h.c("s", np.array(xs, dtype=np.int64))
        h.n("Expand", ["x", "s"], "y")
        h.out("y")
        out.append(h.build())
        h = H(f"Reshape(x, const shape of x) x={list(xs)}")
        h.inp("x", F, xs)
        h.c("s", np.array(xs, dtype=np.int64))
        h.n("Reshape", ["x", "s"], "y")
        h.out("y")
        out.append(h.build())
        h = H(f"Add(e, e) with e = Expand(x, Shape(y)) x,y={list(xs)}")
        h.inp("x", F, xs)
        h.inp("y", F, xs)
        h.n("Shape", ["y"], "s")
        h.n("Expand", ["x", "s"], "e")
        h.n("Add", ["e", "e"], "z")
        h.out("z")
        out.append(h.build())
        h = H(f"Reshape(x, Shape(y)) then Neg x,y={list(xs)}")
        h.inp("x", F, xs)
        h.inp("y", F, xs)
        h.n("Shape", ["y"], "s")
        h.n("Reshape", ["x", "s"], "r")
        h.n("Neg", ["r"], "z")
        h.out("z")
        out.append(h.build())
        h = H(f"Add(Expand(x, Shape(y)), y) x,y={list(xs)}")
        h.inp("x", F, xs)
        h.inp("y", F, xs)
        h.n("Shape", ["y"], "s")
        h.n("Expand", ["x", "s"], "e")
        h.n("Add", ["e", "y"], "z")
        h.out("z")
        out.append(h.build())
        h = H(f"Concat(x, zero-size?) x={list(xs)}")
        h.inp("x", F, xs)
        h.inp("y", F, xs)
        h.n("Concat", ["x", "y"], "c", axis=0)
        h.n("Shape", ["c"], "s", start=0, end=1)
        h.n("Cast", ["s"], "sf", to=F)
        h.n("Mul", ["c", "sf"], "z")
        h.out("z")
        out.append(h.build())
        if r >= 2:
            h = H(f"ScatterND full range x={list(xs)}")
            h.inp("x", F, xs)
            h.inp("u", F, xs)
            h.c("i", np.arange(xs[0], dtype=np.int64).reshape(-1, 1))
            h.n("ScatterND", ["x", "i", "u"], "y")
            h.out("y")
            out.append(h.build())
            h = H(f"Gather(Shape(x), 1) into Reshape x={list(xs)}")
            h.inp("x", F, xs)
            h.n("Shape", ["x"], "s")
            h.c("i1", np.array([1], dtype=np.int64))
            h.n("Gather", ["s", "i1"], "d1")
            h.c("m1", np.array([-1], dtype=np.int64))
            h.n("Concat", ["m1", "d1"], "t", axis=0)
            h.n("Reshape", ["x", "t"], "y")
            h.out("y")
            out.append(h.build())
    # shape values going through a Cast to another integer / float type before Gather / Slice / Concat pick static dims
    for to, tname in ((TP.INT32, "int32"), (TP.INT64, "int64"), (TP.FLOAT, "float")):
        for pick in ("gather1d", "gather0d", "slice"):
            xs = (2, 4)
            h = H(f"{pick}(Cast<{tname}>(Shape(x))) x={list(xs)}")
            h.inp("x", F, xs)
            h.inp("k", to, (2,))
            h.n("Shape", ["x"], "s")
            h.n("Cast", ["s"], "sc", to=to)
            if pick == "gather1d":
                h.c("i", np.array([1], dtype=np.int64))
                h.n("Gather", ["sc", "i"], "d", axis=0)
            elif pick == "gather0d":
                h.c("i", np.array(1, dtype=np.int64))
                h.n("Gather", ["sc", "i"], "d", axis=0)
            else:
                h.c("b", np.array([1], dtype=np.int64))
                h.c("e", np.array([2], dtype=np.int64))
                h.n("Slice", ["sc", "b", "e"], "d")
            h.n("Mul", ["k", "d"], "y")
            h.out("y")
            out.append(h.build())
    # the WHOLE shape tensor goes through a rank-changing operator (Unsqueeze / stacked rows / column view) before it is indexed: a
    # symbolic shape value describes a 1-D tensor and must not survive the change of rank
    for xs, ys in [((2, 4), (3, 5)), ((1, 4), (2, 5))]:
        h = H(f"stacked shape table: Gather(Concat(Unsqueeze(Shape(x)), Unsqueeze(Shape(y))), [1]) -> Reshape [-1] -> Expand x={list(xs)} y={list(ys)}")
        h.inp("x", F, xs)
        h.inp("y", F, ys)
        h.n("Shape", ["x"], "sx")
        h.n("Shape", ["y"], "sy")
        h.c("zero", np.array([0], dtype=np.int64))
        h.n("Unsqueeze", ["sx", "zero"], "ux")
        h.n("Unsqueeze", ["sy", "zero"], "uy")
        h.n("Concat", ["ux", "uy"], "table", axis=0)
        h.c("one", np.array([1], dtype=np.int64))
        h.n("Gather", ["table", "one"], "row", axis=0)
        h.c("flat", np.array([-1], dtype=np.int64))
        h.n("Reshape", ["row", "flat"], "r")
        h.n("Expand", ["y", "r"], "z")
        h.out("z", "r")
        h.out_types = {"r": (I64, [2])}
        out.append(h.build())
        for ax, gi in ((1, 0), (0, 0), (1, 1)):
            h = H(f"column / row view of a shape: Gather(Unsqueeze(Shape(x), [{ax}]), [{gi}]) x={list(xs)}")
            h.inp("x", F, xs)
            h.inp("k", I64, (1,))
            h.n("Shape", ["x"], "sx")
            h.c("ax", np.array([ax], dtype=np.int64))
            h.n("Unsqueeze", ["sx", "ax"], "col")
            h.c("gi", np.array([gi], dtype=np.int64))
            h.n("Gather", ["col", "gi"], "g", axis=0)
            h.n("Mul", ["g", "k"], "y")
            h.out("y")
            h.out_types = {"y": (I64, None)}
            out.append(h.build())
    # a constant index that is out of range for the shape value: the model fails at run time whatever the input, but it is a
    # valid model and the optimizer has to return (leaving the node alone)
    for idx in ([3], [-4], [1, 5]):
        h = H(f"Gather(Shape(x), {idx}) index out of range x=[2, 4, 3]")
        h.inp("x", F, (2, 4, 3))
        h.inp("k", I64, (len(idx),))
        h.n("Shape", ["x"], "s")
        h.c("i", np.array(idx, dtype=np.int64))
        h.n("Gather", ["s", "i"], "d", axis=0)
        h.n("Mul", ["d", "k"], "y")
        h.out_types = {"y": (I64, [len(idx)])}
        h.out("y")
        out.append(h.build())
    # arithmetic on shape values: Abs may be dropped only where the value is known to be non-negative
    for xs in [(2, 4), (3,)]:
        for delta, opn in ((-3, "Add"), (3, "Sub"), (1, "Add"), (-1, "Mul")):
            h = H(f"Abs({opn}(Shape(x)[0:1], [{delta}])) x={list(xs)}")
            h.inp("x", F, xs)
            h.inp("k", I64, (1,))
            h.n("Shape", ["x"], "s", start=0, end=1)
            h.c("d", np.array([delta], dtype=np.int64))
            h.n(opn, ["s", "d"], "a")
            h.n("Abs", ["a"], "b")
            h.n("Mul", ["b", "k"], "y")
            h.out("y")
            out.append(h.build())
    # a shape value (1-D) that changes rank: reshaped to a column / row / scalar before static dims are picked out of it
    for xs in [(2, 3, 4), (2, 3)]:
        r = len(xs)
        for tgt, tname in (([r, 1], "column"), ([1, r], "row"), ([-1], "flat"), ([1, 1, r], "rank3")):
            for idx in ([1], [0]):
                h = H(f"Gather(Reshape(Shape(x), {tname}), {idx}) x={list(xs)}")
                h.inp("x", F, xs)
                h.inp("k", I64, (1,))
                h.n("Shape", ["x"], "s")
                h.c("t", np.array(tgt, dtype=np.int64))
                h.n("Reshape", ["s", "t"], "rs")
                h.c("i", np.array(idx, dtype=np.int64))
                h.n("Gather", ["rs", "i"], "d", axis=0)
                h.n("Mul", ["d", "k"], "y")
                h.out("y")
                out.append(h.build())
        h = H(f"Add(Squeeze(Shape(x)[1:2]), k) x={list(xs)}")
        h.inp("x", F, xs)
        h.inp("k", I64, ())
        h.n("Shape", ["x"], "s", start=1, end=2)
        h.c("ax", np.array([0], dtype=np.int64))
        h.n("Squeeze", ["s", "ax"], "sq")
        h.n("Add", ["sq", "k"], "y")
        h.out("y")
        out.append(h.build())
    return [(mb, spec, "shape: " + tag, ["shape"]) for mb, spec, tag in out]


def _worker(payload):
    mb, symspec, symbols, tag, tier = payload
    from vp.symonnx import equiv as Q
    from vp.symonnx import interp as I
    from vp.symonnx.values import DT, Malformed, NotEncoded, fresh
    from onnxscript import optimizer
    stats = Q.Stats()
    mp = onnx.load_from_string(mb)
    out = {"model": tag, "features": ["symbolic"], "ops": sorted({n.op_type for n in mp.graph.node}), "records": [], "error": None,
           "symbols": symbols, "symspec": symspec}
    try:
        new = optimizer.optimize(copy.deepcopy(mp))
    except Exception as e:  # noqa: BLE001
        out["records"].append({"transformation": "optimize(proto)", "verdict": "exception", "detail": f"{type(e).__name__}: {str(e)[:200]}"})
        out["solver"] = stats.as_dict()
        return out
    new_bytes, orig_bytes = new.SerializeToString(), mp.SerializeToString()
    out["changed"] = new_bytes != orig_bytes
    # the declared input types (symbolic dims included) decide which inputs a runtime accepts: they must be untouched
    def _show(i):
        tt = i.type.tensor_type
        dims = [(d.dim_param or "?") if not d.HasField("dim_value") else d.dim_value for d in tt.shape.dim] if tt.HasField("shape") else None
        return (i.name, tt.elem_type, dims)
    sig_a = [_show(i) for i in mp.graph.input]
    sig_b = [_show(i) for i in new.graph.input]
    if [(n, i.type.SerializeToString(deterministic=True)) for n, i in zip([x.name for x in mp.graph.input], mp.graph.input)] != \
       [(n, i.type.SerializeToString(deterministic=True)) for n, i in zip([x.name for x in new.graph.input], new.graph.input)]:
        out["input_signature_changed"] = f"{sig_a} -> {sig_b}"
    names = sorted(symbols)
    bindings = list(itertools.product(VALUES, repeat=len(names)))
    if tier == "quick" and len(bindings) > 30:
        r = random.Random(hash(tag) & 0xFFFF)
        keep = [tuple(symbols[n] for n in names)] + [b for b in bindings if len(set(b)) == 1]
        r.shuffle(bindings)
        bindings = list(dict.fromkeys(keep + bindings[:20]))
    dts = {i.name: i.type.tensor_type.elem_type for i in mp.graph.input}
    for b in bindings:
        env = dict(zip(names, b))
        spec = [(n, dts[n], tuple(env[d] if isinstance(d, str) else d for d in dims)) for n, dims in symspec.items()]
        rec = OC.check_model_pair(mp, spec, f"optimize(proto) @ {env}", None, stats, want_sides=False, new=new, skip_if_first_fails=False)
        rec["binding"] = env
        if rec.get("replay_record"):
            rec["replay_record"]["binding"] = env
        out["records"].append(rec)
    out["solver"] = stats.as_dict()
    return out


def main(tier: str, only=None) -> int:
    run = common.Run("C09", tier, "translation_validation")
    from vp.props import rulehosts as RH
    hosts = shape_models() + [h for h in RH.all_hosts(tier) if h[3][0] in ("expand", "reshape_family", "slices", "scatter", "identity_ops", "matmul_gemm", "casts", "shape_attrs")]
    r = random.Random(common.seed())
    if tier == "quick":
        by = {}
        for h in hosts:
            by.setdefault(h[3][0], []).append(h)
        hosts = []
        for fam, hs in by.items():
            if fam != "shape":
                r.shuffle(hs)
                keep_ = [h for h in hs if ": Expand x=" in h[2]]   # plain Expand hosts: one per input/target shape pair
                hs = keep_ + [h for h in hs if h not in keep_][:40]
            hosts += hs
    payloads = []
    for mb, spec, tag, fams in hosts:
        try:
            onnx.checker.check_model(onnx.load_from_string(mb))
        except Exception:  # noqa: BLE001
            continue
        modes = MODES if (tier == "thorough" or fams[0] == "shape" or "full-range idiom" in tag or ": Expand x=" in tag) else [r.choice(MODES)]
        for mode in modes:
            smb, symspec, symbols = redeclare(mb, spec, mode)
            if not symbols or len(symbols) > 4:
                continue
            if only and only not in tag:
                continue
            payloads.append((smb, symspec, symbols, f"{tag} [{mode}]", tier))
    with cf.ProcessPoolExecutor(max_workers=common.jobs()) as ex:
        results = list(ex.map(_worker, payloads, chunksize=2))
    counts, solver, samples, n_pairs, n_changed, uf_models, side = C3.aggregate(run, results, "C09", want_value=True, want_sides=False)
    n_sig = 0
    for r_ in results:
        if r_.get("input_signature_changed"):
            n_sig += 1
            path = common.write_replay("C09", {"engine": "S", "harness": f"c09.{r_['model']}.signature", "rebuild": {"kind": "side", "transformation": "optimize(proto)"},
                                               "model": r_["model"], "problem": "declared input types changed", "detail": r_["input_signature_changed"]})
            run.violation(path, f"{r_['model']}: optimize() changed the declared graph inputs: {r_['input_signature_changed'][:260]}")
    n_exc = sum(1 for r_ in results for rec in r_["records"] if rec["verdict"] == "exception")
    for r_ in results:
        for rec in r_["records"]:
            if rec["verdict"] == "exception":
                # optimize() has to return on every valid model (C04's clause, met here on a symbolically declared model)
                path = common.write_replay("C09", {"engine": "S", "harness": f"c09.{r_['model']}.exception", "rebuild": {"kind": "side", "transformation": "optimize(proto)"},
                                                   "model": r_["model"], "problem": "optimize() raised", "detail": rec.get("detail")})
                run.violation(path, f"{r_['model']}: optimize() raised on a valid model: {str(rec.get('detail'))[:200]}")
    both_fail = sum(1 for r_ in results for rec in r_["records"] if rec.get("both_fail"))
    run.coverage.update({
        "programs": len(results), "disagreements_checked": counts.get("cex", 0),
        "samples": [{"model": r_["model"], "symbols": r_.get("symbols"), "symspec": r_.get("symspec"), "changed": r_.get("changed"),
                     "bindings": len(r_["records"]), "verdicts": sorted({rec["verdict"] for rec in r_["records"]})} for r_ in results[:12]],
        "model_binding_pairs": n_pairs, "evaluations": n_pairs, "distinct_nontrivial": sum(1 for r_ in results if r_.get("changed")),
        "verdicts": counts, "queries": solver, "bindings_where_both_models_fail": both_fail, "optimize_exceptions": n_exc,
        "binding_values": VALUES, "models_with_changed_declared_inputs": n_sig,
    })
    if not only or only.startswith("c09.lemma") or only == "lemma":
        from vp import xh
        xh.run_side_obligations(run, ["vp.harness.c09_lemmas"], tier, only if only and only != "lemma" else None, "predicate_lemmas",
                                "CrossHair (z3) on the current source of the shape predicates and partial evaluators that justify the simplifications "
                                "(_same_shape, _ir_utils.same_shape / same_dim, the Expand and Reshape evaluators, _merge_shapes): dim kinds by a bounded "
                                "symbolic index, static dims and runtime values of symbols / anonymous dims unbounded symbolic integers -- every binding, not five")
    run.assumptions += ["one optimize() per declared model, many bindings per optimized model", "symbols bound to {0,1,2,3,7}; <=4 symbols per model",
                        "floats as reals; a binding on which exactly one model fails counts as a counterexample"]
    return run.finish()
