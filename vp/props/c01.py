"""C01 — script functions mean the same eagerly, as an ONNX graph, and as plain Python.

Per program and input-shape assignment: the real eager path (OnnxFunction.__call__, autocast,
Tensor overloads; CPython runs the control flow) is executed over symbolic tensors, forking on every
tensor->bool/int conversion; the protos emitted by the real converter are interpreted by symonnx; z3
decides, per eager path, that the outputs agree for ALL input values (within the unrolling bound).
"""
from __future__ import annotations

import base64
import concurrent.futures as cf
import json
import os
import time
import traceback

from vp import common

LEVEL = "translation_validation"


def _case_worker(payload):
    prog, tier, loop_bound = payload
    import onnx
    from vp.symonnx import equiv as Q
    from vp.symonnx import replay as R
    from vp.symonnx import scripts as S
    from vp.symonnx.values import DT, Malformed, NotEncoded

    out = {"program": prog.name, "tags": list(prog.tags), "cases": [], "refused": None, "error": None, "src": prog.src}
    t0 = time.time()
    try:
        mod = S.load_source(S.HEADER + prog.src, "c01")
        fn = getattr(mod, prog.entry)
    except Exception as e:  # noqa: BLE001 - refusal at decoration time is allowed by the property
        out["refused"] = f"{type(e).__name__}: {str(e)[:200]}"
        return out
    stats = Q.Stats()
    for spec in prog.specs:
        for attrs in prog.attrs:
            legs = []
            try:
                if not attrs:
                    try:
                        legs.append(("model", fn.to_model_proto()))
                    except Exception as e:  # noqa: BLE001
                        out["cases"].append({"leg": "model", "verdict": "refused_at_export", "detail": f"{type(e).__name__}: {str(e)[:200]}"})
                types = [int(dt) for _, dt, _ in spec]
                legs.append(("function", S.call_model(fn, attrs, types)))
            except Exception as e:  # noqa: BLE001
                out["cases"].append({"leg": "function", "verdict": "refused_at_export", "detail": f"{type(e).__name__}: {str(e)[:200]}"})
            for leg, mp in legs:
                case = {"leg": leg, "spec": [(n, dt.name, list(sh)) for n, dt, sh in spec], "attrs": attrs}
                try:
                    v, info = S.check_eager_vs_model(fn, mp, spec, attrs, stats, loop_bound=loop_bound)
                    case.update(verdict=v["verdict"], detail=v.get("detail", ""), kind=v.get("kind"), **info)
                    if v["verdict"] == "cex":
                        case["inputs"] = v.get("inputs")
                        feeds = R.np_inputs({v["input_names"].get(k, k): r for k, r in (v.get("inputs") or {}).items()}) if v.get("inputs") else None
                        if feeds is None:
                            # structural difference independent of values: use zeros
                            import numpy as np
                            feeds = {n: np.zeros(sh, dtype=dt.numpy()) for n, dt, sh in spec}
                        gfeeds = {gn: feeds[n] for gn, n in v.get("input_names", {}).items()} if v.get("input_names") else feeds
                        # model input names may differ from parameter names
                        rep = R.replay_script(S.HEADER + prog.src, prog.entry, [n for n, _, _ in spec],
                                              {**feeds, **gfeeds}, attrs, mp.SerializeToString(), tag="c01r")
                        if not rep["reproduced"] and v.get("kind") == "operator-correspondence":
                            # the symbolic semantics is over the reals: a different operator can only show on the special values;
                            # replay on the real code with NaN / +-inf / mixed values in every float input
                            import itertools
                            import numpy as np
                            specials = [np.nan, np.inf, -np.inf, 0.0, 1.0, -1.0]
                            for trial in range(12):
                                sf = {}
                                for k_, (n, dt, sh) in enumerate(spec):
                                    a = np.zeros(sh, dtype=dt.numpy())
                                    if a.dtype.kind == "f":
                                        flat = a.reshape(-1)
                                        for j in range(flat.size):
                                            flat[j] = specials[(trial + 2 * j + 3 * k_) % len(specials)]
                                    elif a.dtype.kind == "b":
                                        a[...] = (trial % 2 == 0)
                                    else:
                                        a[...] = (trial % 3) - 1
                                    sf[n] = a
                                sg = {gn: sf[n] for gn, n in v.get("input_names", {}).items()} if v.get("input_names") else sf
                                rep2 = R.replay_script(S.HEADER + prog.src, prog.entry, [n for n, _, _ in spec],
                                                       {**sf, **sg}, attrs, mp.SerializeToString(), tag="c01r")
                                if rep2["reproduced"]:
                                    rep, feeds = rep2, sf
                                    break
                        if not rep["reproduced"]:
                            # operators modelled by uninterpreted functions (Pow with a non-integral exponent, Exp, ...) give
                            # counterexamples whose solver inputs need not separate the real functions: retry on seeded inputs
                            import numpy as np
                            rr_ = np.random.default_rng(common.seed() + 17)
                            for trial in range(8):
                                sf = {}
                                for n, dt, sh in spec:
                                    a = np.zeros(sh, dtype=dt.numpy())
                                    if a.dtype.kind == "f":
                                        a[...] = rr_.choice([0.5, 1.5, 2.0, 3.0, -1.5, 4.0, 0.25], size=a.shape)
                                    elif a.dtype.kind == "b":
                                        a[...] = rr_.integers(0, 2, size=a.shape).astype(bool)
                                    else:
                                        a[...] = rr_.integers(-3, 6, size=a.shape)
                                    sf[n] = a
                                sg = {gn: sf[n] for gn, n in v.get("input_names", {}).items()} if v.get("input_names") else sf
                                rep2 = R.replay_script(S.HEADER + prog.src, prog.entry, [n for n, _, _ in spec],
                                                       {**sf, **sg}, attrs, mp.SerializeToString(), tag="c01r")
                                if rep2["reproduced"]:
                                    rep, feeds = rep2, sf
                                    case["replay_inputs_sampled"] = True
                                    break
                        case["replay"] = {k: rep[k] for k in ("reproduced", "difference", "eager_err", "graph_err")}
                        case["replay_record"] = {
                            "engine": "S", "harness": f"c01.{prog.name}.{leg}",
                            "inputs": {n: {"dtype": dt.name, "shape": list(sh), "values": feeds[n].tolist()} for n, dt, sh in spec},
                            "rebuild": {"kind": "script", "source": S.HEADER + prog.src, "entry": prog.entry,
                                        "order": [n for n, _, _ in spec], "attrs": attrs,
                                        "model_b64": base64.b64encode(mp.SerializeToString()).decode()},
                            "observed": rep, "detail": v.get("detail"),
                        }
                except NotEncoded as e:
                    case.update(verdict="not_encoded", detail=str(e)[:200])
                except Malformed as e:
                    case.update(verdict="malformed", detail=str(e)[:300])
                except Exception as e:  # noqa: BLE001
                    case.update(verdict="harness_error", detail=f"{type(e).__name__}: {e}", tb=traceback.format_exc()[-1500:])
                out["cases"].append(case)
    out["solver"] = stats.as_dict()
    out["wall_s"] = round(time.time() - t0, 2)
    return out


def programs_for(tier: str):
    from vp.gen import scripts as G
    progs = list(G.CORE)
    n = 150 if tier == "quick" else 3000
    progs += G.random_programs(common.seed(), n)
    return progs


def main(tier: str, only=None) -> int:
    run = common.Run("C01", tier, LEVEL)
    loop_bound = 3 if tier == "quick" else 4
    progs = programs_for(tier)
    if only:
        progs = [p for p in progs if only in p.name]
    from vp.symonnx import selftest
    # translator validation (cached per run): ONNX node tests through the symbolic rules
    st = selftest.node_tests(limit=None if tier == "thorough" else 250)
    run.coverage["translator_validation"] = {k: (v if k != "failed" else v[:20]) for k, v in st.items()}
    if st["failed"]:
        run.harness_error(f"symonnx self-test failed: {st['failed'][:5]}")
        return run.finish()

    results = []
    with cf.ProcessPoolExecutor(max_workers=common.jobs()) as ex:
        for r in ex.map(_case_worker, [(p, tier, loop_bound) for p in progs], chunksize=4):
            results.append(r)

    known = [k for k in common.known_for("C01") if k.get("engine") == "S"]
    counts = {"equiv": 0, "equiv_tol": 0, "cex": 0, "unknown": 0, "not_encoded": 0, "malformed": 0, "refused_at_export": 0,
              "harness_error": 0}
    solver = {"unsat": 0, "sat": 0, "unknown": 0, "queries": 0, "solver_s": 0.0}
    refused, samples, n_cases, n_nontrivial, eager_paths, cut = [], [], 0, 0, 0, 0
    for r in results:
        if r["refused"]:
            refused.append((r["program"], r["refused"]))
            if "random" not in r["tags"]:
                run.note_inconclusive(f"core program {r['program']} refused at decoration: {r['refused']}")
            continue
        for k, v in r.get("solver", {}).items():
            solver[k] = round(solver[k] + v, 3)
        for c in r["cases"]:
            n_cases += 1
            counts[c["verdict"]] = counts.get(c["verdict"], 0) + 1
            eager_paths += c.get("eager_paths", 0)
            cut += c.get("cut", 0)
            if c.get("eager_paths", 0) > 1:
                n_nontrivial += 1
            if c["verdict"] == "cex":
                rep = c.get("replay", {})
                if rep.get("reproduced"):
                    kf = next((k for k in known if k.get("program") == r["program"] and k.get("leg", c["leg"]) == c["leg"]), None)
                    if kf:
                        run.known(kf["text"])
                    else:
                        path = common.write_replay("C01", c["replay_record"])
                        run.violation(path, f"{r['program']} leg={c['leg']} {rep.get('difference','')[:160]}")
                elif c.get("kind") == "operator-correspondence":
                    # different operators, but no observable difference on finite or special values
                    run.note_inconclusive(f"{r['program']} leg={c['leg']}: {c.get('detail')} - no value difference observed on NaN/inf replays")
                else:
                    run.harness_error(f"{r['program']} leg={c['leg']}: counterexample does not reproduce on the real code "
                                      f"({c.get('detail')}; inputs {json.dumps(c.get('inputs'))[:300]})")
            elif c["verdict"] == "malformed":
                path = common.write_replay("C01", {"engine": "S", "harness": f"c01.{r['program']}", "rebuild": {"kind": "malformed"},
                                                   "source": r["src"], "detail": c["detail"]})
                run.violation(path, f"{r['program']}: emitted proto is malformed: {c['detail']}")
            elif c["verdict"] == "harness_error":
                run.harness_error(f"{r['program']} {c['leg']}: {c['detail']} {c.get('tb','')[-600:]}")
            elif c["verdict"] == "unknown":
                run.note_inconclusive(f"{r['program']} {c['leg']}: solver unknown/timeout")
        if len(samples) < 12:
            samples.append({"program": r["program"], "source": r["src"], "cases": [
                {k: c.get(k) for k in ("leg", "spec", "attrs", "verdict", "eager_paths", "cut", "graph_splits")} for c in r["cases"][:4]],
                "solver": r.get("solver")})
    from vp.symonnx import eager as E, interp as I, ops as O
    from onnxscript._internal import converter, evaluator, autocast, values as osv
    from onnxscript import tensor as ost
    run.coverage.update({
        "programs": len(progs) - len(refused),
        "disagreements_checked": counts.get("cex", 0),
        "samples": samples,
        "cases": n_cases, "evaluations": n_cases, "distinct_nontrivial": n_nontrivial,
        "verdicts": counts, "queries": solver, "solver_s": solver["solver_s"],
        "eager_paths": eager_paths, "eager_paths_cut_by_bound": cut,
        "refused_at_decoration": len(refused), "refused_samples": refused[:8],
        "bounds": {"loop_unroll": loop_bound, "rank": "<=3", "dims": "<=3", "float_box": 64, "int_box": 2**20},
        "functions_encoded": [common.src_ref(converter.Converter), common.src_ref(evaluator.BaseEvaluator.eval_function),
                              common.src_ref(evaluator.BaseEvaluator.eval_op), common.src_ref(autocast.cast_inputs),
                              common.src_ref(ost.Tensor), common.src_ref(osv.OnnxFunction)],
        "ops_encoded": len(O.OPS),
    })
    run.assumptions += [
        "floats as reals, int64 as unbounded ints: NaN/inf/overflow/rounding outside the claim",
        f"loops unrolled {loop_bound} times with an unwinding assumption; eager paths beyond the bound are cut and counted",
        "transcendental ops are uninterpreted functions",
        "program structure is enumerated (core corpus + seeded random grammar); input values are decided by z3",
    ]
    return run.finish()
