"""C20 — save_model_with_external_data (narrow claim; see DESIGN.md §5 C20)."""
from vp import common, xh


def main(tier, only=None):
    run = common.Run("C20", tier, "other")
    run.coverage["explanation"] = (
        "CrossHair symbolic execution of the real save_model_with_external_data: which initializers are "
        "uninitialised (<=3, symbolic booleans), which of 8 path shapes, verbose/tqdm availability and whether the "
        "underlying ir.save faults are solver variables. Postconditions: refusal (ValueError) iff some initializer "
        "has no value, and then ir.save was not called; otherwise exactly one call with the model, the path, "
        "external_data == basename + '.data'; an OSError propagates; initializer mapping and const_value objects "
        "are identical afterwards. What onnx_ir.save does at each file-system call is outside the claim (installed "
        "package, I/O)."
    )
    run.assumptions += ["ir.save stubbed (recording, faulting under a symbolic flag)", "<=3 initializers; 8 path shapes"]
    xh.run_obligations(run, ["vp.harness.c20"], tier, only)
    return run.finish()
