"""C20 — save_model_with_external_data (narrow claim; see DESIGN.md §5 C20)."""
from vp import common, xh


def main(tier, only=None):
    run = common.Run("C20", tier, "other")
    run.coverage["explanation"] = (
        "CrossHair symbolic execution of the real save_model_with_external_data: which initializers are "
        "uninitialised (<=3, symbolic booleans), which of 8 path shapes, verbose/tqdm availability and whether the "
        "underlying ir.save faults are solver variables. Postconditions: refusal (ValueError) iff some initializer "
        "has no value, and then ir.save was not called; otherwise exactly one call with the model, the path and "
        "external_data naming a sibling file (a bare file name other than the model file's own); an OSError propagates; initializer mapping and const_value objects "
        "are identical afterwards. What onnx_ir.save does at each file-system call is outside the claim (installed "
        "package, I/O)."
    )
    run.coverage["explanation"] += (
        " Second group (c20.real.*): the same function over the REAL onnx_ir.save writing into a scratch directory; "
        "the kind of each initializer (in-memory small/large/zero-size/scalar/uint8, already-external in another file, "
        "already-external in the destination data file) and the index k of the write-side file-system operation "
        "(open-for-write, write, flush, close of the data and model files) that raises OSError are solver variables that the harness concretises by comparison forks (one solver-decided path per instance; CrossHair reports the partition exhaustive), after which the real code, protobuf, NumPy and the file system run concretely on that instance; "
        "postcondition: same Value and tensor objects, same external references, same bytes readable, same serialized "
        "structure afterwards, and on success ir.load(path) gives equal names/dtypes/shapes/bytes/nodes with every "
        "externalised tensor in the sibling <name>.data."
    )
    run.assumptions += ["c20.save.*: ir.save stubbed (recording, faulting under a symbolic flag); <=3 initializers; 8 path shapes",
                        "c20.real.*: open() as seen by onnx_ir.external_data and onnx is a counting proxy over the real file; "
                        "faults are OSError at one operation; rename/fsync are not used by the installed onnx_ir and so not fault points; "
                        "<=2 initializers quick, <=3 thorough"]
    mods = ["vp.harness.c20", "vp.harness.c20_real"]
    from vp.harness import c20 as H1
    ok, detail = H1.protocol_probe()
    run.coverage["stub_protocol_probe"] = detail
    if not ok:
        # the function no longer hands the whole save to one ir.save(external_data=...) call: the stubbed world (fake paths,
        # recording stub) cannot represent it; the real-save group below still decides the property on the file system
        run.note_inconclusive(f"c20.save.*: stub model not applicable ({detail}); decided by c20.real.* only")
        mods = ["vp.harness.c20_real"]
    xh.run_obligations(run, mods, tier, only)
    return run.finish()
