"""C14 — results are deterministic and independent of what the process did before (narrow).

(a) hash seed as a schedule: converter/analysis loaded with the order cut; CrossHair chooses the
    permutation of every set iteration; the FunctionProto bytes must not depend on it.  Replay: real
    PYTHONHASHSEED values in subprocesses through the public @script decorator.
(b) histories as arbitrary pre-state: per-match fields of rule singletons (found by an AST pass each run)
    are havocked with symbolic values before rewrite() runs; bytes must equal the fresh-object run.
(d) histories of whole transformations: a symbolic sequence of models from a table that repeats operators at several opsets /
    dtypes / attribute forms goes through optimize / convert_version / proto2python, then a symbolic target; the target's bytes
    must equal the fresh-process result (baselines from subprocesses).  Indices are concretised by comparison forks.
(c) frozen globals (concrete, labelled): to_model_proto()^n identical, function_ir unchanged, protos
    independent of post-decoration rebinding of referenced globals; eager calls probed for the same.
"""
from __future__ import annotations

import hashlib
import os
import subprocess
import sys

from vp import common, xh

HASHSEED_SCRIPT = r'''
import hashlib, sys
sys.path.insert(0, %(root)r)
from vp.symonnx import scripts as S
src = S.HEADER + "from onnxscript import BOOL, INT64\n" + %(body)r
mod = S.load_source(src, "c14seed" + sys.argv[1])
fn = mod.f
print(hashlib.sha256(fn.to_function_proto().SerializeToString(deterministic=True)).hexdigest())
'''


def hashseed_replay(name: str, seeds=range(0, 12)):
    from vp.harness import c14_order as H
    body = "@script(default_opset=op)" + H.SCRIPTS[name]
    digests = {}
    for s in seeds:
        env = dict(os.environ, PYTHONHASHSEED=str(s), PYTHONPATH=str(common.ROOT))
        cp = subprocess.run([sys.executable, "-c", HASHSEED_SCRIPT % {"root": str(common.ROOT), "body": body}, str(s)],
                            capture_output=True, text=True, env=env, timeout=120, cwd=str(common.ROOT))
        out = cp.stdout.strip().splitlines()
        if cp.returncode == 0 and out:
            digests[s] = out[-1]
    return digests


def globals_part(run):
    from vp.symonnx import scripts as S
    import numpy as np
    res = {}
    src = (S.HEADER + "import numpy as np\nfrom onnx import numpy_helper as nh\nK = 2.0\nAX = [0]\nW = np.array([1.0, 2.0], dtype=np.float32)\n"
           "T = nh.from_array(np.array([5.0, 6.0], dtype=np.float32), 't')\nA = np.array([0.5, 0.25], dtype=np.float32)\n"
           "@script(default_opset=op)\n"
           "def f(x: FLOAT[2]) -> FLOAT[2]:\n    return x * K + op.ReduceSum(x, AX, keepdims=1) + op.Add(x, W) + op.Constant(value=T) + op.Constant(value=A)\n")
    mod = S.load_source(src, "c14g")
    f = mod.f
    p1 = f.to_model_proto().SerializeToString(deterministic=True)
    fp1 = f.to_function_proto().SerializeToString(deterministic=True)
    p2 = f.to_model_proto().SerializeToString(deterministic=True)
    fp2 = f.to_function_proto().SerializeToString(deterministic=True)
    res["repeat_identical"] = (p1 == p2 and fp1 == fp2)
    x = np.array([1.0, 2.0], dtype=np.float32)
    e1 = np.asarray(f(x)).tolist()
    mod.K = 5.0
    mod.AX.append(1)      # in-place mutation of a list global
    mod.AX = [-1]
    mod.W[0] = 100.0      # in-place mutation of a NumPy array global
    mod.T.CopyFrom(mod.nh.from_array(np.array([9.0, 6.0], dtype=np.float32), "t"))   # ... of a TensorProto used as an attribute value
    mod.A[1] = -7.0       # ... of an array used as an attribute value
    p3 = f.to_model_proto().SerializeToString(deterministic=True)
    res["proto_independent_of_global_rebinding"] = (p1 == p3)
    e2 = np.asarray(f(x)).tolist()
    res["eager_before"] = e1
    res["eager_after_rebinding"] = e2
    res["eager_independent_of_global_rebinding"] = (e1 == e2)
    return res


def main(tier: str, only=None) -> int:
    run = common.Run("C14", tier, "other")
    run.coverage["explanation"] = __doc__.strip()
    from vp.harness import c14_order as HO
    from vp.harness import c14_state as HS
    run.coverage["order_sites"] = {"converter": len(HO.INFO_CV["order_sites"]), "analysis": len(HO.INFO_AN["order_sites"])}
    run.coverage["stateful_rule_fields"] = [list(f) for f in HS.FIELDS]
    # public replay of the hash-seed dependence (also the witness of the known finding, if any)
    digests = {n: hashseed_replay(n, range(0, 8 if tier == "quick" else 32)) for n in HO.SCRIPTS}
    run.coverage["hashseed_digests_distinct"] = {n: len(set(d.values())) for n, d in digests.items()}
    seed_dependent = [n for n, d in digests.items() if len(set(d.values())) > 1]
    known = common.known_for("C14")
    kf_order = next((k for k in known if k.get("key") == "c14-set-order-in-converter"), None)
    live = set()
    if seed_dependent and kf_order:
        run.known(kf_order["text"])
        live.add(kf_order["key"])
    # (a) + (b) under CrossHair
    mods = ["vp.harness.c14_state"]
    if not (seed_dependent and kf_order):
        mods.insert(0, "vp.harness.c14_order")
    else:
        run.coverage["order_obligations"] = "skipped: the recorded finding (set order in converter) is live; witness replayed with real PYTHONHASHSEED values"
    # (a) second group: rewriter / constant folder / version converter under the order cut
    mods.append("vp.harness.c14_order_rw")
    try:
        from vp.harness import c14_order_rw as HRW
        run.coverage["order_sites"].update({m.rsplit(".", 1)[-1]: len(i["order_sites"]) for m, i in HRW.INFO.items()})
        run.coverage["order_sites_hit_under_identity_schedule"] = {f"{n}.m{k}": v for (n, k), v in HRW.SITES.items()}
    except Exception as e:  # noqa: BLE001
        run.harness_error(f"c14_order_rw failed to load: {e!r}")
    # (d) fresh-process baselines for the history harness (computed before any history runs; workers read the file)
    import json
    from vp.harness import c14_history as HH
    base = HH.compute_baselines(common.jobs())
    failed = {k: v for k, v in base.items() if v.startswith("baseline failed")}
    if failed:
        run.harness_error(f"c14.history baselines failed: {list(failed.items())[:2]}")
    else:
        bp = common.WORK / "C14"
        bp.mkdir(parents=True, exist_ok=True)
        (bp / "history_base.json").write_text(json.dumps(base))
        os.environ["VP_C14_BASE"] = str(bp / "history_base.json")
        run.coverage["history_table"] = {"models": [f"{k}@{o}" for k, o in HH.TABLE], "transformations": HH.TRANSFORMS,
                                         "baselines": len(base), "baseline_refusals": sum(v.startswith("raises") for v in base.values())}
        mods.append("vp.harness.c14_history")
    xh.run_obligations(run, mods, tier, only)
    if seed_dependent and not kf_order:
        # make sure a violation is reported even if CrossHair obligations were inconclusive
        if not run.violations:
            path = common.write_replay("C14", {"engine": "replay", "harness": "c14.hashseed", "rebuild": {"kind": "hashseed"},
                                               "scripts": seed_dependent, "digests": {n: digests[n] for n in seed_dependent}})
            run.violation(path, f"FunctionProto bytes depend on PYTHONHASHSEED for scripts {seed_dependent}")
    # (c)
    g = globals_part(run)
    run.coverage["globals"] = g
    if not g.get("repeat_identical") or not g.get("proto_independent_of_global_rebinding"):
        path = common.write_replay("C14", {"engine": "concrete", "harness": "c14.globals", "rebuild": {"kind": "globals"}, "record": g})
        run.violation(path, f"protos depend on repetition or on post-decoration globals: {g}")
    if not g.get("eager_independent_of_global_rebinding"):
        kf = next((k for k in known if k.get("key") == "c14-eager-reads-globals-at-call-time"), None)
        if kf:
            run.known(kf["text"])
        else:
            path = common.write_replay("C14", {"engine": "concrete", "harness": "c14.globals.eager", "rebuild": {"kind": "globals"}, "record": g})
            run.violation(path, f"eager call depends on post-decoration rebinding of a global: {g['eager_before']} -> {g['eager_after_rebinding']}")
    run.assumptions += ["set iteration order is the only cross-process nondeterminism modelled; <=4 schedule choices per translation",
                        "histories are modelled as arbitrary values of the per-match fields of rule singletons",
                        "(d): histories of length 1 (quick) / 2 (thorough, optimize) over the stated 30-model table; other retained state "
                        "(e.g. the matcher's last MatchResult on rule objects) is exercised only through these histories",
                        "part (c) is a concrete probe"]
    return run.finish()
