"""C10 — opset version conversion yields a valid, equivalent model at the target version.

Matrix: source s, target t in 18..25 (t >= s natively; t < s only meaningful with fallback), entry form
{ir.Model, ModelProto}, fallback {True, False}; models with the three adapter ops (GroupNormalization
exact; DFT / GridSample as uninterpreted functions of inputs and canonical attributes), unchanged ops,
If-subgraphs, model-local functions, initializers.  Decided by symonnx under the semantics of the
opset each side DECLARES: [[convert(M,t)]] == [[M]] for all inputs; a node shaped for opset t under a
model that still declares s evaluates to ⊥ (schema-keyed), so a half-converted model is a semantic
counterexample.  Side verdicts: declared version == t or model untouched; signature and initializers kept.
"""
from __future__ import annotations

import base64
import concurrent.futures as cf
import copy
import itertools
import traceback

import numpy as np
import onnx
import onnx_ir as ir
from onnx import TensorProto as TP
from onnx import helper as oh
from onnx import numpy_helper as nh

from vp import common

F, I64, B = TP.FLOAT, TP.INT64, TP.BOOL


def _model(nodes, inputs, outputs, inits, opset, functions=(), extra_opsets=()):
    g = oh.make_graph(nodes, "m", [oh.make_tensor_value_info(n, dt, sh) for n, dt, sh in inputs],
                      [oh.make_tensor_value_info(n, dt, sh) for n, dt, sh in outputs], inits)
    m = oh.make_model(g, opset_imports=[oh.make_opsetid("", opset)] + [oh.make_opsetid(d, v) for d, v in extra_opsets],
                      functions=list(functions), ir_version=10)
    return m


def families(s: int):
    """models valid at source opset s -> list of (tag, ModelProto, spec)"""
    out = []
    # GroupNormalization
    per_channel = s >= 21
    sc = np.array([1.0, 2.0, 0.5, -1.0] if per_channel else [1.0, 2.0], dtype=np.float32)
    bi = np.array([0.5, -1.0, 0.0, 2.0] if per_channel else [0.5, -1.0], dtype=np.float32)
    for sym_params in (False, True):
        ins = [("x", F, [1, 4, 2])]
        inits = []
        if sym_params:
            ins += [("s", F, list(sc.shape)), ("b", F, list(bi.shape))]
        else:
            inits = [nh.from_array(sc, "s"), nh.from_array(bi, "b")]
        m = _model([oh.make_node("GroupNormalization", ["x", "s", "b"], ["y"], num_groups=2, epsilon=1e-5)], ins, [("y", F, [1, 4, 2])], inits, s)
        out.append((f"GroupNormalization params={'inputs' if sym_params else 'initializers'}", m, [(n, dt, tuple(sh)) for n, dt, sh in ins]))
    # GroupNormalization with non-default attributes (they must survive the adapter)
    for eps in (0.5, 1e-3, 0.0):
        m = _model([oh.make_node("GroupNormalization", ["x", "s", "b"], ["y"], num_groups=2, epsilon=eps)], [("x", F, [1, 4, 2])], [("y", F, [1, 4, 2])],
                   [nh.from_array(sc, "s"), nh.from_array(bi, "b")], s)
        out.append((f"GroupNormalization epsilon={eps}", m, [("x", F, (1, 4, 2))]))
    # GroupNormalization whose input is declared with symbolic / unknown dims (per-group parameters need the channel count to convert)
    for decl, tagd in ((["N", 4, 2], "batch symbolic"), ([1, "C", 2], "channels symbolic"), (None, "no shape")):
        m = _model([oh.make_node("GroupNormalization", ["x", "s", "b"], ["y0"], num_groups=2), oh.make_node("Relu", ["y0"], ["y"])],
                   [("x", F, decl)], [("y", F, None)], [nh.from_array(sc, "s"), nh.from_array(bi, "b")], s)
        out.append((f"GroupNormalization with x declared {tagd}", m, [("x", F, (1, 4, 2))]))
    # GroupNormalization inside an If branch + unchanged ops + initializer captured
    w = nh.from_array(np.array([1.0, -1.0], dtype=np.float32), "w")
    tb = oh.make_graph([oh.make_node("GroupNormalization", ["x", "s", "b"], ["t"], num_groups=2)], "then", [], [oh.make_tensor_value_info("t", F, [1, 4, 2])])
    eb = oh.make_graph([oh.make_node("Mul", ["x", "w"], ["e"])], "else", [], [oh.make_tensor_value_info("e", F, [1, 4, 2])], [w])
    m = _model([oh.make_node("If", ["c"], ["y0"], then_branch=tb, else_branch=eb), oh.make_node("Relu", ["y0"], ["y"])],
               [("x", F, [1, 4, 2]), ("c", B, [])], [("y", F, [1, 4, 2])], [nh.from_array(sc, "s"), nh.from_array(bi, "b")], s)
    out.append(("If(GroupNormalization | Mul) + Relu", m, [("x", F, (1, 4, 2)), ("c", B, ())]))
    # DFT
    for axis in (0, 1, 2, -2, -3):
        if s >= 20:
            nodes = [oh.make_node("DFT", ["x", "", "ax"], ["y"])]
            inits = [nh.from_array(np.array(axis, dtype=np.int64), "ax")]
        else:
            nodes = [oh.make_node("DFT", ["x"], ["y"], axis=axis)]
            inits = []
        m = _model(nodes, [("x", F, [2, 3, 2, 1])], [("y", F, [2, 3, 2, 2])], inits, s)
        out.append((f"DFT axis={axis}", m, [("x", F, (2, 3, 2, 1))]))
    # DFT with the axis left at its default (attribute default 1 before opset 20, input default -2 from 20 on)
    m = _model([oh.make_node("DFT", ["x"], ["y"])], [("x", F, [2, 3, 2, 1])], [("y", F, [2, 3, 2, 2])], [], s)
    out.append(("DFT default axis", m, [("x", F, (2, 3, 2, 1))]))
    # GridSample
    for mode in ("linear", "nearest", "cubic"):
        old = {"linear": "bilinear", "cubic": "bicubic", "nearest": "nearest"}[mode]
        m = _model([oh.make_node("GridSample", ["x", "g"], ["y"], mode=(mode if s >= 20 else old))],
                   [("x", F, [1, 1, 2, 2]), ("g", F, [1, 1, 2, 2])], [("y", F, [1, 1, 1, 2])], [], s)
        out.append((f"GridSample mode={mode}", m, [("x", F, (1, 1, 2, 2)), ("g", F, (1, 1, 2, 2))]))
        # every other attribute must survive the adapter: padding_mode x align_corners (larger image so that borders matter)
        for pm, ac in (("border", 0), ("reflection", 1), ("zeros", 1), ("border", 1)):
            m = _model([oh.make_node("GridSample", ["x", "g"], ["y"], mode=(mode if s >= 20 else old), padding_mode=pm, align_corners=ac)],
                       [("x", F, [1, 1, 3, 3]), ("g", F, [1, 2, 2, 2])], [("y", F, [1, 1, 2, 2])], [], s)
            out.append((f"GridSample mode={mode} padding_mode={pm} align_corners={ac}", m, [("x", F, (1, 1, 3, 3)), ("g", F, (1, 2, 2, 2))]))
    # unchanged ops with initializer and an initializer-input
    m = _model([oh.make_node("Add", ["x", "k"], ["a"]), oh.make_node("Mul", ["a", "d"], ["b"]), oh.make_node("ReduceSum", ["b", "ax"], ["y"], keepdims=0)],
               [("x", F, [2, 3]), ("d", F, [3])], [("y", F, [2])],
               [nh.from_array(np.array([1.0, 2.0, 3.0], dtype=np.float32), "k"), nh.from_array(np.array([0.5, 0.5, 2.0], dtype=np.float32), "d"),
                nh.from_array(np.array([1], dtype=np.int64), "ax")], s)
    out.append(("Add/Mul/ReduceSum with initializer-input", m, [("x", F, (2, 3)), ("d", F, (3,))]))
    # initializers of assorted sizes (an external converter may treat large tensors differently from small ones)
    for n in (31, 32, 48):
        wv = ((np.arange(n * n) % 7) - 3).astype(np.float32).reshape(n, n) / 4
        bv = (np.arange(n) % 5).astype(np.float32)
        m = _model([oh.make_node("MatMul", ["x", "W"], ["t"]), oh.make_node("Add", ["t", "b"], ["u"]), oh.make_node("Relu", ["u"], ["y"])],
                   [("x", F, [2, n])], [("y", F, [2, n])], [nh.from_array(wv, "W"), nh.from_array(bv, "b")], s)
        out.append((f"MatMul/Add/Relu with a {n}x{n} initializer", m, [("x", F, (2, n))]))
    # model-local function containing an adapter op
    fn = oh.make_function("local", "Norm", ["p", "ps", "pb"], ["q"],
                          [oh.make_node("GroupNormalization", ["p", "ps", "pb"], ["q0"], num_groups=2), oh.make_node("Relu", ["q0"], ["q"])],
                          [oh.make_opsetid("", s)])
    m = _model([oh.make_node("Norm", ["x", "s", "b"], ["y"], domain="local")], [("x", F, [1, 4, 2])], [("y", F, [1, 4, 2])],
               [nh.from_array(sc, "s"), nh.from_array(bi, "b")], s, functions=[fn], extra_opsets=[("local", 1)])
    out.append(("local function with GroupNormalization", m, [("x", F, (1, 4, 2))]))
    return out


def legacy_families(s: int):
    """Models at a source opset BELOW 18 (outside the quantifier of C10, inside its statement): operators whose form changed
    before 18 (attributes that became inputs), so that a correct conversion has to go through the fallback (which may add
    initializers) and a refusal has to leave the old form under the old declaration."""
    out = []
    w = nh.from_array(np.array([1.0, 2.0, 3.0], dtype=np.float32), "w")

    def add(tag, nodes, ins, outs, inits=()):
        m = _model(nodes, ins, outs, list(inits), s)
        out.append((f"legacy {tag} at opset {s}", m, [(n, dt, tuple(sh)) for n, dt, sh in ins]))

    if s <= 10:
        add("Pad<pads,value> after Add with an initializer",
            [oh.make_node("Add", ["x", "w"], ["t"]), oh.make_node("Pad", ["t"], ["y"], pads=[1, 0, 0, 2], mode="constant", value=1.5)],
            [("x", F, [2, 3])], [("y", F, [3, 5])], [w])
        add("Pad<pads> negative (crop)", [oh.make_node("Pad", ["x"], ["y"], pads=[0, -1, 1, 0])], [("x", F, [2, 3])], [("y", F, [3, 2])])
    if s <= 12:
        add("Squeeze<axes>", [oh.make_node("Squeeze", ["x"], ["y"], axes=[1])], [("x", F, [2, 1, 3])], [("y", F, [2, 3])])
        add("Unsqueeze<axes> with an initializer", [oh.make_node("Mul", ["x", "w"], ["t"]), oh.make_node("Unsqueeze", ["t"], ["y"], axes=[0, -1])],
            [("x", F, [2, 3])], [("y", F, [1, 2, 3, 1])], [w])
        add("ReduceSum<axes>", [oh.make_node("ReduceSum", ["x"], ["y"], axes=[-1], keepdims=0)], [("x", F, [2, 3])], [("y", F, [2])])
        add("Split<split>", [oh.make_node("Split", ["x"], ["a", "b"], axis=1, split=[1, 2])], [("x", F, [2, 3])], [("a", F, [2, 1]), ("b", F, [2, 2])])
    add("ReduceMean<axes>", [oh.make_node("ReduceMean", ["x"], ["y"], axes=[0], keepdims=1)], [("x", F, [2, 3])], [("y", F, [1, 3])])
    add("unchanged ops with an initializer", [oh.make_node("Add", ["x", "w"], ["t"]), oh.make_node("Relu", ["t"], ["y"])],
        [("x", F, [2, 3])], [("y", F, [2, 3])], [w])
    return out


LEGACY_SOURCES = [10, 11, 13]


def _convert(mp: onnx.ModelProto, t: int, entry: str, fallback):
    from onnxscript import version_converter
    if entry == "proto":
        m = copy.deepcopy(mp)
        version_converter.convert_version(m, t, fallback=fallback)
        return m
    m = ir.from_proto(mp)
    version_converter.convert_version(m, t, fallback=fallback)
    return ir.to_proto(m)


def declared(mp: onnx.ModelProto):
    return {o.domain: o.version for o in mp.opset_import}.get("")


def _worker(payload):
    tag, mb, spec, s, t, entry, fallback = payload
    from vp.symonnx import equiv as Q
    from vp.symonnx import interp as I
    from vp.symonnx import replay as R
    from vp.symonnx import wellformed as W
    from vp.symonnx.values import DT, Malformed, NotEncoded, fresh
    from onnxscript.version_converter import _version_converter as VC
    mp = onnx.load_from_string(mb)
    rec = {"model": tag, "s": s, "t": t, "entry": entry, "fallback": fallback, "problems": [], "verdict": None}
    stats = Q.Stats()
    try:
        new = _convert(mp, t, entry, fallback)
    except VC.VersionConverterError as e:
        rec["verdict"] = "refused"
        rec["detail"] = str(e)[:150]
        rec["solver"] = stats.as_dict()
        return rec
    except Exception as e:  # noqa: BLE001
        rec["verdict"] = "exception"
        rec["detail"] = f"{type(e).__name__}: {str(e)[:200]}"
        rec["tb"] = traceback.format_exc()[-1000:]
        rec["solver"] = stats.as_dict()
        return rec
    d = declared(new)
    rec["declared_after"] = d
    rec["node_ops_after"] = [n.op_type for n in new.graph.node]
    if d != t and d != s:
        rec["problems"].append(f"declared opset {d} is neither the target {t} nor the source {s}")
    fn_decl = {f.name: {o.domain: o.version for o in f.opset_import}.get("") for f in new.functions}
    for fname, fv in fn_decl.items():
        if fv is not None and fv != d:
            rec["problems"].append(f"function {fname} declares opset {fv}, model declares {d}")
    # signature and initializers
    sig = lambda m: ([(i.name, i.type.SerializeToString(deterministic=True)) for i in m.graph.input], [o.name for o in m.graph.output])  # noqa: E731
    if sig(mp) != sig(new):
        rec["problems"].append("graph signature changed")
    for init in mp.graph.initializer:
        got = [i for i in new.graph.initializer if i.name == init.name]
        if init.name in {i.name for i in mp.graph.input} and not got:
            rec["problems"].append(f"initializer-input {init.name} lost")
        elif not got and any(init.name in n.input for n in new.graph.node):
            rec["problems"].append(f"initializer {init.name} lost although still referenced")
        elif got and got[0].SerializeToString(deterministic=True) != init.SerializeToString(deterministic=True) and got[0].raw_data != init.raw_data \
                and nh.to_array(got[0]).tobytes() != nh.to_array(init).tobytes():
            rec["problems"].append(f"initializer {init.name} changed its value")
    # the normalisation attributes must survive the adapter with their values (an epsilon of exactly 0.0 is a value too); the
    # real-valued semantics sees them only inside an uninterpreted rsqrt, whose counterexamples rarely replay
    def _gn_attrs(m_):
        out_ = []

        def walk_(nodes_):
            for n_ in nodes_:
                if n_.op_type == "GroupNormalization" and n_.domain in ("", "ai.onnx"):
                    a_ = {a.name: oh.get_attribute_value(a) for a in n_.attribute if not a.ref_attr_name}
                    out_.append((int(a_.get("num_groups", -1)), float(a_.get("epsilon", 1e-5)), int(a_.get("stash_type", 1))))
                for a in n_.attribute:
                    if a.type == onnx.AttributeProto.GRAPH:
                        walk_(a.g.node)
        walk_(m_.graph.node)
        for f_ in m_.functions:      # a function body counts once (the hosts call each function once; inlining moves it to the caller)
            walk_(f_.node)
        return sorted(out_)
    if _gn_attrs(mp) != _gn_attrs(new):
        rec["problems"].append(f"GroupNormalization attributes (num_groups, epsilon, stash_type) changed: {_gn_attrs(mp)} -> {_gn_attrs(new)}")
    for p in W.check_model(new):
        rec["problems"].append("malformed: " + p)
    try:
        onnx.checker.check_model(mp, full_check=False)
        orig_ok = True
    except Exception:  # noqa: BLE001 - e.g. the checker flags GroupNormalization-18 as deprecated
        orig_ok = False
    if orig_ok:
        try:
            onnx.checker.check_model(new, full_check=False)
        except Exception as e:  # noqa: BLE001
            rec["problems"].append("onnx.checker: " + str(e)[:200])
    # semantic comparison under the declared opsets
    try:
        inputs = {n: fresh(n, sh, DT(dt)) for n, dt, sh in spec}
        r1 = I.interpret(ir.from_proto(mp), inputs)
        r2 = I.interpret(ir.from_proto(new), inputs)
        v = Q.compare(r1, r2, inputs, stats, skip_if_first_fails=True)
        rec["verdict"] = v["verdict"]
        rec["detail"] = v.get("detail", "")
        rec["uf"] = sorted(set().union(*[r["uf"] for r in r1 + r2]))
        rec["converted"] = d == t and s != t
        if v["verdict"] == "cex":
            feeds = R.np_inputs(v["inputs"]) if v.get("inputs") else {n: np.zeros(sh, dtype=DT(dt).numpy()) for n, dt, sh in spec}
            rep = R.replay_pair(mp.SerializeToString(), new.SerializeToString(), feeds)
            if not rep["reproduced"] and rec["uf"]:
                rep, feeds = R.replay_pair_random(mp.SerializeToString(), new.SerializeToString(), spec, seed=common.seed())
                rec["replay_inputs_sampled"] = True
            rec["replay"] = {k: rep.get(k) for k in ("reproduced", "difference", "ort_err_a", "ort_err_b")}
            rec["replay_record"] = {"engine": "S", "inputs": {n: {"dtype": DT(dt).name, "shape": list(sh), "values": feeds[n].tolist()} for n, dt, sh in spec},
                                    "rebuild": {"kind": "pair", "transformation": f"convert_version({s}->{t}, entry={entry}, fallback={fallback})",
                                                "model_a_b64": base64.b64encode(mp.SerializeToString()).decode(),
                                                "model_b_b64": base64.b64encode(new.SerializeToString()).decode()},
                                    "observed": rep, "detail": v.get("detail")}
    except NotEncoded as e:
        rec["verdict"] = "not_encoded"
        rec["detail"] = str(e)[:200]
    except Malformed as e:
        rec["verdict"] = "malformed"
        rec["detail"] = str(e)[:200]
    rec["solver"] = stats.as_dict()
    return rec


def main(tier: str, only=None) -> int:
    run = common.Run("C10", tier, "translation_validation")
    versions = list(range(18, 26))
    payloads = []
    for s in versions:
        fams = families(s)
        targets = versions if tier == "thorough" else sorted({s, 18, 20, 21, 23, 25, min(s + 1, 25)})
        for (tag, m, spec), t, entry, fb in itertools.product(fams, targets, ["ir", "proto"], [True, False]):
            if only and only not in tag:
                continue
            if t < s and not fb and tier == "quick" and entry == "ir":
                continue
            payloads.append((tag, m.SerializeToString(), [(n, int(dt), tuple(sh)) for n, dt, sh in spec], s, t, entry, fb))
    for s in LEGACY_SOURCES:
        targets = [18, 19, 21, 23, 25] if tier == "thorough" else [18, 21]
        for (tag, m, spec), t, entry, fb in itertools.product(legacy_families(s), targets, ["ir", "proto"], [True, False]):
            if only and only not in tag:
                continue
            payloads.append((tag, m.SerializeToString(), [(n, int(dt), tuple(sh)) for n, dt, sh in spec], s, t, entry, fb))
    with cf.ProcessPoolExecutor(max_workers=common.jobs()) as ex:
        results = list(ex.map(_worker, payloads, chunksize=8))
    known = [k for k in common.known_for("C10") if k.get("engine") == "S"]
    counts, solver = {}, {"unsat": 0, "sat": 0, "unknown": 0, "queries": 0, "solver_s": 0.0}
    converted = 0
    samples = []
    for r in results:
        counts[r["verdict"]] = counts.get(r["verdict"], 0) + 1
        for k, v in (r.get("solver") or {}).items():
            solver[k] = round(solver[k] + v, 3)
        converted += 1 if r.get("converted") else 0
        label = f"{r['model']} {r['s']}->{r['t']} entry={r['entry']} fallback={r['fallback']}"

        def report(kind, text, rr=None):
            for k in known:
                m = k.get("match", {})
                if m.get("kind") and m["kind"] != kind:
                    continue
                if m.get("entry") and m["entry"] != r["entry"]:
                    continue
                if m.get("text_contains") and m["text_contains"] not in text:
                    continue
                if m.get("model_contains") and not any(mc in r["model"] for mc in m["model_contains"]):
                    continue
                run.known(k["text"])
                return
            path = common.write_replay("C10", rr or {"engine": "S", "harness": "c10." + label, "rebuild": {"kind": "side"}, "problem": kind, "detail": text})
            run.violation(path, f"{label}: {kind}: {text[:200]}")
        if r["verdict"] == "exception":
            report("exception", r["detail"])
        for p in r.get("problems", []):
            report("side", p)
        if r["verdict"] == "cex":
            rep = r.get("replay", {})
            if rep.get("reproduced"):
                rr = dict(r["replay_record"])
                rr["harness"] = "c10." + label
                report("value", f"{r['detail']} | {rep.get('difference')}", rr)
            elif r.get("uf"):
                counts["cex_not_reproduced_uf"] = counts.get("cex_not_reproduced_uf", 0) + 1
            else:
                # ORT may not be able to run one of the models (opset > supported); semantic verdict stands on its own
                rr = dict(r["replay_record"])
                rr["harness"] = "c10." + label
                if rep.get("ort_err_a") or rep.get("ort_err_b"):
                    report("value", f"{r['detail']} (onnxruntime cannot run one side: {rep.get('ort_err_a') or rep.get('ort_err_b')})"[:300], rr)
                else:
                    run.harness_error(f"{label}: counterexample does not reproduce ({r['detail']})")
        if r["verdict"] == "unknown":
            run.note_inconclusive(f"{label}: solver unknown")
        if len(samples) < 12 and r.get("converted"):
            samples.append({k: r.get(k) for k in ("model", "s", "t", "entry", "fallback", "verdict", "declared_after", "node_ops_after", "uf")})
    from onnxscript.version_converter import _version_converter as VC
    run.coverage.update({
        "programs": len(results), "disagreements_checked": counts.get("cex", 0), "samples": samples or [{"note": "no conversion happened"}],
        "evaluations": len(results), "distinct_nontrivial": converted, "verdicts": counts, "queries": solver,
        "matrix": {"sources": versions, "targets": "18..25", "entries": ["ir", "proto"], "fallback": [True, False],
                   "legacy_sources_outside_the_quantifier": LEGACY_SOURCES},
        "functions_encoded": [common.src_ref(VC.convert_version), common.src_ref(VC.groupnormalization_20_21), common.src_ref(VC.dft_19_20),
                              common.src_ref(VC.gridsample_19_20)],
    })
    run.assumptions += ["semantics keyed by the opset each model declares (schema arity/attribute validation)",
                        "DFT and GridSample are uninterpreted functions of their inputs and canonical attributes",
                        "GroupNormalization exact up to an uninterpreted rsqrt(var+eps)"]
    return run.finish()
