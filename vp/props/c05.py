"""C05 — each shipped rewrite rule preserves semantics wherever it fires.

L1 (engine S): for every rule exported by rules.common and every host of the rule's families
(rulehosts.py: instances and near-misses over the rule's parameter space) the single rule is
applied with the real RewriteRuleSet; if it fires, symonnx interprets host and result and z3 decides
equality of all outputs for ALL input values; validity for the declared opset is part of the
interpretation (schema-keyed).  L2 (engine X): side-condition lemmas on the real check functions
(vp/harness/c05_l2.py) when present."""
from __future__ import annotations

import concurrent.futures as cf
import copy

import onnx
import onnx_ir as ir

from vp import common
from vp.props import c03 as C3
from vp.props import optcommon as OC

FAMILY_RULES = {
    "identity_ops": ["add_0_rule", "sub_0_rule", "mul_by_1_rule", "div_by_1_rule"],
    "casts": ["cast_cast_rule", "no_op_cast_rule", "cast_constant_of_shape_rule", "cast_constant_of_shape_without_value_rule"],
    "slices": ["collapse_slice_rule", "collapse_slice2_rule", "slice_split_rule"],
    "dropout": ["dropout_inference_rule", "dropout_zero_rule"],
    "dropout_runtime": ["dropout_inference_rule", "dropout_zero_rule"],
    "expand": ["no_op_expand_rule", "expand_before_binary_op_rules"],
    "reshape_family": ["flatten_to_reshape_rule", "reshape_reshape_rule", "squeeze_reshape_1d_rule", "transpose_transpose_rule",
                       "no_op_transpose_rule", "unsqueeze_unsqueeze_rule", "materialize_reshape_shape_rule"],
    "clip_relu_minmax": ["successive_clip_relu_rule", "successive_clip_rule", "successive_relu_clip_rule", "successive_relu_rule",
                         "min_min_rule", "max_max_rule", "min_max_rule", "max_min_rule"],
    "hardswish": ["fuse_hardswish_rules"],
    "matmul_gemm": ["matmul_add_to_gemm_rule", "transpose_a_matmul_add_to_gemm_rule", "transpose_b_matmul_add_to_gemm_rule",
                    "transpose_ab_matmul_add_to_gemm_rule", "gemm_to_matmul_add_rule", "remove_optional_bias_from_gemm_rule",
                    "remove_optional_bias_from_conv_rule", "one_reshape_matmul_reshape_rule", "two_reshapes_matmul_reshape_rule"],
    "conv": ["fuse_batchnorm_into_conv_rule", "fuse_batchnorm_into_gemm_rule", "affine_conv_fusion_rule", "conv_affine_fusion_rule",
             "fuse_pad_into_conv_rule", "normalize_pad_format_conv_rule", "remove_optional_bias_from_conv_rule",
             "fuse_batchnorm_into_conv_transpose_rule", "remove_optional_bias_from_conv_transpose_rule"],
    "scatter": ["no_op_static_scatter_nd_rule", "no_op_dynamic_scatter_nd_rule"],
    "conv_integer": ["fuse_pad_into_conv_integer_rule", "normalize_pad_format_conv_integer_rule", "remove_optional_bias_from_qlinear_conv_rule"],
}
NOT_ENCODED_RULES = {
}


def _rule_tf(rule_name, counter):
    from onnxscript.rewriter import _rewrite_rule as RR
    from onnxscript.rewriter.rules import common as RC
    import onnx_ir.passes.common as common_passes

    obj = getattr(RC, rule_name)
    if not isinstance(obj, (RR.RewriteRule, RR.RewriteRuleSet)) and callable(obj):
        obj = obj()
    rules = obj if isinstance(obj, RR.RewriteRuleSet) else RR.RewriteRuleSet([obj])

    def tf(mp):
        m = ir.from_proto(mp)
        counter[0] = rules.apply_to_model(m)
        common_passes.RemoveUnusedNodesPass()(m)
        return ir.to_proto(m)
    return tf


def _worker(payload):
    mb, spec, tag, fams, rule_names, loop_bound = payload
    from vp.symonnx import equiv as Q
    mp = onnx.load_from_string(mb)
    stats = Q.Stats()
    out = {"model": tag, "features": fams, "ops": sorted({n.op_type for n in mp.graph.node}), "records": [], "error": None}
    try:
        onnx.checker.check_model(mp)
    except Exception as e:  # noqa: BLE001 - an ill-typed host is not a host
        out["invalid_host"] = str(e)[:100]
        out["solver"] = stats.as_dict()
        return out
    try:
        for rn in rule_names:
            counter = [0]
            rec = OC.check_model_pair(mp, spec, rn, _rule_tf(rn, counter), stats, loop_bound, want_sides=True)
            rec["fired"] = counter[0]
            if not counter[0] and rec["verdict"] in ("equiv", "original_fails"):
                rec["verdict"] = "not_fired"
            out["records"].append(rec)
    except Exception as e:  # noqa: BLE001
        import traceback
        out["error"] = f"{type(e).__name__}: {e} {traceback.format_exc()[-1200:]}"
    out["solver"] = stats.as_dict()
    return out


# rule families whose side-conditions are read from declared shapes: also run on hosts whose inputs are declared with
# symbolic / unknown dims, the rewritten model then compared with the original for every binding of the symbols
SYM_FAMILIES = ["expand", "reshape_family", "slices", "scatter", "matmul_gemm", "identity_ops", "casts", "clip_relu_minmax"]
SYM_VALUES = [0, 1, 2, 3, 7]


def _worker_sym(payload):
    import copy
    import itertools
    import random
    mb, symspec, symbols, tag, fams, rule_names, tier = payload
    from vp.symonnx import equiv as Q
    mp = onnx.load_from_string(mb)
    stats = Q.Stats()
    out = {"model": tag, "features": fams + ["symbolic"], "ops": sorted({n.op_type for n in mp.graph.node}), "records": [], "error": None,
           "symbols": symbols, "symspec": symspec}
    names = sorted(symbols)
    bindings = list(itertools.product(SYM_VALUES, repeat=len(names)))
    if tier == "quick" and len(bindings) > 12:
        r = random.Random(hash(tag) & 0xFFFF)
        keep = [tuple(symbols[n] for n in names)] + [b for b in bindings if len(set(b)) == 1 and b[0] in (1, 2)]
        # bindings that set exactly one symbol to 1 / 0 (a symbol a rule took for 'not 1' or 'equal to another')
        for i in range(len(names)):
            for v in (1, 0):
                keep.append(tuple(v if j == i else symbols[n] for j, n in enumerate(names)))
        r.shuffle(bindings)
        bindings = list(dict.fromkeys(keep + bindings[:6]))
    dts = {i.name: i.type.tensor_type.elem_type for i in mp.graph.input}
    try:
        for rn in rule_names:
            counter = [0]
            try:
                new = _rule_tf(rn, counter)(copy.deepcopy(mp))
            except Exception as e:  # noqa: BLE001
                out["records"].append({"transformation": rn, "verdict": "exception", "detail": f"{type(e).__name__}: {str(e)[:300]}", "fired": 0, "side": {}})
                continue
            if not counter[0]:
                out["records"].append({"transformation": rn, "verdict": "not_fired", "fired": 0, "side": {}})
                continue
            for b in bindings:
                env = dict(zip(names, b))
                spec = [(n, dts[n], tuple(env[d] if isinstance(d, str) else d for d in dims)) for n, dims in symspec.items()]
                rec = OC.check_model_pair(mp, spec, rn, None, stats, 3, want_sides=(b == bindings[0]), new=new)
                rec["fired"] = counter[0]
                rec["binding"] = env
                if rec.get("replay_record"):
                    rec["replay_record"]["binding"] = env
                out["records"].append(rec)
    except Exception as e:  # noqa: BLE001
        import traceback
        out["error"] = f"{type(e).__name__}: {e} {traceback.format_exc()[-1200:]}"
    out["solver"] = stats.as_dict()
    return out


def dynamic_shape(tag: str) -> bool:
    return "Shape(z" in tag


def _sym_payloads(hosts, tier, only):
    import random
    from vp.props import c09 as C9
    r = random.Random(common.seed() + 5)
    by = {}
    for h in hosts:
        if h[3][0] in SYM_FAMILIES:
            by.setdefault(h[3][0], []).append(h)
    payloads = []
    for fam, hs in by.items():
        if tier == "quick":
            r.shuffle(hs)
            hs = [h for h in hs if dynamic_shape(h[2])] + [h for h in hs if not dynamic_shape(h[2])][:60]
        for mb, spec, tag, fams in hs:
            rules = [x for f in fams for x in FAMILY_RULES.get(f, [])]
            if only:
                rules = [x for x in rules if only in x or only in tag]
            if not rules:
                continue
            modes = C9.MODES if tier == "thorough" else r.sample(C9.MODES, 2)
            if dynamic_shape(tag) and tier == "quick":
                # the rule can only reason from declared shapes here: the modes that keep a static 1 beside distinct symbols
                modes = ["lead_distinct", "distinct_keep1", "shared", "lead_unnamed_vi"]
            for mode in modes:
                try:
                    smb, symspec, symbols = C9.redeclare(mb, spec, mode)
                except Exception:  # noqa: BLE001
                    continue
                if not symbols or len(symbols) > 3:
                    continue
                payloads.append((smb, symspec, symbols, f"{tag} [{mode}]", list(fams), rules, tier))
    return payloads


def main(tier: str, only=None) -> int:
    run = common.Run("C05", tier, "translation_validation")
    from vp.props import rulehosts as RH
    from onnxscript.rewriter.rules import common as RC
    hosts = RH.all_hosts(tier)
    payloads = []
    for mb, spec, tag, fams in hosts:
        rules = [r for f in fams for r in FAMILY_RULES.get(f, [])]
        if only:
            rules = [r for r in rules if only in r or only in tag]
        if rules:
            payloads.append((mb, spec, tag, fams, rules, 3))
    if tier == "quick":
        # deterministic thinning of the largest families (full product runs in the thorough tier)
        import random
        r = random.Random(common.seed())
        by = {}
        for p in payloads:
            by.setdefault(p[3][0], []).append(p)
        payloads = []
        import re as _re
        for fam, ps in by.items():
            # stratified: hosts are grouped by the *shape* of their tag (numbers blanked), every group is represented and the
            # groups are drained round-robin up to the budget, so that no sub-family of a large family is dropped by chance
            r.shuffle(ps)
            strata = {}
            for p_ in ps:
                strata.setdefault(_re.sub(r"-?\d+(\.\d+)?", "#", p_[2]), []).append(p_)
            budget = max(160, len(strata))
            picked = []
            while len(picked) < budget and any(strata.values()):
                for k_ in list(strata):
                    if strata[k_] and len(picked) < budget:
                        picked.append(strata[k_].pop())
            payloads += picked
    with cf.ProcessPoolExecutor(max_workers=common.jobs()) as ex:
        results = list(ex.map(_worker, payloads, chunksize=4))
    sym_payloads = _sym_payloads(hosts, tier, only)
    with cf.ProcessPoolExecutor(max_workers=common.jobs()) as ex:
        sym_results = list(ex.map(_worker_sym, sym_payloads, chunksize=2))
    results = [r for r in results if not r.get("invalid_host")] + sym_results
    counts, solver, samples, n_pairs, n_changed, uf_models, side = C3.aggregate(run, results, "C05", want_value=True, want_sides=True)
    fired = {}
    for r in results:
        for rec in r["records"]:
            d = fired.setdefault(rec["transformation"], {"hosts": 0, "fired": 0, "equiv": 0, "equiv_tol": 0, "cex": 0, "not_encoded": 0})
            d["hosts"] += 1
            if rec.get("fired"):
                d["fired"] += 1
                if rec["verdict"] in d:
                    d[rec["verdict"]] += 1
    exported = list(RC.__all__)
    never = [r for r in exported if r not in NOT_ENCODED_RULES and fired.get(r, {}).get("fired", 0) == 0]
    # dropout_inference_rule is written against an ATTRIBUTE `training_mode`; decided from the installed schemas at every run:
    # if no version of Dropout declares such an attribute, no checker-valid model contains an instance and the rule is vacuous
    unreachable = {}
    if "dropout_inference_rule" in never:
        vers = [sch for sch in onnx.defs.get_all_schemas_with_history() if sch.name == "Dropout" and sch.domain == ""]
        if vers and all("training_mode" not in sch.attributes for sch in vers):
            unreachable["dropout_inference_rule"] = (f"pattern needs a Dropout attribute 'training_mode'; none of the {len(vers)} schema versions "
                                                     f"({sorted(sch.since_version for sch in vers)}) declares it: no valid model has an instance")
    for r in never:
        if r in unreachable:
            continue
        run.note_inconclusive(f"rule {r} never fired on its hosts: nothing decided for it in this run")
    run.coverage["rules_vacuous_on_valid_models"] = unreachable
    run.coverage.update({
        "programs": len(results), "disagreements_checked": counts.get("cex", 0), "samples": samples,
        "host_rule_pairs": n_pairs, "evaluations": n_pairs, "distinct_nontrivial": sum(v["fired"] for v in fired.values()),
        "verdicts": counts, "queries": solver, "per_rule": fired, "rules_exported": len(exported),
        "rules_not_encoded": NOT_ENCODED_RULES, "rules_never_fired": never, "side_verdicts": side,
        "pairs_with_uninterpreted_functions": uf_models,
        "symbolically_declared_hosts": len(sym_results),
        "symbolic_host_rule_pairs_fired": sum(1 for r_ in sym_results if any(rec.get("fired") for rec in r_["records"])),
        "symbolic_binding_values": SYM_VALUES,
    })
    # L2: integer side-condition lemmas on the real check / rewrite functions (CrossHair); kept apart from the S counts
    if not only or only.startswith("c05.lemma") or only == "lemma":
        from vp import xh
        xh.run_side_obligations(run, ["vp.harness.c05_lemmas"], tier, only if only and only != "lemma" else None, "side_condition_lemmas",
                                "CrossHair (z3) on the current source of the rules' check / rewrite functions: constants, attributes, static dims "
                                "and the runtime values of symbolic dims are symbolic integers; postcondition = reference model of the ONNX shape rule")
    run.assumptions += ["floats as reals; constants recomputed by a rule are compared under the forward-error bound 32u(mag1+mag2)",
                        "rules.fusion (layer norm, rms norm, rotary, gqa) need sqrt/trig identities: outside the claim",
                        "host structure enumerated per rule family; input values decided by z3"]
    return run.finish()
