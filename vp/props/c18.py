"""C18 — GraphBuilder / nn.Module graphs compute the trace; parameters are named like PyTorch.

(S) Seeded random traces of op.X(...) calls through the real GraphBuilder/OpBuilder (literal operands
in every position, explicit _outputs, module scopes, nested subgraphs for If/Loop, call vs call_inline of
script functions with attribute arguments).  While tracing, a shadow evaluation applies symonnx's rule
for X to symbolic tensors, promoting literals by the property's rule (sibling dtype that shares the type
constraint, else INT64/FLOAT/BOOL).  z3 decides [[built graph]](x) == shadow(x) for ALL input values, and
[[graph with call]] == [[graph with call_inline]].
(enumeration, labelled) unique value/node names; module trees of depth <= 4: initializer names == root
name + '.' + state_dict() keys, each parameter exactly once.
"""
from __future__ import annotations

import concurrent.futures as cf
import random
import traceback

import numpy as np
import onnx
import onnx_ir as ir

from vp import common

DT = ir.DataType
LITS_F = [0.5, 2.0, -1.0, 0.0, -0.0, 3, 1, True, 0.1]
LITS_I = [1, 2, -3, 0, True]


def _lit_to_sv(lit, like_dt):
    """the property's promotion rule, independent of the builder"""
    from vp.symonnx.values import const
    x = lit[0] if isinstance(lit, list) else lit
    if like_dt is not None:
        dt = like_dt
    else:
        dt = DT.BOOL if isinstance(x, bool) else DT.INT64 if isinstance(x, int) else DT.FLOAT
    return const(np.array(lit, dtype=dt.numpy()))


class Tracer:
    """drives the real OpBuilder and a shadow symbolic evaluation side by side"""

    def __init__(self, rng, op, shadow_env, opset=18):
        self.r, self.op, self.env, self.opset = rng, op, shadow_env, opset  # env: ir.Value id -> SV
        self.pool = []  # list of (ir.Value, dtype, shape)
        self.log = []

    def sv(self, v):
        return self.env[id(v)]

    def apply(self, opname, args, attrs=None, n_out=1, like=None, outputs=None, kw_inputs=None, positions=None):
        """args: list of ir.Value | python literal; like: index of the arg whose dtype literals share.
        kw_inputs: {input name: value} passed by KEYWORD; positions: the full positional input list they denote (None = omitted)"""
        from vp.symonnx import ops as O
        attrs = attrs or {}
        kw = dict(attrs)
        if outputs is not None:
            kw["_outputs"] = outputs
        res = getattr(self.op, opname)(*args, **kw, **(kw_inputs or {}))
        res_list = list(res) if isinstance(res, (tuple, list)) else [res]
        like_dt = None
        if like is not None:
            like_dt = self.sv(args[like]).dtype
        if positions is not None:
            args = positions
        ins = [None if a is None else self.sv(a) if isinstance(a, ir.Value) else _lit_to_sv(a, like_dt) for a in args]
        ctx = O.Ctx(self.opset, False)
        ctx.n_outputs = len(res_list)
        ctx.node_op = opname
        outs = O.OPS[opname](ins, {k: v for k, v in attrs.items()}, ctx)
        for v, s in zip(res_list, outs):
            self.env[id(v)] = s
        self.log.append(f"{opname}({', '.join(a.name if isinstance(a, ir.Value) else repr(a) for a in args)}{', ' + str(attrs) if attrs else ''}"
                        f"{' [inputs by keyword: ' + ', '.join(kw_inputs) + ']' if kw_inputs else ''})")
        return res

    def pick(self, dt=None, shape=None):
        c = [v for v in self.pool if (dt is None or self.sv(v).dtype == dt) and (shape is None or self.sv(v).shape == tuple(shape))]
        return self.r.choice(c) if c else None

    def step(self):
        r = self.r
        k = r.randrange(12)
        a = self.pick(DT.FLOAT)
        if a is None:
            return
        shp = self.sv(a).shape
        if k == 0:
            b = r.choice(LITS_F) if r.random() < 0.6 else (self.pick(DT.FLOAT, shp) or a)
            args = [a, b] if r.random() < 0.5 else [b, a]
            like = 0 if isinstance(args[0], ir.Value) else 1
            v = self.apply(r.choice(["Add", "Sub", "Mul"]), args, like=like)
        elif k == 1:
            v = self.apply(r.choice(["Relu", "Neg", "Abs", "Identity"]), [a])
        elif k == 2:
            lit = r.choice(LITS_F)
            c = self.apply(r.choice(["Less", "Greater", "Equal"]), [a, lit], like=0)
            v = self.apply("Where", [c, a, r.choice(LITS_F)], like=1)
        elif k == 3:
            v = self.apply("Clip", [a, r.choice([-1.0, 0, -0.0]), r.choice([1.0, 2, 0.5])], like=0)
        elif k == 8:
            # an optional input skipped by giving a later one by keyword: it must keep its position
            hi = r.choice([1.0, 2, 0.5])
            lo = r.choice([-1.0, 0])
            if r.random() < 0.6:
                v = self.apply("Clip", [a], like=0, kw_inputs={"max": hi}, positions=[a, None, hi])
            else:
                v = self.apply("Clip", [a], like=0, kw_inputs={"max": hi, "min": lo}, positions=[a, lo, hi])
        elif k == 4:
            i = self.pick(DT.INT64)
            if i is None:
                i = self.apply("Cast", [a], {"to": int(DT.INT64)})
                self.pool.append(i)
            j = self.apply(r.choice(["Add", "Mul"]), [i, r.choice(LITS_I)], like=0)
            v = self.apply("Cast", [j], {"to": int(DT.FLOAT)})
        elif k == 5:
            name = f"named_{len(self.log)}"
            v = self.apply("Add", [a, r.choice(LITS_F)], like=0, outputs=[name])
        elif k == 6:
            v = self.apply("Max", [a, r.choice(LITS_F), r.choice(LITS_F)], like=0)
        elif k == 7 and len(shp) >= 1:
            v = self.apply("ReduceSum", [a, [0]], {"keepdims": 1})
        elif k == 9 and len(shp) >= 1 and shp[0] >= 1:
            # the same integer as a scalar literal and as a one-element list literal (different tensors: rank 0 / rank 1)
            idx = r.choice([0, -1])
            v = self.apply("Gather", [a, idx], {"axis": 0})
        elif k == 10:
            u = self.apply("Unsqueeze", [a, [0]])
            v = self.apply("Squeeze", [u, [r.choice([0, -1]) if len(shp) == 0 else 0]])
        elif k == 11 and len(shp) >= 1 and shp[0] >= 1:
            g = self.apply("Gather", [a, [r.choice([0, -1])]], {"axis": 0})
            v = self.apply("ReduceSum", [g, [0]], {"keepdims": 0})
        else:
            v = self.apply("Mul", [a, a])
        self.pool.append(v)


def trace_program(seed: int, idx: int):
    """-> (model proto bytes, spec, shadow outputs info) built in this process"""
    import onnxscript
    from vp.symonnx.values import fresh
    r = random.Random(seed * 9973 + idx)
    shape = r.choice([(2,), (3,), (2, 2), ()])
    g = ir.Graph(name=f"trace{idx}", inputs=[], outputs=[], nodes=[], opset_imports={"": 18})
    x = ir.Value(name="x", type=ir.TensorType(DT.FLOAT), shape=ir.Shape(list(shape)))
    y = ir.Value(name="y", type=ir.TensorType(DT.FLOAT), shape=ir.Shape(list(shape)))
    g.inputs.extend([x, y])
    gb = onnxscript.GraphBuilder(g)
    env = {id(x): fresh("x", shape, DT.FLOAT), id(y): fresh("y", shape, DT.FLOAT)}
    inputs = {"x": env[id(x)], "y": env[id(y)]}
    tr = Tracer(r, gb.op, env)
    tr.pool = [x, y]
    scoped = r.random() < 0.4
    if scoped:
        gb.push_module("layer1")
    if r.random() < 0.5:
        # the first node of the main graph is an Add: a subgraph that also starts with an Add restarts the same generated numbering
        tr.pool.append(tr.apply("Add", [x, y]))
    for _ in range(r.randint(3, 8)):
        tr.step()
    if scoped:
        gb.pop_module()
    mode = r.randrange(4)
    last = tr.pool[-1]
    if mode == 0 and len(tr.sv(last).shape) >= 0:
        # If with subgraphs built by builder.subgraph capturing outer values
        from onnxscript.onnx_types import FLOAT
        from onnxscript._internal.builder import make_value
        cap = tr.pick(DT.FLOAT, tr.sv(last).shape) or last
        lit_t, lit_e = r.choice(LITS_F), r.choice(LITS_F)
        tshape = tr.sv(last).shape

        deep = r.random() < 0.6  # two-node bodies: the intermediate value gets a generated name inside the subgraph

        def then_fn(op_):
            return op_.Add(op_.Add(cap, lit_t), cap) if deep else op_.Add(cap, lit_t)

        def else_fn(op_):
            return op_.Mul(op_.Add(cap, cap), lit_e) if deep else op_.Mul(cap, lit_e)
        tb = gb.subgraph(then_fn, inputs=[], outputs=[make_value("then_out", FLOAT[tshape] if tshape else FLOAT)], name="then_b")
        eb = gb.subgraph(else_fn, inputs=[], outputs=[make_value("else_out", FLOAT[tshape] if tshape else FLOAT)], name="else_b")
        s = tr.apply("ReduceSum", [last], {"keepdims": 0})
        c = tr.apply("Greater", [s, 0.5], like=0)
        res = gb.op.If(c, then_branch=tb, else_branch=eb)
        from vp.symonnx import ops as O
        from vp.symonnx.values import SV, e_ite, ew
        ctx = O.Ctx(18)
        a_t = O.OPS["Add"]([tr.sv(cap), _lit_to_sv(lit_t, DT.FLOAT)], {}, ctx)[0]
        a_e = O.OPS["Mul"]([tr.sv(cap), _lit_to_sv(lit_e, DT.FLOAT)], {}, ctx)[0]
        if deep:
            a_t = O.OPS["Add"]([a_t, tr.sv(cap)], {}, ctx)[0]
            a_e = O.OPS["Mul"]([O.OPS["Add"]([tr.sv(cap), tr.sv(cap)], {}, ctx)[0], _lit_to_sv(lit_e, DT.FLOAT)], {}, ctx)[0]
        cv = tr.sv(c).arr.reshape(())[()]
        env[id(res)] = SV(ew(lambda p, q: e_ite(cv, p, q, "f"), a_t.arr, a_e.arr), DT.FLOAT)
        tr.pool.append(res)
        tr.log.append(f"If(Greater(ReduceSum({last.name}),0.5), Add({cap.name},{lit_t}), Mul({cap.name},{lit_e}))")
    outs = [tr.pool[-1]]
    if len(tr.pool) > 3 and r.random() < 0.5:
        o2 = tr.pool[-2]
        if o2 not in (x, y) and o2 is not outs[0]:
            outs.append(o2)
    outs = [o for o in outs if o not in (x, y)] or [gb.op.Identity(x)]
    if outs[0] not in tr.pool:
        env[id(outs[0])] = env[id(x)]
    g.outputs.extend(outs)
    model = ir.Model(g, ir_version=10)
    return model, inputs, [env[id(o)] for o in outs], tr.log


def _trace_worker(payload):
    seed, idx = payload
    from vp.symonnx import equiv as Q
    from vp.symonnx import interp as I
    from vp.symonnx import replay as R
    from vp.symonnx import wellformed as W
    from vp.symonnx.values import NotEncoded, Malformed
    rec = {"trace": idx, "verdict": None, "detail": "", "problems": []}
    stats = Q.Stats()
    try:
        model, inputs, shadow, log = trace_program(seed, idx)
        rec["log"] = log
        mp = ir.to_proto(model)
        rec["nodes"] = len(mp.graph.node)
        for p in W.check_model(mp):
            rec["problems"].append("malformed: " + p)
        names = [n.name for n in model.graph if n.name]
        if len(set(names)) != len(names):
            rec["problems"].append("duplicate node names")
        vnames = [o.name for n in model.graph for o in n.outputs] + [v.name for v in model.graph.inputs] + list(model.graph.initializers)
        if len(set(vnames)) != len(vnames):
            rec["problems"].append(f"duplicate value names: {sorted(n for n in set(vnames) if vnames.count(n) > 1)[:3]}")
        try:
            onnx.checker.check_model(mp, full_check=True)
        except Exception as e:  # noqa: BLE001
            rec["problems"].append("onnx.checker: " + str(e)[:200])
        r1 = I.interpret(ir.from_proto(mp), inputs)
        r2 = [{"pc": [], "bottom": None, "outs": shadow, "assumptions": [], "unwind": [], "uf": set()}]
        v = Q.compare(r1, r2, inputs, stats)
        rec["verdict"] = v["verdict"]
        rec["detail"] = v.get("detail", "")
        if v["verdict"] == "cex":
            rec["inputs"] = v.get("inputs")
            # replay: the built graph on onnxruntime vs the trace replayed with numpy through onnx.reference ops
            feeds = R.np_inputs(v["inputs"]) if v.get("inputs") else {}
            o, e = R.ort_run(mp.SerializeToString(), feeds)
            rec["replay"] = {"ort": R.to_list(o), "ort_err": e, "model_text": onnx.printer.to_text(mp)[:3000]}
    except NotEncoded as e:
        rec["verdict"] = "not_encoded"
        rec["detail"] = str(e)[:200]
    except Malformed as e:
        rec["verdict"] = "malformed"
        rec["detail"] = str(e)[:200]
    except Exception as e:  # noqa: BLE001
        rec["verdict"] = "exception"
        rec["detail"] = f"{type(e).__name__}: {str(e)[:200]}"
        rec["tb"] = traceback.format_exc()[-1200:]
    rec["solver"] = stats.as_dict()
    return rec


# ------------------------------------------------------------------ call vs call_inline
CALL_SRC = '''
@script(default_opset=op)
def scale_shift(a: FLOAT[...], b: FLOAT[...], alpha: float = 2.0, k: int = 1):
    t = a * alpha + b
    return t + op.Cast(k, to=1)

@script(default_opset=op)
def two_out(a: FLOAT[...]):
    return a + 1.0, op.Relu(a) * 0.5

@script(default_opset=op)
def branchy(a: FLOAT[...], flip: int = 0):
    c = op.ReduceSum(a, keepdims=0) > 0.0
    if c:
        r = a + op.Cast(flip, to=1)
    else:
        r = -a
    return r

@script(default_opset=op)
def calls_other(a: FLOAT[...]):
    u, v = two_out(a)
    return scale_shift(u, v, alpha=0.5) - a
'''


def _call_worker(payload):
    fname, kwargs, lits = payload[:3]
    lit_arg = len(payload) > 3 and payload[3]   # the function's second tensor argument is a Python literal
    import onnxscript
    from vp.symonnx import equiv as Q
    from vp.symonnx import interp as I
    from vp.symonnx import scripts as S
    from vp.symonnx import wellformed as W
    from vp.symonnx.values import NotEncoded, Malformed, fresh
    rec = {"call": fname + (" (literal argument)" if lit_arg else ""), "kwargs": kwargs, "verdict": None, "detail": "", "problems": []}
    stats = Q.Stats()
    try:
        import os
        mod = S.load_source(S.HEADER + CALL_SRC + f"# worker {os.getpid()}\n", "c18")
        passthrough = fname.startswith("ir_passthrough")
        if passthrough:
            # an IR function (builder.build_function) one of whose outputs IS one of its inputs; called on GRAPH INPUTS directly
            from onnxscript._internal import builder as B_
            fn = B_.build_function(lambda op_, a, c: (op_.Relu(a), c), [ir.Value(name="a"), ir.Value(name="c")], domain="vp.d", name="F",
                                   opset_imports={"": 18})
        else:
            fn = getattr(mod, fname)
        protos = []
        for how in ("call", "call_inline"):
            g = ir.Graph(name=f"g_{how}", inputs=[], outputs=[], nodes=[], opset_imports={"": 18})
            x = ir.Value(name="x", type=ir.TensorType(DT.FLOAT), shape=ir.Shape([2]))
            y = ir.Value(name="y", type=ir.TensorType(DT.FLOAT), shape=ir.Shape([2]))
            g.inputs.extend([x, y])
            gb = onnxscript.GraphBuilder(g)
            t = gb.op.Add(x, lits[0])
            args = [t] if fname != "scale_shift" else [t, lits[1] if lit_arg else y]
            if passthrough:
                args = [x, y] if fname == "ir_passthrough" else [x, x]
            res = getattr(gb.op, how)(fn, *args, **kwargs)
            res = list(res) if isinstance(res, (tuple, list)) else [res]
            out = gb.op.Mul(res[0], lits[1])
            g.outputs.append(out)
            if len(res) > 1:
                # (the passthrough hosts must not return a graph input directly themselves)
                g.outputs.append(gb.op.Neg(res[1]) if passthrough else res[1])
            m = ir.Model(g, ir_version=10)
            for f in gb.functions.values():
                m.functions[f.identifier()] = f
            mp = ir.to_proto(m)
            for p in W.check_model(mp):
                if passthrough and how == "call" and "returned directly" in p:
                    continue   # the user-supplied function F itself returns its input: not the builder's doing
                rec["problems"].append(f"{how}: malformed: {p}")
            if [i.name for i in mp.graph.input] != ["x", "y"]:
                rec["problems"].append(f"{how}: graph inputs renamed to {[i.name for i in mp.graph.input]}")
            protos.append(mp)
        inputs = {"x": fresh("x", (2,), DT.FLOAT), "y": fresh("y", (2,), DT.FLOAT)}
        r1 = I.interpret(ir.from_proto(protos[0]), inputs)
        r2 = I.interpret(ir.from_proto(protos[1]), inputs)
        v = Q.compare(r1, r2, inputs, stats)
        rec["verdict"] = v["verdict"]
        rec["detail"] = v.get("detail", "")
        if v["verdict"] == "cex":
            from vp.symonnx import replay as R
            import base64
            feeds = R.np_inputs(v["inputs"]) if v.get("inputs") else {}
            rep = R.replay_pair(protos[0].SerializeToString(), protos[1].SerializeToString(), feeds)
            rec["replay"] = {k: rep.get(k) for k in ("reproduced", "difference", "ort_err_a", "ort_err_b")}
            rec["replay_record"] = {"engine": "S", "inputs": v.get("inputs"), "rebuild": {"kind": "pair", "transformation": "call vs call_inline",
                                    "model_a_b64": base64.b64encode(protos[0].SerializeToString()).decode(),
                                    "model_b_b64": base64.b64encode(protos[1].SerializeToString()).decode()}}
    except NotEncoded as e:
        rec["verdict"] = "not_encoded"
        rec["detail"] = str(e)[:200]
    except Malformed as e:
        rec["verdict"] = "malformed"
        rec["detail"] = str(e)[:200]
    except Exception as e:  # noqa: BLE001
        rec["verdict"] = "exception"
        rec["detail"] = f"{type(e).__name__}: {str(e)[:200]}"
        rec["tb"] = traceback.format_exc()[-1200:]
    rec["solver"] = stats.as_dict()
    return rec


# ------------------------------------------------------------------ module trees (enumeration)
def module_trees(seed: int, n: int):
    """random nn module trees; returns list of problems"""
    import onnxscript
    from onnxscript import nn
    problems, checked = [], 0
    r = random.Random(seed)

    class Leaf(nn.Module):
        def __init__(self, k, name=None):
            super().__init__(name)
            self.weight = nn.Parameter([k], name="weight")
            if r.random() < 0.5:
                self.bias = nn.Parameter([k], name="bias")
            else:
                self.bias = None

        def forward(self, op, x):
            y = op.Mul(x, self.weight)
            if self.bias is not None:
                y = op.Add(y, self.bias)
            return y

    def make(depth):
        kind = r.randrange(4) if depth > 0 else 0
        if kind == 0:
            return Leaf(2)
        if kind == 1:
            class Block(nn.Module):
                def __init__(self):
                    super().__init__(None)
                    self.a = make(depth - 1)
                    self.b = make(depth - 1)
                    if r.random() < 0.3:
                        self.scale = nn.Parameter([2], name="scale")
                    else:
                        self.scale = None

                def forward(self, op, x):
                    y = self.b(op, self.a(op, x))
                    return op.Mul(y, self.scale) if self.scale is not None else y
            return Block()
        if kind == 2:
            class ListBlock(nn.Module):
                def __init__(self):
                    super().__init__(None)
                    self.layers = nn.ModuleList([make(depth - 1) for _ in range(r.randint(1, 3))])

                def forward(self, op, x):
                    for layer in self.layers:
                        x = layer(op, x)
                    return x
            return ListBlock()
        return nn.Sequential(*[make(depth - 1) for _ in range(r.randint(1, 3))])

    for t in range(n):
        try:
            root = make(r.randint(1, 4))
            root_name = r.choice(["model", "net", "m0"])
            root._set_name(root_name)
            g = ir.Graph(name="g", inputs=[], outputs=[], nodes=[], opset_imports={"": 18})
            x = ir.Value(name="x", type=ir.TensorType(DT.FLOAT), shape=ir.Shape([2]))
            g.inputs.append(x)
            gb = onnxscript.GraphBuilder(g)
            y = root(gb.op, x)
            g.outputs.append(y)
            keys = list(root.state_dict().keys()) if hasattr(root, "state_dict") else [k for k, _ in root.named_parameters()]
            want = sorted(f"{root_name}.{k}" for k in keys)
            got = sorted(n_ for n_ in g.initializers if not n_.startswith("const_"))
            checked += 1
            if want != got:
                problems.append(f"tree {t}: initializer names {got} != root + state_dict keys {want}")
            np_keys = sorted(k for k, _ in root.named_parameters())
            if sorted(keys) != np_keys:
                problems.append(f"tree {t}: state_dict keys {sorted(keys)} != named_parameters {np_keys}")
            vnames = [o.name for nd in g for o in nd.outputs] + list(g.initializers) + ["x"]
            if len(set(vnames)) != len(vnames):
                problems.append(f"tree {t}: duplicate value names")
            nnames = [nd.name for nd in g]
            if len(set(nnames)) != len(nnames):
                problems.append(f"tree {t}: duplicate node names")
        except Exception as e:  # noqa: BLE001
            problems.append(f"tree {t}: exception {type(e).__name__}: {str(e)[:150]}")
    return checked, problems


def domain_traces():
    """Traces that use operators of a non-default domain (a second OpBuilder of the builder, or the _domain / _version call
    options).  Verdict: validity only (every domain used is imported once; onnx.checker) -- labelled enumeration."""
    import onnx
    import onnxscript
    from vp.symonnx import wellformed as W
    problems, checked = [], 0
    cases = {
        "second OpBuilder gb.opset('com.microsoft', 1)": lambda gb, x: gb.opset("com.microsoft", 1).Gelu(x),
        "second OpBuilder after a default-domain op": lambda gb, x: gb.opset("com.microsoft", 1).Gelu(gb.op.Relu(x)),
        "_domain option on the default OpBuilder": lambda gb, x: gb.op.Gelu(x, _domain="com.microsoft"),
        "_domain and _version options": lambda gb, x: gb.op.Gelu(x, _domain="com.microsoft", _version=1),
        "two non-default domains": lambda gb, x: gb.opset("ai.onnx.ml", 3).Binarizer(gb.opset("com.microsoft", 1).Gelu(x), threshold=0.5),
        "non-default domain inside a subgraph": lambda gb, x: gb.op.If(
            gb.op.Constant(value=ir.tensor(np.array(True))),
            then_branch=gb.subgraph(lambda op2: op2.builder.opset("com.microsoft", 1).Gelu(x), inputs=[],
                                    outputs=[ir.Value(name="t_out", type=ir.TensorType(DT.FLOAT), shape=ir.Shape([2]))], name="t"),
            else_branch=gb.subgraph(lambda op2: op2.Identity(x), inputs=[],
                                    outputs=[ir.Value(name="e_out", type=ir.TensorType(DT.FLOAT), shape=ir.Shape([2]))], name="e")),
    }
    for tag, fn in cases.items():
        g = ir.Graph(name="dom", inputs=[], outputs=[], nodes=[], opset_imports={"": 18})
        x = ir.Value(name="x", type=ir.TensorType(DT.FLOAT), shape=ir.Shape([2]))
        g.inputs.append(x)
        try:
            y = fn(onnxscript.GraphBuilder(g), x)
            y.type, y.shape = ir.TensorType(DT.FLOAT), ir.Shape([2])
            g.outputs.append(y)
            mp = ir.to_proto(ir.Model(g, ir_version=9))
        except Exception as e:  # noqa: BLE001
            problems.append(f"{tag}: building raised {type(e).__name__}: {str(e)[:160]}")
            continue
        checked += 1
        for p in W.check_model(mp):
            problems.append(f"{tag}: {p}")
        try:
            onnx.checker.check_model(mp)
        except Exception as e:  # noqa: BLE001
            problems.append(f"{tag}: onnx.checker: {str(e)[:160]}")
    return checked, problems


def nesting_traces():
    """Subgraphs nested two and three levels deep whose graphs carry the SAME name (the default, or one given by the caller) and the
    same operators at the same positions, capturing values of every enclosing level.  Verdicts: structural validity (no name
    redefined in a nested scope, SSA), onnx.checker, and the values on two concrete inputs against NumPy -- labelled enumeration."""
    import onnx
    import onnxscript
    from vp.symonnx import replay as R
    from vp.symonnx import wellformed as W
    problems, checked = [], 0

    def val(nm):
        return ir.Value(name=nm, type=ir.TensorType(DT.FLOAT), shape=ir.Shape([2]))

    for names, else_outer in ((None, False), (("body", "body", "body"), False), (("a", "b", "c"), False), (None, True)):
        for depth in (2, 3):
            g = ir.Graph(name="nest", inputs=[], outputs=[], nodes=[], opset_imports={"": 18})
            x = val("x")
            c = ir.Value(name="c", type=ir.TensorType(DT.BOOL), shape=ir.Shape([]))
            g.inputs.extend([x, c])
            gb = onnxscript.GraphBuilder(g)

            def level(builder, src, d, lvl):
                kw = {} if names is None else {"name": names[lvl]}

                def then_fn(op2):
                    t = op2.Add(src, 1.0)
                    if d > 1:
                        inner = level(op2.builder, t, d - 1, lvl + 1)
                        return op2.Mul(inner, t)
                    u = op2.Add(t, t)
                    return op2.Mul(u, t)
                tb = builder.subgraph(then_fn, inputs=[], outputs=[val(f"then_out_{lvl}")], **kw)
                # else_outer: the branch RETURNS the captured outer value itself (a branch output must still be produced in the branch)
                eb = builder.subgraph((lambda op2: src) if else_outer else (lambda op2: op2.Neg(src)), inputs=[],
                                      outputs=[val(f"else_out_{lvl}")], **kw)
                return builder.op.If(c, then_branch=tb, else_branch=eb)
            tag = f"nested If depth={depth} subgraph names={'default' if names is None else names[:depth]}" + (" else-branch returns the outer value" if else_outer else "")
            try:
                y = level(gb, x, depth, 0)
                y.type, y.shape = ir.TensorType(DT.FLOAT), ir.Shape([2])
                g.outputs.append(y)
                mp = ir.to_proto(ir.Model(g, ir_version=9))
            except Exception as e:  # noqa: BLE001
                problems.append(f"{tag}: building raised {type(e).__name__}: {str(e)[:160]}")
                continue
            checked += 1
            bad = [p for p in W.check_model(mp)]
            for p in bad:
                problems.append(f"{tag}: {p}")
            try:
                onnx.checker.check_model(mp, full_check=True)
            except Exception as e:  # noqa: BLE001
                problems.append(f"{tag}: onnx.checker: {str(e)[:160]}")
                continue
            if bad:
                continue
            for xv in (np.array([1.0, -2.0], dtype=np.float32), np.array([0.5, 3.0], dtype=np.float32)):
                for cv in (True, False):
                    def ref(v, d):
                        t = v + 1.0
                        return (ref(t, d - 1) * t) if d > 1 else ((t + t) * t)
                    want = ref(xv, depth) if cv else (xv if else_outer else -xv)
                    outs, err = R.ort_run(mp.SerializeToString(), {"x": xv, "c": np.array(cv)})
                    if err or not np.allclose(outs[0], want, rtol=1e-5):
                        problems.append(f"{tag}: x={xv.tolist()} c={cv}: graph {None if err else outs[0].tolist()} ({err}) vs trace {want.tolist()}")
    return checked, problems


def main(tier: str, only=None) -> int:
    run = common.Run("C18", tier, "translation_validation")
    n = 120 if tier == "quick" else 2000
    with cf.ProcessPoolExecutor(max_workers=common.jobs()) as ex:
        traces = list(ex.map(_trace_worker, [(common.seed(), i) for i in range(n)], chunksize=4))
        calls = []
        for fname, kws in (("scale_shift", [{}, {"alpha": 0.5}, {"k": -3}, {"alpha": -1.0, "k": 2}, {"alpha": 0.0}, {"k": 0}, {"alpha": 0.0, "k": 0}]),
                            ("two_out", [{}]), ("branchy", [{}, {"flip": 1}, {"flip": 0}]), ("calls_other", [{}])):
            for kw in kws:
                for lits in ((1.0, 2.0), (0, 0.5), (-0.0, 1)):
                    calls.append((fname, kw, lits))
                    if fname == "scale_shift" and kw in ({}, {"alpha": 0.5}):
                        calls.append((fname, kw, lits, True))
        calls += [("ir_passthrough", {}, (1.0, 2.0)), ("ir_passthrough_same_arg", {}, (1.0, 2.0))]
        call_res = list(ex.map(_call_worker, calls, chunksize=2))
    counts = {}
    solver = {"unsat": 0, "sat": 0, "unknown": 0, "queries": 0, "solver_s": 0.0}
    known = common.known_for("C18")

    def report(label, kind, text, rr=None):
        for k in known:
            m = k.get("match", {})
            if m.get("text_contains") and m["text_contains"] in text:
                run.known(k["text"])
                return
        path = common.write_replay("C18", rr or {"engine": "S", "harness": "c18." + label, "rebuild": {"kind": "c18"}, "problem": kind, "detail": text})
        run.violation(path, f"{label}: {kind}: {text[:220]}")
    for r in traces + call_res:
        label = f"trace{r['trace']}" if "trace" in r else f"{r['call']}{r['kwargs']}"
        counts[r["verdict"]] = counts.get(r["verdict"], 0) + 1
        for k, v in (r.get("solver") or {}).items():
            solver[k] = round(solver[k] + v, 3)
        for p in r.get("problems", []):
            report(label, "structure", p)
        if r["verdict"] == "exception":
            report(label, "exception", r["detail"] + " " + r.get("tb", "")[-300:])
        elif r["verdict"] == "cex":
            if "trace" in r:
                report(label, "value", f"built graph differs from the trace replay: {r['detail']} inputs={r.get('inputs')} log={r.get('log')}",
                       {"engine": "S", "harness": "c18." + label, "rebuild": {"kind": "c18_trace", "seed": common.seed(), "index": r["trace"]},
                        "inputs": r.get("inputs"), "log": r.get("log"), "observed": r.get("replay")})
            else:
                rep = r.get("replay", {})
                if rep.get("reproduced"):
                    rr = dict(r["replay_record"])
                    rr["harness"] = "c18." + label
                    report(label, "value", f"call vs call_inline differ: {rep.get('difference')}", rr)
                else:
                    run.harness_error(f"{label}: call/call_inline counterexample does not reproduce: {r['detail']}")
        elif r["verdict"] == "unknown":
            run.note_inconclusive(f"{label}: solver unknown")
        elif r["verdict"] == "not_encoded" and "call" in r:
            # every call host is meant to be decidable: an unencoded one hides whatever it would have shown
            run.note_inconclusive(f"{label}: not encoded ({r.get('detail')})")
    checked, problems = module_trees(common.seed(), 60 if tier == "quick" else 1000)
    for p in problems:
        report("module_tree", "naming", p)
    dom_checked, dom_problems = domain_traces()
    for p in dom_problems:
        report("domain_trace", "validity", p)
    run.coverage["non_default_domain_traces_checked"] = dom_checked
    nest_checked, nest_problems = nesting_traces()
    for p in nest_problems:
        report("nesting_trace", "validity", p)
    run.coverage["nested_subgraph_traces_checked"] = nest_checked
    from onnxscript._internal import builder as B
    run.coverage.update({
        "programs": len(traces) + len(call_res), "disagreements_checked": counts.get("cex", 0),
        "samples": [{"trace": r.get("trace"), "log": r.get("log"), "verdict": r["verdict"]} for r in traces[:6]] +
                   [{"call": r["call"], "kwargs": r["kwargs"], "verdict": r["verdict"]} for r in call_res[:4]],
        "evaluations": len(traces) + len(call_res), "distinct_nontrivial": counts.get("equiv", 0) + counts.get("equiv_tol", 0),
        "verdicts": counts, "queries": solver, "module_trees_checked": checked, "module_tree_part_is_enumeration": True,
        "functions_encoded": [common.src_ref(B.GraphBuilder), common.src_ref(B.OpBuilder)],
    })
    run.assumptions += ["shadow evaluation uses symonnx's operator rules and the property's promotion rule (independent of the builder's casting code)",
                        "random module-tree verdicts are enumeration",
                        "c18.names.*: construction histories (nesting, attaching to a named/unnamed root, append/extend after naming, slicing) "
                        "are chosen by solver variables concretised by comparison forks; the nn/GraphBuilder code then runs concretely per history"]
    from vp import xh
    xh.run_obligations(run, ["vp.harness.c18_names"], tier, only)
    return run.finish()
