"""C03 — optimize() never changes what a model computes (translation validation, engine S)."""
from __future__ import annotations

import concurrent.futures as cf
import json

from vp import common
from vp.props import optcommon as OC

PID = "C03"


def fingerprint(rec, model):
    return f"{model}|{rec['transformation']}"


DISCONTINUOUS = {"Greater", "Less", "GreaterOrEqual", "LessOrEqual", "Equal", "Floor", "Ceil", "Round", "Sign", "ArgMax", "ArgMin", "Cast",
                 "CastLike", "Where", "If", "Mod", "TopK", "NonZero", "IsNaN", "IsInf"}


def aggregate(run, results, pid, want_value=True, want_sides=False):
    counts, solver = {}, {"unsat": 0, "sat": 0, "unknown": 0, "queries": 0, "solver_s": 0.0}
    samples, n_pairs, n_changed, uf_models = [], 0, 0, 0
    known = [k for k in common.known_for(pid) if k.get("engine") == "S"]
    side_counts = {"exceptions": 0, "malformed": 0, "checker": 0, "signature_changed": 0, "initializer_inputs_lost": 0}

    def known_match(rec, r):
        for k in known:
            m = k.get("match", {})
            if m.get("ops_all") and not set(m["ops_all"]) <= set(r["ops"]):
                continue
            if m.get("detail_contains") and m["detail_contains"] not in (rec.get("detail") or "") + json.dumps(rec.get("side", {})):
                continue
            if m.get("verdict") and m["verdict"] != rec.get("verdict"):
                continue
            if m.get("transformation_in") and rec.get("transformation") not in m["transformation_in"]:
                continue
            mc = m.get("model_contains")
            if mc and not all(x in r["model"] for x in ([mc] if isinstance(mc, str) else mc)):
                continue
            if k.get("diagnose") == "unused_initializer_input_dropped":
                if "default of an unused graph input dropped" not in (rec.get("detail") or ""):
                    continue
            elif k.get("diagnose") and not OC.diagnose(k["diagnose"], rec):
                continue
            return k
        return None

    for r in results:
        if r["error"]:
            run.harness_error(f"{r['model']}: {r['error'][:600]}")
            continue
        for k, v in r["solver"].items():
            solver[k] = round(solver[k] + v, 3)
        for rec in r["records"]:
            n_pairs += 1
            n_changed += 1 if rec.get("changed") else 0
            counts[rec["verdict"]] = counts.get(rec["verdict"], 0) + 1
            if rec.get("uf"):
                uf_models += 1
            if want_value and rec["verdict"] == "cex":
                rep = rec.get("replay", {})
                if rec.get("kind") == "error-behaviour" and rec.get("spec_orig_fails") and not rep.get("ort_err_a"):
                    # the ONNX specification rejects this input for the ORIGINAL model (symbolic semantics: a shape / index
                    # constraint of an operator is violated) but onnxruntime tolerates it (typically zero-size tensors):
                    # the original's result is not defined, the input is outside the property's quantifier.  Counted, no verdict.
                    counts["spec_invalid_input_tolerated_by_runtime"] = counts.get("spec_invalid_input_tolerated_by_runtime", 0) + 1
                elif rep.get("reproduced"):
                    kf = known_match(rec, r)
                    if kf:
                        run.known(kf["text"])
                    else:
                        rr = dict(rec["replay_record"])
                        rr["harness"] = f"{pid.lower()}.{r['model']}.{rec['transformation']}"
                        path = common.write_replay(pid, rr)
                        run.violation(path, f"{r['model']} {rec['transformation']}: {rec.get('detail')} | {str(rep.get('difference'))[:160]}")
                elif rec.get("uf"):
                    counts["cex_not_reproduced_uf"] = counts.get("cex_not_reproduced_uf", 0) + 1
                elif rec.get("grid") == "none":
                    # the only counterexamples are not float32-representable; rounded to float32 they do not reproduce
                    counts["cex_only_off_float_grid"] = counts.get("cex_only_off_float_grid", 0) + 1
                    run.note_inconclusive(f"{r['model']} {rec['transformation']}: the solver's counterexample is not float32-representable "
                                          f"and does not reproduce after rounding (difference confined to a rounding-sized input region)")
                elif set(r.get("ops") or ()) & DISCONTINUOUS:
                    # the symbolic semantics is over the reals: at a comparison / rounding / cast-to-int a difference that exists
                    # in exact arithmetic can vanish in float32 (and the two sides then take the same branch).  Not a verdict
                    # either way: inconclusive, counted.
                    counts["cex_not_reproduced_discontinuity"] = counts.get("cex_not_reproduced_discontinuity", 0) + 1
                    run.note_inconclusive(f"{r['model']} {rec['transformation']}: the exact-arithmetic counterexample does not reproduce in float32 "
                                          f"(model has discontinuous ops {sorted(set(r.get('ops') or ()) & DISCONTINUOUS)})")
                else:
                    run.harness_error(f"{r['model']} {rec['transformation']}: counterexample does not reproduce on onnxruntime "
                                      f"({rec.get('detail')}; replay={rep})")
            if rec["verdict"] == "unknown":
                run.note_inconclusive(f"{r['model']} {rec['transformation']}: solver unknown/timeout")
            if want_sides:
                s = rec.get("side", {})
                problems = []
                if rec["verdict"] == "exception":
                    side_counts["exceptions"] += 1
                    problems.append(("exception", rec["detail"]))
                if s.get("malformed") and not s.get("input_malformed"):
                    side_counts["malformed"] += 1
                    problems.append(("malformed", s["malformed"][0]))
                if s.get("checker"):
                    side_counts["checker"] += 1
                    problems.append(("checker", s["checker"]))
                if s.get("signature_changed"):
                    side_counts["signature_changed"] += 1
                    problems.append(("signature", s["signature_changed"]))
                if s.get("initializer_inputs_lost"):
                    side_counts["initializer_inputs_lost"] += 1
                    problems.append(("initializer-input folded", str(s["initializer_inputs_lost"])))
                if s.get("unused_initializer_input_defaults_dropped"):
                    side_counts["unused_defaults_dropped"] = side_counts.get("unused_defaults_dropped", 0) + 1
                    problems.append(("default of an unused graph input dropped", str(s["unused_initializer_input_defaults_dropped"])))
                for kind, text in problems:
                    rec2 = dict(rec)
                    rec2["detail"] = f"{kind}: {text}"
                    kf = known_match(rec2, r)
                    if kf:
                        run.known(kf["text"])
                    else:
                        path = common.write_replay(pid, {"engine": "S", "harness": f"{pid.lower()}.{r['model']}.{rec['transformation']}",
                                                         "rebuild": {"kind": "side", "transformation": rec["transformation"]},
                                                         "model": r["model"], "problem": kind, "detail": text, "tb": rec.get("tb")})
                        run.violation(path, f"{r['model']} {rec['transformation']}: {kind}: {text[:200]}")
        if len(samples) < 10:
            samples.append({"model": r["model"], "ops": r["ops"], "features": r["features"],
                            "records": [{k: rec.get(k) for k in ("transformation", "verdict", "changed", "nodes_before", "nodes_after")} for rec in r["records"]],
                            "solver": r["solver"]})
    return counts, solver, samples, n_pairs, n_changed, uf_models, side_counts


def main(tier: str, only=None) -> int:
    run = common.Run(PID, tier, "translation_validation")
    loop_bound = 3 if tier == "quick" else 4
    from vp.symonnx import selftest
    st = selftest.node_tests(limit=None if tier == "thorough" else 250)
    run.coverage["translator_validation"] = {k: (v if k != "failed" else v[:20]) for k, v in st.items()}
    if st["failed"]:
        run.harness_error(f"symonnx self-test failed: {st['failed'][:5]}")
        return run.finish()
    items = OC.corpus(tier, common.seed())
    try:
        from vp.props import rulehosts
        items += rulehosts.rule_models_for_optimizer(tier)
    except ImportError:
        pass
    if only:
        items = [i for i in items if only in i[2]]
    payloads = [(mb, spec, name, feats, tier, loop_bound) for mb, spec, name, feats in items]
    with cf.ProcessPoolExecutor(max_workers=common.jobs()) as ex:
        results = list(ex.map(OC.model_worker, payloads, chunksize=2))
    counts, solver, samples, n_pairs, n_changed, uf_models, _ = aggregate(run, results, PID, want_value=True, want_sides=False)
    from onnxscript.optimizer import _constant_folding, _optimizer
    from onnxscript import rewriter
    run.coverage.update({
        "programs": len(items), "disagreements_checked": counts.get("cex", 0), "samples": samples,
        "model_transformation_pairs": n_pairs, "pairs_where_model_changed": n_changed,
        "evaluations": n_pairs, "distinct_nontrivial": n_changed,
        "verdicts": counts, "queries": solver, "solver_s": solver["solver_s"], "pairs_with_uninterpreted_functions": uf_models,
        "transformations": [t for t, _ in OC.transformations(tier)],
        "bounds": {"loop_unroll": loop_bound, "rank": "<=3", "dims": "<=3", "float_box": 64, "int_box": 2**20},
        "functions_encoded": [common.src_ref(_optimizer.optimize_ir), common.src_ref(_constant_folding.FoldConstantsPass),
                              common.src_ref(rewriter.rewrite)],
    })
    run.assumptions += ["floats as reals (NaN/inf/overflow/signed zero outside the claim)", f"loops unrolled {loop_bound}x",
                        "graph inputs that have initializers are symbolic (overridable defaults)",
                        "model structure enumerated by a seeded generator; input values decided by z3"]
    return run.finish()
