"""Host models for the shipped rewrite rules (C05-L1; shared with C03/C04/C09 so that every default rule
fires at least once there).  Each family enumerates the rule's parameter space: operand ranks and
broadcast shapes ([1], [1,1]), constant edge values (exact, eps-sized, almost-1, inverted bounds),
attribute values, the three constant forms (initializer / Constant node / graph input with default),
near-misses (extra consumer, intermediate that is a graph output)."""
from __future__ import annotations

import itertools

import numpy as np
import onnx
from onnx import TensorProto as TP
from onnx import helper as oh
from onnx import numpy_helper as nh

F, I64, B = TP.FLOAT, TP.INT64, TP.BOOL
f32 = np.float32


def _const(name, arr, how, nodes, inits, inputs):
    arr = np.asarray(arr)
    if how == "init":
        inits.append(nh.from_array(arr, name))
    elif how == "node":
        nodes.insert(0, oh.make_node("Constant", [], [name], value=nh.from_array(arr, name + "_v")))
    elif how == "input":  # overridable default: must NOT be treated as a constant
        inits.append(nh.from_array(arr, name))
        dt = {np.dtype(np.float32): F, np.dtype(np.int64): I64, np.dtype(np.bool_): B, np.dtype(np.int32): TP.INT32,
              np.dtype(np.uint8): TP.UINT8, np.dtype(np.int8): TP.INT8}[arr.dtype]
        inputs.append((name, dt, list(arr.shape)))
    else:
        raise ValueError(how)


class H:
    """one host model under construction"""

    def __init__(self, tag, opset=18):
        self.tag, self.opset = tag, opset
        self.nodes, self.inits, self.inputs, self.outputs = [], [], [], []
        self.out_types = {}  # fallback declarations for outputs whose type shape inference does not give
        self.trust_inference = True  # False: onnx shape inference would read overridable defaults as constants; declare by hand

    def inp(self, name, dt, shape):
        self.inputs.append((name, dt, list(shape)))
        return name

    def c(self, name, arr, how="init"):
        _const(name, arr, how, self.nodes, self.inits, self.inputs)
        return name

    def n(self, op, ins, outs, **attrs):
        dom = attrs.pop("domain", "")
        self.nodes.append(oh.make_node(op, ins, outs if isinstance(outs, list) else [outs], domain=dom, **attrs))
        return outs

    def out(self, *names):
        self.outputs.extend(names)

    def build(self):
        g = oh.make_graph(self.nodes, self.tag.replace(" ", "_"),
                          [oh.make_tensor_value_info(n, dt, sh) for n, dt, sh in self.inputs],
                          [oh.make_empty_tensor_value_info(n) for n in self.outputs], self.inits)
        m = oh.make_model(g, opset_imports=[oh.make_opsetid("", self.opset)], ir_version=9 if self.opset <= 20 else 10)
        try:
            mi = onnx.shape_inference.infer_shapes(m, strict_mode=False, data_prop=True)
            vi = {v.name: v for v in list(mi.graph.value_info) + list(mi.graph.output)}
            del m.graph.output[:]
            for n in self.outputs:
                if n in self.out_types and (not self.trust_inference or not (n in vi and vi[n].type.tensor_type.HasField("shape"))):
                    m.graph.output.append(oh.make_tensor_value_info(n, *self.out_types[n]))
                elif n in vi and vi[n].type.HasField("tensor_type"):
                    m.graph.output.append(vi[n])
                else:
                    m.graph.output.append(oh.make_empty_tensor_value_info(n))
            if self.trust_inference:
                m.graph.value_info.extend([v for v in mi.graph.value_info])
        except Exception:  # noqa: BLE001
            pass
        spec = [(n, int(dt), tuple(sh)) for n, dt, sh in self.inputs]
        return m.SerializeToString(), spec, self.tag


FORMS = ["init", "node", "input"]
XSHAPES = [(2, 3), (3,), (), (1, 3), (2, 1, 2), (0,), (2, 0)]
CSHAPES = [(), (1,), (1, 1)]


def hosts_identity_ops():
    """add_0 / sub_0 / mul_by_1 / div_by_1"""
    out = []
    vals = {"Add": [0.0, 1e-9, -0.0, 1.0], "Sub": [0.0, 1e-9], "Mul": [1.0, 1.0000001, 0.999999, 1.00002, 0.0], "Div": [1.0, 1.0000001, 1.00002]}
    for op, vs in vals.items():
        for v, xs, cs, form, swap in itertools.product(vs, XSHAPES[:5], CSHAPES + [None], FORMS, [False, True]):
            if swap and op in ("Sub", "Div"):
                continue
            if cs is None:
                cs = xs  # full-shape constant
            if form != "init" and (cs != () or xs != (2, 3)):
                continue
            h = H(f"{op}({'c,x' if swap else 'x,c'}) c={v} cshape={list(cs)} x={list(xs)} form={form}")
            h.inp("x", F, xs)
            h.c("c", np.full(cs, v, dtype=f32), form)
            h.n(op, ["c", "x"] if swap else ["x", "c"], "y")
            h.n("Neg", ["y"], "z")
            h.out("z")
            out.append(h.build())
    # integer variants
    for op, v in (("Add", 0), ("Mul", 1), ("Sub", 0)):
        h = H(f"{op} int64 c={v}")
        h.inp("x", I64, (3,))
        h.c("c", np.array(v, dtype=np.int64))
        h.n(op, ["x", "c"], "y")
        h.out("y")
        out.append(h.build())
    # near-miss: intermediate is a graph output too
    h = H("Add(x,0) where result is also consumed twice")
    h.inp("x", F, (2,))
    h.c("c", np.array(0, dtype=f32))
    h.n("Add", ["x", "c"], "y")
    h.n("Mul", ["y", "y"], "z")
    h.out("z", "y")
    out.append(h.build())
    return out


def hosts_casts():
    out = []
    types = [(F, "f"), (I64, "i"), (TP.DOUBLE, "d"), (B, "b"), (TP.INT32, "i32"), (TP.FLOAT16, "h")]
    for (t0, n0), (t1, n1), (t2, n2) in itertools.product(types[:4], types, types[:5]):
        if t0 == B and t1 != B:
            pass
        h = H(f"Cast chain {n0}->{n1}->{n2}")
        h.inp("x", t0, (3,))
        h.n("Cast", ["x"], "a", to=t1)
        h.n("Cast", ["a"], "b", to=t2)
        h.out("b")
        out.append(h.build())
    # the only intermediate-cast eliminations cast_cast_rule allows: ... -> FLOAT -> FLOAT16 / BFLOAT16
    for (t0, n0), (t2, n2) in itertools.product(types[:4] + [(TP.FLOAT16, "h")], [(TP.FLOAT16, "h"), (TP.BFLOAT16, "bf")]):
        h = H(f"Cast chain {n0}->f->{n2} (then back to f)")
        h.inp("x", t0, (3,))
        h.n("Cast", ["x"], "a", to=F)
        h.n("Cast", ["a"], "b", to=t2)
        h.n("Cast", ["b"], "c", to=F)
        h.out("c")
        out.append(h.build())
    for t, n in types[:4]:
        h = H(f"no-op Cast {n}->{n}")
        h.inp("x", t, (2, 2))
        h.n("Cast", ["x"], "a", to=t)
        h.n("Identity", ["a"], "b")
        h.out("b")
        out.append(h.build())
    # cast_constant_of_shape
    for with_value, to in itertools.product([True, False], [F, I64, TP.DOUBLE]):
        h = H(f"Cast(ConstantOfShape(shape{', value' if with_value else ''}), to={to})")
        h.inp("x", F, (2, 3))
        h.n("Shape", ["x"], "s")
        if with_value:
            h.n("ConstantOfShape", ["s"], "z", value=nh.from_array(np.array([2], dtype=np.int64)))
        else:
            h.n("ConstantOfShape", ["s"], "z")
        h.n("Cast", ["z"], "zc", to=to)
        h.n("Cast", ["x"], "xc", to=to)
        h.n("Add", ["xc", "zc"], "y")
        h.out("y")
        out.append(h.build())
    return out


def hosts_slices():
    out = []
    big = 2**63 - 1
    for xs in [(4,), (2, 3), (0,), (1, 2, 3)]:
        r = len(xs)
        for ax in range(r):
            d = xs[ax]
            for st, en, sp in [(0, d, 1), (0, big, 1), (0, d + 5, 1), (1, d, 1), (0, d, 2), (0, d - 1, 1), (-d, big, 1) if d else (0, 0, 1), (0, -1, 1), (d - 1, -big, -1)]:
                for with_steps in (True, False):
                    if not with_steps and sp != 1:
                        continue
                    h = H(f"Slice x={list(xs)} axis={ax} [{st}:{en}:{sp}] steps_given={with_steps}")
                    h.inp("x", F, xs)
                    h.c("st", np.array([st], dtype=np.int64))
                    h.c("en", np.array([en], dtype=np.int64), "node")
                    h.c("ax", np.array([ax], dtype=np.int64))
                    ins = ["x", "st", "en", "ax"]
                    if with_steps:
                        h.c("sp", np.array([sp], dtype=np.int64))
                        ins.append("sp")
                    h.n("Slice", ins, "y")
                    h.n("Abs", ["y"], "z")
                    h.out("z")
                    out.append(h.build())
    # collapse_slice2: Slice with end = Shape(x)[axis]
    for xs in [(4,), (2, 3)]:
        h = H(f"Slice to Shape-derived end x={list(xs)}")
        h.inp("x", F, xs)
        h.n("Shape", ["x"], "sh")
        h.c("i0", np.array([0], dtype=np.int64))
        h.n("Gather", ["sh", "i0"], "d0")
        h.c("st", np.array([0], dtype=np.int64))
        h.c("ax", np.array([0], dtype=np.int64))
        h.c("sp", np.array([1], dtype=np.int64))
        h.n("Slice", ["x", "st", "d0", "ax", "sp"], "y")
        h.out("y")
        out.append(h.build())
    # slice_split: two slices covering the halves of the last axis
    for xs, cut in [((2, 4), 2), ((2, 4), 1), ((4,), 2), ((2, 6), 3), ((2, 5), 2), ((3,), 1), ((1,), 0), ((2, 7), 3)]:
        ax = len(xs) - 1
        d = xs[ax]
        for e0, s1 in [(cut, cut), (cut, cut + 1), (cut - 1, cut)]:
            h = H(f"two Slices x={list(xs)} [0:{e0}] and [{s1}:{d}]")
            h.inp("x", F, xs)
            for nm, v in (("b0", 0), ("e0", e0), ("b1", s1), ("e1", d)):
                h.c(nm, np.array([v], dtype=np.int64))
            h.c("a0", np.array([ax], dtype=np.int64))
            h.c("a1", np.array([ax], dtype=np.int64))
            h.n("Slice", ["x", "b0", "e0", "a0"], "p")
            h.n("Slice", ["x", "b1", "e1", "a1"], "q")
            h.n("Neg", ["p"], "pn")
            h.out("pn", "q")
            out.append(h.build())
        # node-order variants of an exact instance: the upper slice (and a consumer of it) before the lower slice;
        # a consumer of the lower slice between the two
        for order in ("upper_first_with_consumer", "consumer_between"):
            h = H(f"two Slices x={list(xs)} [0:{cut}] and [{cut}:{d}] order={order}")
            h.inp("x", F, xs)
            for nm, v in (("b0", 0), ("e0", cut), ("b1", cut), ("e1", d)):
                h.c(nm, np.array([v], dtype=np.int64))
            h.c("a0", np.array([ax], dtype=np.int64))
            if order == "upper_first_with_consumer":
                h.n("Slice", ["x", "b1", "e1", "a0"], "q")
                h.n("Relu", ["q"], "qr")
                h.n("Slice", ["x", "b0", "e0", "a0"], "p")
            else:
                h.n("Slice", ["x", "b0", "e0", "a0"], "p")
                h.n("Relu", ["p"], "pr")
                h.n("Slice", ["x", "b1", "e1", "a0"], "q")
                h.n("Relu", ["q"], "qr")
            h.n("Neg", ["p"], "pn")
            h.out("pn", "qr")
            out.append(h.build())
    return out


def hosts_dropout():
    out = []
    for ratio, tm, mask in itertools.product([None, 0.0, 0.5], [None, False, True], [False, True]):
        if tm is True and ratio != 0.0:
            continue
        h = H(f"Dropout ratio={ratio} training={tm} mask_used={mask}")
        h.inp("x", F, (2, 3))
        ins = ["x"]
        if ratio is not None or tm is not None:
            if ratio is not None:
                h.c("r", np.array(ratio, dtype=f32))
                ins.append("r")
            else:
                ins.append("")
            if tm is not None:
                h.c("t", np.array(tm))
                ins.append("t")
        if mask:
            h.n("Dropout", ins, ["y", "m"])
            h.n("Cast", ["m"], "mf", to=F)
            h.n("Add", ["y", "mf"], "z")
        else:
            h.n("Dropout", ins, ["y"])
            h.n("Neg", ["y"], "z")
        h.out("z")
        out.append(h.build())
    # attribute form (opset 7..11: `ratio` is an attribute; dropout_zero_rule is written against this form)
    for opset, ratio, mask in itertools.product([10, 11], [None, 0.0, 0.5], [False, True]):
        h = H(f"Dropout-{opset} attribute ratio={ratio} mask_used={mask}", opset=opset)
        h.inp("x", F, (2, 3))
        kw = {} if ratio is None else {"ratio": ratio}
        if mask:
            h.n("Dropout", ["x"], ["y", "m"], **kw)
            h.n("Cast", ["m"], "mf", to=F)
            h.n("Add", ["y", "mf"], "z")
        else:
            h.n("Dropout", ["x"], ["y"], **kw)
            h.n("Neg", ["y"], "z")
        h.out("z")
        out.append(h.build())
    return out


def hosts_dropout_runtime():
    out = []
    for ratio, mask in itertools.product([0.5, 0.0, 0.25], [False, True]):
        h = H(f"Dropout ratio={ratio} training=<graph input> mask_used={mask} seed=7")
        h.inp("x", F, (2, 3))
        h.inp("t", B, ())
        h.c("r", np.array(ratio, dtype=f32))
        if mask:
            h.n("Dropout", ["x", "r", "t"], ["y", "m"], seed=7)
            h.n("Cast", ["m"], "mf", to=F)
            h.n("Add", ["y", "mf"], "z")
        else:
            h.n("Dropout", ["x", "r", "t"], ["y"], seed=7)
            h.n("Neg", ["y"], "z")
        h.out("z")
        out.append(h.build())
        h = H(f"Dropout ratio={ratio} training=Not(<graph input>) seed=7")
        h.inp("x", F, (2, 3))
        h.inp("t", B, ())
        h.c("r", np.array(ratio, dtype=f32))
        h.n("Not", ["t"], "nt")
        h.n("Dropout", ["x", "r", "nt"], ["y"], seed=7)
        h.out("y")
        out.append(h.build())
    return out


def hosts_expand():
    out = []
    # no_op_expand and expand_before_binary_op
    cases = [((2, 3), [2, 3]), ((2, 3), [1, 1]), ((2, 3), [3]), ((2, 3), [1]), ((3,), [2, 3]), ((1, 3), [2, 3]), ((2, 3), [1, 2, 3]),
             ((3,), [1, 1, 3]), ((), [2]), ((1,), [1, 1]), ((2, 1), [2, 3]), ((0,), [0]), ((2, 3), [2, 1]),
             # a target of LOWER rank than the input is aligned with the trailing axes (its dims may coincide with the leading ones)
             ((3, 1), [3]), ((3, 3), [3]), ((3, 2), [3]), ((2, 3, 1), [2, 3]), ((2, 1, 2), [2, 1]), ((1, 3), [1]), ((3, 1), [1])]
    for xs, shp in cases:
        h = H(f"Expand x={list(xs)} shape={shp}")
        h.inp("x", F, xs)
        h.c("s", np.array(shp, dtype=np.int64))
        h.n("Expand", ["x", "s"], "y")
        h.n("Neg", ["y"], "z")
        h.out("z")
        out.append(h.build())
        for ys, op, swap in itertools.product([(2, 3), (3,), (1, 3), (), (1, 1, 3), (2, 1)], ["Add", "Mul", "Sub", "Less"], [False, True]):
            h = H(f"{op}(Expand(x={list(xs)}, {shp}), y={list(ys)}) swap={swap}")
            h.inp("x", F, xs)
            h.inp("y", F, ys)
            h.c("s", np.array(shp, dtype=np.int64), "node")
            h.n("Expand", ["x", "s"], "e")
            h.n(op, ["y", "e"] if swap else ["e", "y"], "z")
            h.out("z")
            out.append(h.build())
    # every operator the rule set is built for (list read from the rule module at run time), with the attributes and operand
    # types that operator needs: the replacement must keep them (fmod, direction) and must stay valid (PRelu broadcasts
    # the slope to X only)
    try:
        from onnxscript.rewriter.rules.common import _remove_expand_before_binary_op as _REB
        ops_of_rule = list(_REB._BROADCAST_BINARY_OPS)
    except Exception:  # noqa: BLE001
        ops_of_rule = []
    variants = []
    for opn in ops_of_rule:
        if opn in ("And", "Or", "Xor"):
            variants.append((opn, TP.BOOL, {}))
        elif opn == "BitShift":
            variants += [(opn, TP.UINT8, {"direction": "RIGHT"}), (opn, TP.UINT8, {"direction": "LEFT"})]
        elif opn.startswith("Bitwise"):
            variants.append((opn, I64, {}))
        elif opn == "Mod":
            variants += [(opn, F, {"fmod": 1}), (opn, I64, {"fmod": 1}), (opn, I64, {})]
        else:
            variants.append((opn, F, {}))
    for (opn, t, attrs), (xs, shp, ys), swap in itertools.product(
            variants, [((1, 3), [2, 3], (2, 3)), ((3,), [2, 3], (2, 3)), ((2, 3), [2, 3], (3,)), ((1,), [1, 3], (2, 3))], [False, True]):
        h = H(f"{opn}{attrs if attrs else ''}(Expand(x={list(xs)}:{t}, {shp}), y={list(ys)}) swap={swap}")
        h.inp("x", t, xs)
        h.inp("y", t, ys)
        h.c("s", np.array(shp, dtype=np.int64), "node")
        h.n("Expand", ["x", "s"], "e")
        h.n(opn, ["y", "e"] if swap else ["e", "y"], "z", **attrs)
        h.out("z")
        out.append(h.build())
    # the expand shape is NOT a constant (Shape of another input): the rule has to reason from the annotated shapes alone;
    # operands of different ranks, dims that coincide on other axes
    dyn = [((1, 3), (4, 3), (4, 1, 3)), ((1, 3), (4, 3), (4, 3)), ((1, 3), (4, 3), (3,)), ((3,), (4, 3), (4, 1, 3)), ((1, 3), (4, 3), (1, 4, 3)),
           ((1, 1), (3, 3), (3, 1, 3)), ((1, 3), (3, 3), (3, 1, 3)), ((2, 1), (2, 3), (3,)), ((2, 1), (2, 3), (2, 2, 3)), ((1, 3), (4, 3), (4, 4, 3)),
           ((1, 2, 1), (3, 2, 4), (4,)), ((1, 2, 1), (3, 2, 4), (3, 1, 4)), ((1, 2, 1), (3, 2, 4), (2, 3, 2, 4))]
    for xs, zs, ys in dyn:
        for op, swap in itertools.product(["Add", "Mul"], [False, True]):
            h = H(f"{op}(Expand(x={list(xs)}, Shape(z={list(zs)})), y={list(ys)}) swap={swap}")
            h.inp("x", F, xs)
            h.inp("z", F, zs)
            h.inp("y", F, ys)
            h.n("Shape", ["z"], "s")
            h.n("Expand", ["x", "s"], "e")
            h.n(op, ["y", "e"] if swap else ["e", "y"], "w")
            h.out("w")
            out.append(h.build())
    return out


def hosts_reshape_family():
    out = []
    # flatten_to_reshape
    for xs in [(2, 3), (2, 3, 4), (3,), (0,), (2, 0), (0, 3), (2, 0, 3), (1, 2, 2, 2)]:
        for axis in range(-len(xs), len(xs) + 1):
            h = H(f"Flatten x={list(xs)} axis={axis}")
            h.inp("x", F, xs)
            h.n("Flatten", ["x"], "y", axis=axis)
            h.n("Neg", ["y"], "z")
            h.out("z")
            out.append(h.build())
    # reshape_reshape
    for xs, s1, s2, az in [((2, 3), [3, 2], [6], 0), ((2, 3), [3, 2], [-1, 2], 0), ((2, 3), [6], [0, 3], 0), ((2, 3), [1, 6], [0, -1], 0),
                           ((2, 3), [3, 2], [2, 3], 0), ((2, 3, 4), [6, 4], [0, 2, 2], 0), ((2, 3, 4), [4, 6], [0, 0], 0),
                           ((0, 3), [3, 0], [0, 3], 1), ((2, 3), [3, 2], [0, 0], 0), ((2, 3), [-1], [2, -1], 0), ((2, 0), [0, 2], [0], 1)]:
        for form in ("init", "node"):
            h = H(f"Reshape(Reshape(x={list(xs)}, {s1}), {s2}) allowzero={az} form={form}")
            h.inp("x", F, xs)
            h.c("s1", np.array(s1, dtype=np.int64), form)
            h.c("s2", np.array(s2, dtype=np.int64), form)
            h.n("Reshape", ["x", "s1"], "a")
            if az:
                h.n("Reshape", ["a", "s2"], "b", allowzero=1)
            else:
                h.n("Reshape", ["a", "s2"], "b")
            h.out("b")
            out.append(h.build())
    # squeeze_reshape_1d
    for xs in [(3,), (1,), (1, 3), (3, 1), (1, 1), ()]:
        h = H(f"Reshape(Squeeze(x={list(xs)}), [-1])")
        h.inp("x", F, xs)
        h.n("Squeeze", ["x"], "s")
        h.c("m1", np.array([-1], dtype=np.int64))
        h.n("Reshape", ["s", "m1"], "y")
        h.out("y")
        out.append(h.build())
    # transpose_transpose, no_op_transpose
    for xs in [(2, 3), (2, 3, 4)]:
        r = len(xs)
        perms = list(itertools.permutations(range(r)))
        for p1 in perms:
            h = H(f"Transpose x={list(xs)} perm={list(p1)}")
            h.inp("x", F, xs)
            h.n("Transpose", ["x"], "y", perm=list(p1))
            h.n("Neg", ["y"], "z")
            h.out("z")
            out.append(h.build())
            for p2 in perms:
                h = H(f"Transpose(Transpose(x={list(xs)}, {list(p1)}), {list(p2)})")
                h.inp("x", F, xs)
                h.n("Transpose", ["x"], "a", perm=list(p1))
                h.n("Transpose", ["a"], "b", perm=list(p2))
                h.out("b")
                out.append(h.build())
    h = H("Transpose(Transpose(x)) default perms")
    h.inp("x", F, (2, 3, 4))
    h.n("Transpose", ["x"], "a")
    h.n("Transpose", ["a"], "b", perm=[2, 0, 1])
    h.out("b")
    out.append(h.build())
    # unsqueeze_unsqueeze
    for xs in [(3,), (2, 3), ()]:
        r = len(xs)
        for a1 in range(-(r + 1), r + 1):
            for a2 in range(-(r + 2), r + 2):
                h = H(f"Unsqueeze(Unsqueeze(x={list(xs)}, [{a1}]), [{a2}])")
                h.inp("x", F, xs)
                h.c("a1", np.array([a1], dtype=np.int64))
                h.c("a2", np.array([a2], dtype=np.int64), "node")
                h.n("Unsqueeze", ["x", "a1"], "u")
                h.n("Unsqueeze", ["u", "a2"], "v")
                h.out("v")
                out.append(h.build())
    h = H("Unsqueeze(Unsqueeze(x, [0,1]), [2])")
    h.inp("x", F, (3,))
    h.c("a1", np.array([0, 1], dtype=np.int64))
    h.c("a2", np.array([2], dtype=np.int64))
    h.n("Unsqueeze", ["x", "a1"], "u")
    h.n("Unsqueeze", ["u", "a2"], "v")
    h.out("v")
    out.append(h.build())
    # materialize_reshape_shape: Reshape(x, Concat(Shape pieces))
    for xs in [(2, 3), (2, 3, 4)]:
        h = H(f"Reshape(y, Concat(Gather(Shape(x),0), [-1])) x={list(xs)}")
        h.inp("x", F, xs)
        h.inp("y", F, xs)
        h.n("Shape", ["x"], "sh")
        h.c("i0", np.array([0], dtype=np.int64))
        h.n("Gather", ["sh", "i0"], "d0")
        h.c("m1", np.array([-1], dtype=np.int64))
        h.n("Concat", ["d0", "m1"], "tgt", axis=0)
        h.n("Reshape", ["y", "tgt"], "z")
        h.out("z")
        out.append(h.build())
    return out


def hosts_clip_relu_minmax():
    out = []
    bounds = [(-2.0, -1.0), (-1.0, 2.0), (0.0, 6.0), (1.0, -1.0), (0.5, 0.5), (-3.0, 0.0), (None, 1.0), (-1.0, None), (2.0, 3.0)]
    for (lo, hi), (lo2, hi2), kind in itertools.product(bounds, bounds[:6], ["relu_clip", "clip_relu", "clip_clip", "relu_relu"]):
        if kind != "clip_clip" and (lo2, hi2) != bounds[0]:
            continue
        h = H(f"{kind} bounds=({lo},{hi}) second=({lo2},{hi2})")
        h.inp("x", F, (3,))

        def clip(src, dst, l, u, sfx):
            ins = [src]
            if l is not None or u is not None:
                if l is not None:
                    h.c("lo" + sfx, np.array(l, dtype=f32))
                    ins.append("lo" + sfx)
                else:
                    ins.append("")
                if u is not None:
                    h.c("hi" + sfx, np.array(u, dtype=f32), "node")
                    ins.append("hi" + sfx)
            h.n("Clip", ins, dst)
        if kind == "relu_clip":
            clip("x", "a", lo, hi, "1")
            h.n("Relu", ["a"], "b")
        elif kind == "clip_relu":
            h.n("Relu", ["x"], "a")
            clip("a", "b", lo, hi, "1")
        elif kind == "clip_clip":
            clip("x", "a", lo, hi, "1")
            clip("a", "b", lo2, hi2, "2")
        else:
            h.n("Relu", ["x"], "a")
            h.n("Relu", ["a"], "b")
        h.n("Neg", ["b"], "z")
        h.out("z")
        out.append(h.build())
    # Min/Max fusions
    consts = [-1.0, 0.0, 2.0]
    for (o1, o2), c1, c2, cs, form in itertools.product([("Min", "Min"), ("Max", "Max"), ("Min", "Max"), ("Max", "Min")], consts, consts, [(), (1,), (1, 1), (3,)],
                                                        ["init", "input"]):
        if form == "input" and cs != ():
            continue
        h = H(f"{o2}({o1}(x,{c1}),{c2}) cshape={list(cs)} form={form}")
        h.inp("x", F, (2, 3))
        h.c("c1", np.full(cs, c1, dtype=f32), form)
        h.c("c2", np.full(cs, c2, dtype=f32), "node" if form == "init" else "init")
        h.n(o1, ["x", "c1"], "a")
        h.n(o2, ["a", "c2"], "b")
        h.out("b")
        out.append(h.build())
    # constants whose rank exceeds x's: Min/Max broadcast x UP to the constant's rank, a Clip (scalar bounds) would not
    for (o1, o2), xs, cs, (c1, c2) in itertools.product([("Min", "Min"), ("Max", "Max"), ("Min", "Max"), ("Max", "Min")], [(3,), (), (2, 3)],
                                                        [(1,), (1, 1), (1, 1, 1)], [(-1.0, 2.0), (2.0, -1.0)]):
        if len(cs) <= len(xs):
            continue
        h = H(f"{o2}({o1}(x,{c1}),{c2}) x={list(xs)} cshape={list(cs)} rank-raising constant")
        h.inp("x", F, xs)
        h.c("c1", np.full(cs, c1, dtype=f32))
        h.c("c2", np.full(cs, c2, dtype=f32), "node")
        h.n(o1, ["x", "c1"], "a")
        h.n(o2, ["a", "c2"], "b")
        h.out("b")
        out.append(h.build())
    # variadic Min / Max with several constants of DIFFERENT ranks (all one-element) in one node
    for (o1, o2), (s1, s2, s3) in itertools.product([("Min", "Min"), ("Max", "Max"), ("Min", "Max"), ("Max", "Min")],
                                                   [((), (1, 1), ()), ((1,), (), (1,)), ((), (), (1, 1)), ((1, 1), (1,), ())]):
        h = H(f"{o2}({o1}(x,c1,c2),c3) x=[2, 3] cshapes={list(s1)},{list(s2)},{list(s3)} mixed-rank constants")
        h.inp("x", F, (2, 3))
        h.c("c1", np.full(s1, 1.0, dtype=f32))
        h.c("c2", np.full(s2, 0.5, dtype=f32), "node")
        h.c("c3", np.full(s3, 2.0, dtype=f32))
        h.n(o1, ["x", "c1", "c2"], "a")
        h.n(o2, ["a", "c3"], "b")
        h.out("b")
        out.append(h.build())
    for o1, o2 in [("Min", "Min"), ("Max", "Max"), ("Min", "Max"), ("Max", "Min")]:
        h = H(f"{o2}({o1}(x)) single-input")
        h.inp("x", F, (3,))
        h.n(o1, ["x"], "a")
        h.n(o2, ["a"], "b")
        h.out("b")
        out.append(h.build())
        h = H(f"{o2}({o1}(x,y),c) non-constant operand")
        h.inp("x", F, (3,))
        h.inp("y", F, (3,))
        h.c("c", np.array(1.0, dtype=f32))
        h.n(o1, ["x", "y"], "a")
        h.n(o2, ["a", "c"], "b")
        h.out("b")
        out.append(h.build())
        h = H(f"{o2}({o1}(x,c1,c2),c3) three operands")
        h.inp("x", F, (3,))
        for nm, v in (("c1", 1.0), ("c2", 0.5), ("c3", -1.0)):
            h.c(nm, np.array(v, dtype=f32))
        h.n(o1, ["x", "c1", "c2"], "a")
        h.n(o2, ["a", "c3"], "b")
        h.out("b")
        out.append(h.build())
    return out


def hosts_hardswish():
    out = []
    for alpha, beta in [(1.0 / 6.0, 0.5), (0.2, 0.5), (1.0 / 6.0, 0.4), (0.16666, 0.5)]:
        h = H(f"HardSigmoid(x, alpha={alpha:.6f}, beta={beta}) * x")
        h.inp("x", F, (3,))
        h.n("HardSigmoid", ["x"], "hs", alpha=alpha, beta=beta)
        h.n("Mul", ["hs", "x"], "y")
        h.out("y")
        out.append(h.build())
    for bias, lo, hi, div, mul_first in itertools.product([3.0, 2.0], [0.0, 1.0], [6.0, 5.0], [6.0, 3.0], [True, False]):
        h = H(f"hardswish expanded bias={bias} clip=({lo},{hi}) div={div} mul_first={mul_first}")
        h.inp("x", F, (3,))
        for nm, v in (("bias", bias), ("lo", lo), ("hi", hi), ("div", div)):
            h.c(nm, np.array(v, dtype=f32))
        h.n("Add", ["x", "bias"], "a")
        h.n("Clip", ["a", "lo", "hi"], "c")
        if mul_first:
            h.n("Mul", ["c", "x"], "m")
            h.n("Div", ["m", "div"], "y")
        else:
            h.n("Div", ["c", "div"], "d")
            h.n("Mul", ["d", "x"], "y")
        h.out("y")
        out.append(h.build())
    return out


def hosts_matmul_gemm():
    out = []
    rng = np.random.default_rng(0)

    def w(shape):
        return (rng.integers(-4, 5, size=shape) / 2).astype(f32)
    # matmul_add_to_gemm (+ transposes)
    for ta, tb, cshape, cconst in itertools.product([False, True], [False, True], [(3,), (2, 3), (1, 3), (), (1,)], [True, False]):
        h = H(f"Add(MatMul({'T(a)' if ta else 'a'}, {'T(b)' if tb else 'b'}), c{list(cshape)}) c_const={cconst}")
        a_shape = (4, 2) if ta else (2, 4)
        b_shape = (3, 4) if tb else (4, 3)
        h.inp("a", F, a_shape)
        h.c("b", w(b_shape))
        if cconst:
            h.c("c", w(cshape))
        else:
            h.inp("c", F, cshape)
        a, b = "a", "b"
        if ta:
            h.n("Transpose", ["a"], "at", perm=[1, 0])
            a = "at"
        if tb:
            h.n("Transpose", ["b"], "bt", perm=[1, 0])
            b = "bt"
        h.n("MatMul", [a, b], "mm")
        h.n("Add", ["mm", "c"], "y")
        h.out("y")
        out.append(h.build())
    # the same with degenerate and coinciding sizes: the bias may take any shape built from M, K, N and 1 (an Add broadcasts in both
    # directions, Gemm only broadcasts C to (M, N): e.g. M = 1 with a bias [K, N])
    for (M, K, N), ta, tb in itertools.product([(1, 4, 3), (1, 2, 2), (2, 1, 3), (3, 3, 3), (4, 1, 1)], [False, True], [False, True]):
        cshapes = sorted({(M, N), (K, N), (K, 1), (N,), (1, N), (M, 1), (N, 1) if N != M else (M, N), (K,)})
        for cshape in cshapes:
            h = H(f"Add(MatMul({'T(a)' if ta else 'a'}, {'T(b)' if tb else 'b'}), c{list(cshape)}) M,K,N={M},{K},{N}")
            h.inp("a", F, (K, M) if ta else (M, K))
            h.c("b", w((N, K) if tb else (K, N)))
            h.c("c", w(cshape))
            a, b = "a", "b"
            if ta:
                h.n("Transpose", ["a"], "at", perm=[1, 0])
                a = "at"
            if tb:
                h.n("Transpose", ["b"], "bt", perm=[1, 0])
                b = "bt"
            h.n("MatMul", [a, b], "mm")
            h.n("Add", ["mm", "c"], "y")
            h.out("y")
            out.append(h.build())
    # non-2D operands: must not fire
    h = H("Add(MatMul(a[2,2,4], b[4,3]), c)")
    h.inp("a", F, (2, 2, 4))
    h.c("b", w((4, 3)))
    h.c("c", w((3,)))
    h.n("MatMul", ["a", "b"], "mm")
    h.n("Add", ["mm", "c"], "y")
    h.out("y")
    out.append(h.build())
    # gemm_to_matmul_add
    for alpha, beta, ta, tb, has_c in itertools.product([1.0, 0.5], [1.0, 2.0], [0, 1], [0, 1], [True, False]):
        h = H(f"Gemm alpha={alpha} beta={beta} transA={ta} transB={tb} c={has_c}")
        h.inp("a", F, (4, 2) if ta else (2, 4))
        h.c("b", w((3, 4) if tb else (4, 3)))
        ins = ["a", "b"]
        if has_c:
            h.c("c", w((3,)))
            ins.append("c")
        h.n("Gemm", ins, "y", alpha=alpha, beta=beta, transA=ta, transB=tb)
        h.out("y")
        out.append(h.build())
    # remove_optional_bias: zero bias
    for bias_val, form in itertools.product([0.0, 1e-9, -0.0, 0.5], ["init", "node", "input"]):
        h = H(f"Gemm with bias={bias_val} form={form}")
        h.inp("a", F, (2, 4))
        h.c("b", w((4, 3)))
        h.c("c", np.full((3,), bias_val, dtype=f32), form)
        h.n("Gemm", ["a", "b", "c"], "y")
        h.out("y")
        out.append(h.build())
        h = H(f"Conv with bias={bias_val} form={form}")
        h.inp("x", F, (1, 2, 4))
        h.c("w", w((3, 2, 2)))
        h.c("bz", np.full((3,), bias_val, dtype=f32), form)
        h.n("Conv", ["x", "w", "bz"], "y")
        h.out("y")
        out.append(h.build())
    # reshape-matmul-reshape
    for xs in [(2, 3, 4), (1, 3, 4)]:
        h = H(f"Reshape(MatMul(Reshape(x={list(xs)}, [-1,4]), w), [{xs[0]},{xs[1]},2])")
        h.inp("x", F, xs)
        h.c("w", w((4, 2)))
        h.c("s1", np.array([-1, 4], dtype=np.int64))
        h.c("s2", np.array([xs[0], xs[1], 2], dtype=np.int64))
        h.n("Reshape", ["x", "s1"], "r1")
        h.n("MatMul", ["r1", "w"], "mm")
        h.n("Reshape", ["mm", "s2"], "y")
        h.out("y")
        out.append(h.build())
        h = H(f"two reshapes matmul reshape x={list(xs)}")
        h.inp("x", F, xs)
        h.inp("y", F, (xs[0], 4, 2))
        h.c("s1", np.array([-1, xs[1], 4], dtype=np.int64))
        h.c("s2", np.array([-1, 4, 2], dtype=np.int64))
        h.c("s3", np.array([xs[0], xs[1], 2], dtype=np.int64))
        h.n("Reshape", ["x", "s1"], "r1")
        h.n("Reshape", ["y", "s2"], "r2")
        h.n("MatMul", ["r1", "r2"], "mm")
        h.n("Reshape", ["mm", "s3"], "z")
        h.out("z")
        out.append(h.build())
    # gemm_to_matmul_add: Reshape(Gemm(Reshape(a, [M, K]), b, c, alpha=1, beta=1), [batch..., N]); the bias may have any shape that
    # is unidirectionally broadcastable to [M, N]
    for xs in [(2, 3, 4), (1, 3, 4), (2, 1, 4)]:
        M = xs[0] * xs[1]
        for cshape, form in itertools.product([(2,), (1, 2), (M, 2), (M, 1), ()], ["init", "input"]):
            for alpha, beta in [(1.0, 1.0), (1.0, 0.5)]:
                if (alpha, beta) != (1.0, 1.0) and (cshape != (2,) or form != "init"):
                    continue
                h = H(f"Reshape(Gemm(Reshape(a={list(xs)}), b, c{list(cshape)} form={form}, alpha={alpha}, beta={beta}))")
                h.inp("a", F, xs)
                h.c("b", w((4, 2)))
                h.c("c", w(cshape), form)
                h.c("s1", np.array([M, 4], dtype=np.int64))
                h.c("s2", np.array([xs[0], xs[1], 2], dtype=np.int64))
                h.n("Reshape", ["a", "s1"], "r1")
                h.n("Gemm", ["r1", "b", "c"], "g", alpha=alpha, beta=beta)
                h.n("Reshape", ["g", "s2"], "y")
                h.out("y")
                out.append(h.build())
    # the same idiom with transposing Gemms and alpha != 1 (the rule is written for the plain form only)
    for ta, tb, alpha in [(0, 1, 1.0), (1, 0, 1.0), (1, 1, 1.0), (0, 0, 2.0)]:
        xs = (2, 2, 4) if not ta else (2, 2, 4)
        h = H(f"Reshape(Gemm(Reshape(a), b, c, transA={ta}, transB={tb}, alpha={alpha}))")
        h.inp("a", F, (2, 2, 4))
        # r1 is [4, 4] so that both orientations are well-formed; b is square as well
        h.c("b", w((4, 4)))
        h.c("c", w((4,)))
        h.c("s1", np.array([4, 4], dtype=np.int64))
        h.c("s2", np.array([2, 2, 4], dtype=np.int64))
        h.n("Reshape", ["a", "s1"], "r1")
        h.n("Gemm", ["r1", "b", "c"], "g", transA=ta, transB=tb, alpha=alpha, beta=1.0)
        h.n("Reshape", ["g", "s2"], "y")
        h.out("y")
        out.append(h.build())
    return out


def hosts_conv():
    out = []
    rng = np.random.default_rng(1)

    def w(shape):
        return (rng.integers(-4, 5, size=shape) / 2).astype(f32)
    # batchnorm into conv / gemm
    for with_bias, eps in itertools.product([True, False], [1e-5, 0.5]):
        h = H(f"BatchNorm(Conv(x, w{', b' if with_bias else ''})) eps={eps}")
        h.inp("x", F, (1, 2, 4))
        h.c("w", w((3, 2, 2)))
        ins = ["x", "w"]
        if with_bias:
            h.c("b", w((3,)))
            ins.append("b")
        h.n("Conv", ins, "c")
        h.c("sc", w((3,)))
        h.c("bi", w((3,)))
        h.c("mean", w((3,)))
        h.c("var", (rng.integers(1, 5, size=(3,)) / 2).astype(f32))
        h.n("BatchNormalization", ["c", "sc", "bi", "mean", "var"], "y", epsilon=eps)
        h.out("y")
        out.append(h.build())
        for tb in (0, 1):
            h = H(f"BatchNorm(Gemm(x, w{', b' if with_bias else ''}, transB={tb})) eps={eps}")
            h.inp("x", F, (2, 4))
            h.c("w", w((3, 4) if tb else (4, 3)))
            ins = ["x", "w"]
            if with_bias:
                h.c("b", w((3,)))
                ins.append("b")
            h.n("Gemm", ins, "g", transB=tb)
            h.c("sc", w((3,)))
            h.c("bi", w((3,)))
            h.c("mean", w((3,)))
            h.c("var", (rng.integers(1, 5, size=(3,)) / 2).astype(f32))
            h.n("BatchNormalization", ["g", "sc", "bi", "mean", "var"], "y", epsilon=eps)
            h.out("y")
            out.append(h.build())
    # Gemm with alpha / beta other than 1 (and transA) followed by BatchNormalization
    for alpha, beta, ta in [(1.0, 0.5, 0), (2.0, 1.0, 0), (0.5, 2.0, 0), (1.0, 1.0, 1)]:
        h = H(f"BatchNorm(Gemm(x, w, b, alpha={alpha}, beta={beta}, transA={ta}))")
        h.inp("x", F, (4, 2) if ta else (2, 4))
        h.c("w", w((4, 3)))
        h.c("b", w((3,)))
        h.n("Gemm", ["x", "w", "b"], "g", alpha=alpha, beta=beta, transA=ta)
        h.c("sc", w((3,)))
        h.c("bi", w((3,)))
        h.c("mean", w((3,)))
        h.c("var", (rng.integers(1, 5, size=(3,)) / 2).astype(f32))
        h.n("BatchNormalization", ["g", "sc", "bi", "mean", "var"], "y")
        h.out("y")
        out.append(h.build())
    # BatchNormalization in training mode (statistics of the batch): with the running outputs unused / used
    for inbound, stats_used in itertools.product(["Conv", "none"], [False, True]):
        h = H(f"BatchNorm training_mode=1 after {inbound}, running outputs {'used' if stats_used else 'unused'}")
        h.inp("x", F, (2, 2, 3))
        src = "x"
        C = 2
        if inbound == "Conv":
            h.c("w", w((3, 2, 2)))
            h.n("Conv", ["x", "w"], "c")
            src, C = "c", 3
        h.c("sc", w((C,)))
        h.c("bi", w((C,)))
        h.c("mean", w((C,)))
        h.c("var", (rng.integers(1, 5, size=(C,)) / 2).astype(f32))
        h.n("BatchNormalization", [src, "sc", "bi", "mean", "var"], ["y", "rm", "rv"], training_mode=1)
        h.out_types = {"rm": (F, [C]), "rv": (F, [C])}
        h.out("y", *(["rm", "rv"] if stats_used else []))
        out.append(h.build())
    # ConvTranspose: batchnorm fusion and optional zero bias (weights are [C_in, C_out/group, k])
    for (group, strides, pads, opad), with_bias, eps in itertools.product(
            [(1, [1], [0, 0], [0]), (2, [1], [0, 0], [0]), (1, [2], [1, 0], [1]), (2, [2], [0, 1], [0])], [True, False], [1e-5, 0.5]):
        cin, cout_g = 4, 3 if group == 1 else 2
        cout = cout_g * group
        h = H(f"BatchNorm(ConvTranspose(x, w{', b' if with_bias else ''})) group={group} strides={strides} pads={pads} output_padding={opad} eps={eps}")
        h.inp("x", F, (1, cin, 3))
        h.c("w", w((cin, cout_g, 2)))
        ins = ["x", "w"]
        if with_bias:
            h.c("b", w((cout,)))
            ins.append("b")
        h.n("ConvTranspose", ins, "c", group=group, strides=strides, pads=pads, output_padding=opad)
        h.c("sc", w((cout,)))
        h.c("bi", w((cout,)))
        h.c("mean", w((cout,)))
        h.c("var", (rng.integers(1, 5, size=(cout,)) / 2).astype(f32))
        h.n("BatchNormalization", ["c", "sc", "bi", "mean", "var"], "y", epsilon=eps)
        h.out("y")
        out.append(h.build())
    for bias_val, form, group in itertools.product([0.0, 1e-9, 1.0], FORMS, [1, 2]):
        cout_g = 2
        h = H(f"ConvTranspose with bias={bias_val} form={form} group={group}")
        h.inp("x", F, (1, 2 * group, 3))
        h.c("w", w((2 * group, cout_g, 2)))
        h.c("bz", np.full((cout_g * group,), bias_val, dtype=f32), form)
        h.n("ConvTranspose", ["x", "w", "bz"], "y", group=group)
        h.out("y")
        out.append(h.build())
    # affine <-> conv
    for order, sshape in itertools.product(["affine_conv", "conv_affine"], [(), (1,), (1, 1, 1)]):
        h = H(f"{order} scale/offset shape={list(sshape)}")
        h.inp("x", F, (1, 2, 4))
        h.c("w", w((3, 2, 2)))
        h.c("b", w((3,)))
        h.c("s", np.full(sshape, 2.0, dtype=f32))
        h.c("o", np.full(sshape, 0.5, dtype=f32))
        if order == "affine_conv":
            h.n("Mul", ["x", "s"], "m")
            h.n("Add", ["m", "o"], "a")
            h.n("Conv", ["a", "w", "b"], "y")
        else:
            h.n("Conv", ["x", "w", "b"], "c")
            h.n("Mul", ["c", "s"], "m")
            h.n("Add", ["m", "o"], "y")
        h.out("y")
        out.append(h.build())
    # affine_conv_fusion_rule proper: 2-D Conv with an explicit pads=[0,0,0,0] attribute (the rule's pattern requires it);
    # kernel sizes, strides, groups, scale/offset shapes and values, swapped Mul/Add operands
    for (ks, strides, group), sshape, (sv, ov), swap in itertools.product(
            [((1, 1), [1, 1], 1), ((2, 2), [1, 1], 1), ((2, 1), [2, 1], 1), ((1, 1), [1, 1], 2)], [(), (1,), (1, 1, 1, 1)],
            [(2.0, 0.5), (-1.0, 0.0), (0.0, 3.0)], [False, True]):
        if swap and sshape != ():
            continue
        h = H(f"affine then Conv2d pads=0 kernel={list(ks)} strides={strides} group={group} scale={sv} offset={ov} shape={list(sshape)} swapped={swap}")
        h.inp("x", F, (1, 2, 3, 3))
        h.c("w", w((2, 2 // group) + ks))
        h.c("b", w((2,)))
        h.c("s", np.full(sshape, sv, dtype=f32))
        h.c("o", np.full(sshape, ov, dtype=f32))
        h.n("Mul", ["s", "x"] if swap else ["x", "s"], "m")
        h.n("Add", ["o", "m"] if swap else ["m", "o"], "a")
        h.n("Conv", ["a", "w", "b"], "y", pads=[0, 0, 0, 0], strides=strides, group=group)
        h.out("y")
        out.append(h.build())
    # the same two fusions against the padding attributes of the Conv: no pads attribute, zero / non-zero pads, every auto_pad mode
    # (an offset added BEFORE a padded Conv cannot move into the bias: the border sees zeros, not the offset)
    for order, (ks, xs), cattrs in itertools.product(
            ["affine_conv", "conv_affine"], [((2, 2), (1, 2, 3, 3)), ((3,), (1, 2, 4)), ((1, 1), (1, 2, 2, 2))],
            [{}, {"pads": "zero"}, {"pads": "one"}, {"pads": "lower"}, {"auto_pad": "SAME_UPPER"}, {"auto_pad": "SAME_LOWER"}, {"auto_pad": "VALID"}, {"auto_pad": "NOTSET"}]):
        nsp = len(ks)
        ca = dict(cattrs)
        if "pads" in ca:
            ca["pads"] = {"zero": [0] * (2 * nsp), "one": [1] * (2 * nsp), "lower": [1] * nsp + [0] * nsp}[ca["pads"]]
        h = H(f"{order} Conv{nsp}d kernel={list(ks)} conv attributes={ca}")
        h.inp("x", F, xs)
        h.c("w", w((2, 2) + ks))
        h.c("b", w((2,)))
        h.c("s", np.full((), 2.0, dtype=f32))
        h.c("o", np.full((), 0.5, dtype=f32))
        if order == "affine_conv":
            h.n("Mul", ["x", "s"], "m")
            h.n("Add", ["m", "o"], "a")
            h.n("Conv", ["a", "w", "b"], "y", **ca)
        else:
            h.n("Conv", ["x", "w", "b"], "c", **ca)
            h.n("Mul", ["c", "s"], "m")
            h.n("Add", ["m", "o"], "y")
        h.out("y")
        out.append(h.build())
    # pad into conv
    for pads, mode, cval, conv_pads, auto in itertools.product(
            [[0, 0, 1, 0, 0, 2], [0, 0, 0, 0, 0, 0], [0, 1, 1, 0, 0, 1], [0, 0, -1, 0, 0, 0]], ["constant", "reflect"], [None, 0.0, 1.0],
            [None, [1, 1]], ["NOTSET", "VALID", "SAME_UPPER"]):
        if auto != "NOTSET" and conv_pads is not None:
            continue
        if mode == "reflect" and (cval is not None or any(p < 0 for p in pads)):
            continue
        h = H(f"Conv(Pad(x, {pads}, mode={mode}, value={cval}), pads={conv_pads}, auto_pad={auto})")
        h.inp("x", F, (1, 2, 5))
        h.c("w", w((3, 2, 2)))
        h.c("p", np.array(pads, dtype=np.int64))
        ins = ["x", "p"]
        if cval is not None:
            h.c("cv", np.array(cval, dtype=f32))
            ins.append("cv")
        h.n("Pad", ins, "px", mode=mode)
        kw = {}
        if conv_pads is not None:
            kw["pads"] = conv_pads
        if auto != "NOTSET":
            kw["auto_pad"] = auto
        h.n("Conv", ["px", "w"], "y", **kw)
        h.out("y")
        out.append(h.build())
    # normalize pad format: conv with auto_pad
    for auto, strides, dil in itertools.product(["SAME_UPPER", "SAME_LOWER", "VALID"], [[1], [2]], [[1], [2]]):
        h = H(f"Conv auto_pad={auto} strides={strides} dilations={dil}")
        h.inp("x", F, (1, 2, 5))
        h.c("w", w((3, 2, 2)))
        h.n("Conv", ["x", "w"], "y", auto_pad=auto, strides=strides, dilations=dil)
        h.out("y")
        out.append(h.build())
    return out


def hosts_shape_attrs():
    """Shape with start / end attributes over the whole range the specification clamps (below -rank, -rank..rank, above rank), on
    ranks 1-3, feeding a data op so that a wrong folded shape changes the output (used by C03/C04/C09)"""
    out = []
    for xs in [(2, 3, 4), (2, 3), (4,)]:
        r = len(xs)
        vals = sorted({-2 * r - 1, -2 * r, -2 * r + 1, -r - 2, -r - 1, -r, -r + 1, -1, 0, 1, r - 1, r, r + 1, 2 * r})
        for st, en in itertools.product([None] + vals, [None] + vals):
            if st is not None and en is not None and not (st in (-r - 1, -r - 2, -2 * r + 1, -2 * r) or en in (-r - 1, -r - 2, -2 * r + 1, -2 * r)) and (st + en) % 3:
                continue  # thin out the combinations that do not involve the clamped region below -rank
            kw = {}
            if st is not None:
                kw["start"] = st
            if en is not None:
                kw["end"] = en
            h = H(f"Shape<start={st}, end={en}>(x={list(xs)})")
            h.inp("x", F, xs)
            h.n("Shape", ["x"], "s", **kw)
            h.n("Cast", ["s"], "sf", to=F)
            h.n("ReduceSum", ["sf"], "t", keepdims=0)
            h.n("Mul", ["x", "t"], "y")
            h.out("y", "s")
            out.append(h.build())
    return out


def hosts_optional_inputs():
    """Foldable nodes (all present operands constant) with an OMITTED optional input in the middle of the input list, feeding a
    data op; and the same nodes with a symbolic data operand (not foldable) - used by C03/C04"""
    out = []
    cdata = (np.arange(24, dtype=f32).reshape(2, 3, 4) - 7) / 2
    for const_data in (True, False):
        def data(h):
            if const_data:
                h.c("d", cdata)
                h.inp("x", F, (2, 3, 4))
            else:
                h.inp("d", F, (2, 3, 4))
                h.inp("x", F, (2, 3, 4))
        # Slice(data, starts, ends, <axes omitted>, steps)
        for starts, ends, steps in [([0, 1], [2, 3], [1, 2]), ([1], [2], [1]), ([0, 0, 0], [2, 3, 4], [1, 1, 2]), ([0], [2], [2])]:
            h = H(f"Slice(data{'(const)' if const_data else ''}, {starts}, {ends}, '', steps={steps})")
            data(h)
            h.c("st", np.array(starts, dtype=np.int64))
            h.c("en", np.array(ends, dtype=np.int64))
            h.c("sp", np.array(steps, dtype=np.int64))
            h.n("Slice", ["d", "st", "en", "", "sp"], "s")
            h.n("ReduceSum", ["s"], "r", keepdims=0)
            h.n("Mul", ["x", "r"], "y")
            h.out("y", "s")
            out.append(h.build())
        # Clip(data, <min omitted>, max) and Clip(data, min)
        for lo, hi in [(None, 1.5), (None, -3.0), (0.5, None), (None, None)]:
            h = H(f"Clip(data{'(const)' if const_data else ''}, min={lo}, max={hi})")
            data(h)
            ins = ["d", "", ""]
            if lo is not None:
                h.c("lo", np.array(lo, dtype=f32))
                ins[1] = "lo"
            if hi is not None:
                h.c("hi", np.array(hi, dtype=f32))
                ins[2] = "hi"
            while ins and ins[-1] == "":
                ins.pop()
            h.n("Clip", ins, "s")
            h.n("Add", ["x", "s"], "y")
            h.out("y")
            out.append(h.build())
        # Pad(data, pads, <constant_value omitted>, axes)
        for pads, axes in [([1, 0], [2]), ([0, 1, 1, 0], [0, 2]), ([1, 1], [-1])]:
            h = H(f"Pad(data{'(const)' if const_data else ''}, pads={pads}, '', axes={axes})")
            data(h)
            h.c("p", np.array(pads, dtype=np.int64))
            h.c("ax", np.array(axes, dtype=np.int64))
            h.n("Pad", ["d", "p", "", "ax"], "s")
            h.n("ReduceSum", ["s"], "r", keepdims=0)
            h.n("Mul", ["x", "r"], "y")
            h.out("y", "s")
            out.append(h.build())
    return out


def hosts_conv_integer():
    """ConvInteger behind a Pad (constant 0 / equal to the zero point / other), with and without zero points (scalar, per-channel),
    uint8 and int8 data; auto_pad forms for the normalisation rule"""
    out = []
    rng = np.random.default_rng(5)
    U8, I8 = TP.UINT8, TP.INT8
    for xdt, zp, padv, wzp_kind, conv_pads in itertools.product([U8, I8], [None, 0, 5], [None, 0, 5, 9], ["none", "scalar", "per_channel"], [None, [1, 0]]):
        npdt = np.uint8 if xdt == U8 else np.int8
        if wzp_kind != "none" and zp is None:
            continue  # w_zero_point is input 3: x_zero_point must be given
        if wzp_kind == "per_channel" and (padv not in (None, 5) or conv_pads is not None):
            continue
        h = H(f"ConvInteger(Pad(x {'u8' if xdt == U8 else 'i8'}, value={padv}), x_zero_point={zp}, w_zero_point={wzp_kind}, pads={conv_pads})")
        h.inp("x", xdt, (1, 2, 4))
        h.c("w", rng.integers(0 if xdt == U8 else -3, 4, size=(3, 2, 2)).astype(npdt))
        h.c("p", np.array([0, 0, 1, 0, 0, 2], dtype=np.int64))
        pins = ["x", "p"]
        if padv is not None:
            h.c("pv", np.array(padv, dtype=npdt))
            pins.append("pv")
        h.n("Pad", pins, "px")
        cins = ["px", "w"]
        if zp is not None:
            h.c("xz", np.array(zp, dtype=npdt))
            cins.append("xz")
        if wzp_kind == "scalar":
            h.c("wz", np.array(1, dtype=npdt))
            cins.append("wz")
        elif wzp_kind == "per_channel":
            h.c("wz", np.array([0, 1, 2], dtype=npdt))
            cins.append("wz")
        kw = {} if conv_pads is None else {"pads": conv_pads}
        h.n("ConvInteger", cins, "y", **kw)
        h.out("y")
        out.append(h.build())
    # QLinearConv with an optional int32 bias (zero / non-zero; initializer / Constant node / overridable input), per-tensor and
    # per-channel weight scales
    for bias, form, per_channel in itertools.product([[0, 0, 0], [0, 1, 0], None], FORMS, [False, True]):
        if bias is None and form != "init":
            continue
        h = H(f"QLinearConv bias={bias} form={form} per_channel_scale={per_channel}")
        h.inp("x", U8, (1, 2, 4))
        h.c("xs", np.array(0.5, dtype=f32))
        h.c("xz", np.array(3, dtype=np.uint8))
        h.c("w", rng.integers(0, 5, size=(3, 2, 2)).astype(np.uint8))
        h.c("ws", np.array([0.25, 0.5, 1.0] if per_channel else 0.25, dtype=f32))
        h.c("wz", np.array([1, 0, 2] if per_channel else 1, dtype=np.uint8))
        h.c("ys", np.array(0.75, dtype=f32))
        h.c("yz", np.array(7, dtype=np.uint8))
        ins = ["x", "xs", "xz", "w", "ws", "wz", "ys", "yz"]
        if bias is not None:
            h.c("b", np.array(bias, dtype=np.int32), form)
            ins.append("b")
        h.n("QLinearConv", ins, "y")
        h.out("y")
        out.append(h.build())
    for auto, strides, zp in itertools.product(["SAME_UPPER", "SAME_LOWER", "VALID"], [[1], [2]], [None, 3]):
        h = H(f"ConvInteger auto_pad={auto} strides={strides} x_zero_point={zp}")
        h.inp("x", U8, (1, 2, 5))
        h.c("w", rng.integers(0, 4, size=(3, 2, 2)).astype(np.uint8))
        cins = ["x", "w"]
        if zp is not None:
            h.c("xz", np.array(zp, dtype=np.uint8))
            cins.append("xz")
        h.n("ConvInteger", cins, "y", auto_pad=auto, strides=strides)
        h.out("y")
        out.append(h.build())
    return out


def hosts_scatter():
    out = []
    for xs in [(3,), (2, 3)]:
        n = xs[0]
        for idx, tag in [(list(range(n)), "all rows in order"), (list(reversed(range(n))), "reversed"), (list(range(n - 1)), "partial")]:
            h = H(f"ScatterND x={list(xs)} indices={tag}")
            h.inp("x", F, xs)
            h.inp("u", F, (len(idx),) + xs[1:])
            h.c("i", np.array(idx, dtype=np.int64).reshape(-1, 1))
            h.n("ScatterND", ["x", "i", "u"], "y")
            h.out("y")
            out.append(h.build())
        # a reduction other than 'none' combines the updates with the data: never an Identity of the updates
        for red in ("add", "mul", "max", "min", "none"):
            h = H(f"ScatterND x={list(xs)} indices=all rows in order reduction={red}")
            h.inp("x", F, xs)
            h.inp("u", F, xs)
            h.c("i", np.array(list(range(n)), dtype=np.int64).reshape(-1, 1))
            h.n("ScatterND", ["x", "i", "u"], "y", reduction=red)
            h.out("y")
            out.append(h.build())
        # dynamic: indices = Unsqueeze(Range(0, Shape(x)[0], 1), -1)
        h = H(f"ScatterND dynamic range indices x={list(xs)}")
        h.inp("x", F, xs)
        h.inp("u", F, xs)
        h.n("Shape", ["x"], "sh", start=0, end=1)
        h.c("zero", np.array(0, dtype=np.int64))
        h.c("one", np.array(1, dtype=np.int64))
        h.c("ax0", np.array([0], dtype=np.int64))
        h.n("Squeeze", ["sh", "ax0"], "n")
        h.n("Range", ["zero", "n", "one"], "r")
        h.c("m1", np.array([-1], dtype=np.int64))
        h.n("Unsqueeze", ["r", "m1"], "i")
        h.n("ScatterND", ["x", "i", "u"], "y")
        h.out("y")
        out.append(h.build())
    # the exact `x[:, ...] = y` idiom of no_op_dynamic_scatter_nd_rule: indices span data.shape[axis]; the scatter is applied to
    # `transposed_data`, whose first dim equals data.shape[axis] only for the right axis/perm combination (or a square input)
    for ds, axis, perm in [((2, 3), 0, None), ((2, 3), 1, (1, 0)), ((2, 3), 0, (1, 0)), ((2, 2), 0, (1, 0)), ((3, 2), 1, None),
                           ((2, 3, 2), 0, None), ((2, 3, 2), 2, (2, 1, 0)), ((2, 3, 2), 0, (1, 0, 2))]:
        tshape = tuple(ds[p] for p in perm) if perm else ds
        n = ds[axis]
        if n > tshape[0]:
            continue  # indices out of range: the original model itself fails
        h = H(f"ScatterND full-range idiom data={list(ds)} axis={axis} perm={perm}")
        h.inp("data", F, ds)
        h.inp("u", F, (n,) + tshape[1:])
        h.n("Shape", ["data"], "sh", start=0)
        h.c("axis", np.array(axis, dtype=np.int64))
        h.n("Gather", ["sh", "axis"], "dim", axis=0)
        h.c("zero", np.array(0, dtype=np.int64))
        h.c("one", np.array(1, dtype=np.int64))
        h.n("Range", ["zero", "dim", "one"], "r")
        h.c("m1", np.array([-1], dtype=np.int64))
        h.n("Unsqueeze", ["r", "m1"], "i")
        if perm:
            h.n("Transpose", ["data"], "t", perm=list(perm))
        else:
            h.n("Identity", ["data"], "t")
        h.n("ScatterND", ["t", "i", "u"], "y", reduction="none")
        h.out("y")
        out.append(h.build())
    return out


def _sub(name, nodes, outs, inits=(), inputs=()):
    return oh.make_graph(list(nodes), name, [oh.make_tensor_value_info(n, dt, sh) for n, dt, sh in inputs],
                         [oh.make_tensor_value_info(n, dt, sh) for n, dt, sh in outs], list(inits))


def hosts_control_flow():
    """Subgraph handling of the optimizer (no rewrite rule of its own; used by C03/C04): branch / body outputs that are
    pass-throughs (Identity) of values from the enclosing graph, of graph inputs, of outer initializers, of values made inside;
    foldable constants inside branches; nested If; Loop bodies forwarding outer values."""
    out = []
    N = oh.make_node
    for cond_form in ("input", "const_true", "const_false"):
        for then_kind, else_kind in itertools.product(
                ["id_outer_node", "id_input", "id_outer_init", "id_inner", "folded_const", "neg_outer", "own_init_direct"],
                ["neg_outer", "id_outer_node", "id_inner", "own_init_direct"]):
            h = H(f"If cond={cond_form} then={then_kind} else={else_kind}")
            h.inp("x", F, (3,))
            if cond_form == "input":
                h.inp("c", B, ())
            else:
                h.c("c", np.array(cond_form == "const_true"))
            h.c("w", np.array([0.5, -1.0, 2.0], dtype=f32))
            h.n("Relu", ["x"], "t")

            def br(kind, pfx):
                o = pfx + "_z"
                sh = [3]
                if kind == "id_outer_node":
                    return _sub(pfx, [N("Identity", ["t"], [o])], [(o, F, sh)])
                if kind == "id_input":
                    return _sub(pfx, [N("Identity", ["x"], [o])], [(o, F, sh)])
                if kind == "id_outer_init":
                    return _sub(pfx, [N("Identity", ["w"], [o])], [(o, F, sh)])
                if kind == "id_inner":
                    return _sub(pfx, [N("Mul", ["t", "w"], [pfx + "_m"]), N("Identity", [pfx + "_m"], [o])], [(o, F, sh)])
                if kind == "own_init_direct":
                    # the branch has no node at all: its output IS one of its own initializers
                    return _sub(pfx, [], [(o, F, sh)], [nh.from_array(np.array([7.0, -8.0, 9.0], dtype=f32), o)])
                if kind == "folded_const":
                    k1 = nh.from_array(np.array([1.0, 2.0, 3.0], dtype=f32), pfx + "_k1")
                    k2 = nh.from_array(np.array(2.0, dtype=f32), pfx + "_k2")
                    return _sub(pfx, [N("Mul", [pfx + "_k1", pfx + "_k2"], [pfx + "_m"]), N("Identity", [pfx + "_m"], [o])],
                                [(o, F, sh)], [k1, k2])
                return _sub(pfx, [N("Neg", ["t"], [o])], [(o, F, sh)])
            h.n("If", ["c"], "z", then_branch=br(then_kind, "then"), else_branch=br(else_kind, "else"))
            h.n("Add", ["z", "t"], "y")
            h.out("y")
            out.append(h.build())
    # sibling subgraphs that use the same value names (valid ONNX): constant / dynamic conditions; foldable and input-dependent bodies
    for c1, c2 in itertools.product(["const_true", "const_false", "input"], repeat=2):
        h = H(f"two Ifs with same-named intermediates cond1={c1} cond2={c2}")
        h.inp("x", F, (2,))
        for nm, kind in (("k1", c1), ("k2", c2)):
            if kind == "input":
                h.inp(nm, B, ())
            else:
                h.c(nm, np.array(kind == "const_true"))

        def br2(pfx, k):
            c1_ = nh.from_array(np.array([k, k], dtype=f32), "c1")
            c2_ = nh.from_array(np.array([1.0, 1.0], dtype=f32), "c2")
            return _sub(pfx, [N("Add", ["c1", "c2"], ["temp"]), N("Mul", ["x", "temp"], ["t2"]), N("Relu", ["t2"], [pfx + "_o"])],
                        [(pfx + "_o", F, [2])], [c1_, c2_])
        h.n("If", ["k1"], "y1", then_branch=br2("t1", 1.0), else_branch=br2("e1", 2.0))
        h.n("If", ["k2"], "y2", then_branch=br2("t2", 3.0), else_branch=br2("e2", 4.0))
        h.n("Add", ["y1", "y2"], "y")
        h.out("y")
        out.append(h.build())
    # nested If: the inner branch forwards a value of the OUTER-most graph and one of the middle graph
    for inner in ("id_outermost", "id_middle"):
        h = H(f"nested If inner={inner}")
        h.inp("x", F, (2,))
        h.inp("c", B, ())
        h.inp("d", B, ())
        h.n("Abs", ["x"], "t")
        src = "t" if inner == "id_outermost" else "mid_m"
        inner_then = _sub("ithen", [N("Identity", [src], ["ithen_z"])], [("ithen_z", F, [2])])
        inner_else = _sub("ielse", [N("Neg", [src], ["ielse_z"])], [("ielse_z", F, [2])])
        then = _sub("then", [N("Exp", ["t"], ["mid_m"]), N("If", ["d"], ["then_z"], then_branch=inner_then, else_branch=inner_else)],
                    [("then_z", F, [2])])
        els = _sub("else", [N("Identity", ["t"], ["else_z"])], [("else_z", F, [2])])
        h.n("If", ["c"], "z", then_branch=then, else_branch=els)
        h.out("z")
        out.append(h.build())
    # Loop: state / scan outputs that forward outer values
    for kind in ("state_id_outer", "scan_id_outer", "state_id_state"):
        for trips in (0, 2):
            h = H(f"Loop {kind} trips={trips}")
            h.inp("x", F, (2,))
            h.c("n", np.array(trips, dtype=np.int64))
            h.c("k", np.array(True))
            h.n("Relu", ["x"], "t")
            ins = [("it", I64, []), ("ci", B, []), ("st", F, [2])]
            if kind == "state_id_outer":
                body = _sub("body", [N("Identity", ["ci"], ["co"]), N("Identity", ["t"], ["so"])], [("co", B, []), ("so", F, [2])], inputs=ins)
                h.n("Loop", ["n", "k", "x"], "z", body=body)
            elif kind == "state_id_state":
                body = _sub("body", [N("Identity", ["ci"], ["co"]), N("Identity", ["st"], ["so"])], [("co", B, []), ("so", F, [2])], inputs=ins)
                h.n("Loop", ["n", "k", "t"], "z", body=body)
            else:
                body = _sub("body", [N("Identity", ["ci"], ["co"]), N("Add", ["st", "t"], ["so"]), N("Identity", ["t"], ["sc"])],
                            [("co", B, []), ("so", F, [2]), ("sc", F, [2])], inputs=ins)
                h.n("Loop", ["n", "k", "x"], ["z", "zs"], body=body)
            h.n("Neg", ["z"], "y")
            h.out_types = {"y": (F, [2]), "zs": (F, [trips, 2])}
            h.out("y", *(["zs"] if kind == "scan_id_outer" else []))
            out.append(h.build())
    return out


def hosts_functions():
    """model-local functions with attribute parameters referenced at several depths (function body, If branch inside it, nested
    twice), with and without defaults, called several times with different values and from inside a subgraph of the main graph"""
    out = []
    cst = nh.from_array(np.array([-1.0, 4.0, -3.0], dtype=np.float32), "k")

    def fn_body(depth):
        # depth 0: ref attribute on a foldable node of the body itself; depth d: inside d nested If branches
        def inner(d):
            if d == 0:
                return [oh.make_node("Constant", [], ["k"], value=cst), oh.make_node("LeakyRelu", ["k"], ["lk"], alpha=0.0),
                        oh.make_node("Add", ["p", "lk"], ["r"])], "r"
            nodes_, o_ = inner(d - 1)
            tb = oh.make_graph(nodes_, f"t{d}", [], [oh.make_tensor_value_info(o_, F, [3])])
            eb = oh.make_graph([oh.make_node("Constant", [], ["k2"], value=cst), oh.make_node("Elu", ["k2"], ["ek"], alpha=0.0),
                                oh.make_node("Sub", ["p", "ek"], [f"e{d}"])], f"e{d}", [], [oh.make_tensor_value_info(f"e{d}", F, [3])])
            return [oh.make_node("If", ["c"], [f"y{d}"], then_branch=tb, else_branch=eb)], f"y{d}"
        nodes_, o_ = inner(depth)

        def set_ref(ns):
            for n_ in ns:
                for a in n_.attribute:
                    if a.name == "alpha":
                        a.ClearField("f")
                        a.ref_attr_name = "alpha"
                        a.type = onnx.AttributeProto.FLOAT
                    if a.type == onnx.AttributeProto.GRAPH:
                        set_ref(a.g.node)
        set_ref(nodes_)
        return nodes_, o_

    for depth in (0, 1, 2):
        for default in (None, 0.25):
            nodes_, o_ = fn_body(depth)
            nodes_.append(oh.make_node("Identity", [o_], ["q"]))
            if default is None:
                fn = oh.make_function("local", "F", ["p", "c"], ["q"], nodes_, [oh.make_opsetid("", 18)], attributes=["alpha"])
            else:
                fn = oh.make_function("local", "F", ["p", "c"], ["q"], nodes_, [oh.make_opsetid("", 18)],
                                      attribute_protos=[oh.make_attribute("alpha", default)])
            for calls in ("two calls", "call in a branch"):
                if calls == "two calls":
                    main_nodes = [oh.make_node("F", ["x", "c"], ["y1"], domain="local", alpha=0.5),
                                  oh.make_node("F", ["y1", "c"], ["y2"], domain="local", **({} if default is not None else {"alpha": 2.0}))]
                    outs_ = ["y1", "y2"]
                else:
                    tb = oh.make_graph([oh.make_node("F", ["x", "c"], ["tb_o"], domain="local", alpha=2.0)], "mt", [], [oh.make_tensor_value_info("tb_o", F, [3])])
                    eb = oh.make_graph([oh.make_node("Neg", ["x"], ["eb_o"])], "me", [], [oh.make_tensor_value_info("eb_o", F, [3])])
                    main_nodes = [oh.make_node("If", ["c"], ["y1"], then_branch=tb, else_branch=eb)]
                    outs_ = ["y1"]
                g = oh.make_graph(main_nodes, "fnhost", [oh.make_tensor_value_info("x", F, [3]), oh.make_tensor_value_info("c", B, [])],
                                  [oh.make_tensor_value_info(o, F, [3]) for o in outs_])
                m = oh.make_model(g, opset_imports=[oh.make_opsetid("", 18), oh.make_opsetid("local", 1)], functions=[fn], ir_version=9)
                out.append((m.SerializeToString(), [("x", int(F), (3,)), ("c", int(B), ())],
                            f"function F<alpha{'' if default is None else '=0.25'}> ref attribute at depth {depth}, {calls}"))
    return out


def hosts_overridable_defaults():
    """shape-like / control operands that are graph inputs WITH a default value (overridable initializers): the optimizer may not
    treat the default as the value.  (C04's solver leg makes the override symbolic.)"""
    out = []

    def host(tag, build, opset=18):
        h = H(f"overridable default: {tag}", opset=opset)
        h.trust_inference = False
        build(h)
        out.append(h.build())

    def reshape_same(h):
        h.inp("x", F, (3, 2)); h.c("s", np.array([3, 2], dtype=np.int64), "input")
        h.n("Reshape", ["x", "s"], "z"); h.out_types = {"z": (F, ["a", "b"])}; h.out("z")
    host("Reshape(x[3,2], s={3,2})", reshape_same)

    def shape_of_reshape(h):
        h.inp("x", F, (2, 3)); h.c("s", np.array([3, 2], dtype=np.int64), "input")
        h.n("Reshape", ["x", "s"], "r"); h.n("Shape", ["r"], "z"); h.out_types = {"z": (I64, [2])}; h.out("z")
    host("Shape(Reshape(x[2,3], s={3,2}))", shape_of_reshape)

    def expand_same(h):
        h.inp("x", F, (2, 3)); h.c("s", np.array([2, 3], dtype=np.int64), "input")
        h.n("Expand", ["x", "s"], "e"); h.n("Neg", ["e"], "z"); h.out_types = {"z": (F, ["a", "b"])}; h.out("z")
    host("Expand(x[2,3], s={2,3})", expand_same)

    def if_cond(h):
        h.inp("x", F, (2,)); h.c("c", np.array(True), "input")
        h.n("If", ["c"], "y", then_branch=_sub("then", [oh.make_node("Neg", ["x"], ["t"])], [("t", F, [2])]),
            else_branch=_sub("else", [oh.make_node("Abs", ["x"], ["e"])], [("e", F, [2])]))
        h.out_types = {"y": (F, [2])}; h.out("y")
    host("If(c = True) Neg / Abs", if_cond)

    def concat_target(h):
        h.inp("x", F, (2, 3)); h.c("d", np.array([3], dtype=np.int64), "input"); h.c("m1", np.array([-1], dtype=np.int64))
        h.n("Concat", ["d", "m1"], "t", axis=0); h.n("Reshape", ["x", "t"], "z"); h.out_types = {"z": (F, ["a", "b"])}; h.out("z")
    host("Reshape(x, Concat(d={3}, [-1]))", concat_target)

    def squeeze_axes(h):
        h.inp("x", F, (1, 3, 1)); h.c("ax", np.array([0], dtype=np.int64), "input")
        h.n("Squeeze", ["x", "ax"], "z"); h.out_types = {"z": (F, ["a", "b"])}; h.out("z")
    host("Squeeze(x[1,3,1], axes={0})", squeeze_axes)

    def dropout_flags(h):
        h.inp("x", F, (2, 3)); h.c("r", np.array(0.0, dtype=np.float32), "input"); h.c("tm", np.array(False), "input")
        h.n("Dropout", ["x", "r", "tm"], "z"); h.out_types = {"z": (F, [2, 3])}; h.out("z")
    host("Dropout(x, ratio=0, training_mode=False)", dropout_flags)

    def gather_index(h):
        h.inp("x", F, (2, 3)); h.c("i", np.array([1], dtype=np.int64), "input")
        h.n("Shape", ["x"], "s"); h.n("Gather", ["s", "i"], "z", axis=0); h.out_types = {"z": (I64, [1])}; h.out("z")
    host("Gather(Shape(x), i={1})", gather_index)

    def constant_of_shape(h):
        h.c("s", np.array([2, 2], dtype=np.int64), "input")
        h.n("ConstantOfShape", ["s"], "z"); h.out_types = {"z": (F, ["a", "b"])}; h.out("z")
    host("ConstantOfShape(s={2,2})", constant_of_shape)

    def cast_like(h):
        h.inp("x", F, (2,)); h.c("w", np.array([1.5, 2.5], dtype=np.float32), "input")
        h.n("Add", ["w", "w"], "w2"); h.n("Mul", ["x", "w2"], "z"); h.out_types = {"z": (F, [2])}; h.out("z")
    host("Mul(x, Add(w, w)) with w overridable", cast_like)

    def shape_of_default(h):
        h.inp("x", F, (3,)); h.c("w", np.ones((2, 3), dtype=np.float32), "input")
        h.n("Shape", ["w"], "z"); h.n("Relu", ["x"], "y"); h.out_types = {"z": (I64, [2]), "y": (F, [3])}; h.out("z", "y")
    host("Shape(w) of an overridable w that is otherwise unused", shape_of_default)

    # operands that shipped REWRITE RULES read as constants (Slice bounds, Unsqueeze axes, Reshape targets): overridable here
    big = 2**62
    for which in ("starts", "ends", "steps"):
        def slice_ops(h, which=which):
            h.inp("x", F, (5,))
            for nm, v in (("st", 0), ("en", big), ("ax", 0), ("sp", 1)):
                h.c(nm, np.array([v], dtype=np.int64), "input" if {"st": "starts", "en": "ends", "sp": "steps"}.get(nm) == which else "init")
            h.n("Slice", ["x", "st", "en", "ax", "sp"], "z"); h.out_types = {"z": (F, ["a"])}; h.out("z")
        host(f"Slice(x[5], 0, 2**62, 0, 1) with overridable {which}", slice_ops)

    def unsq_axes(h):
        h.inp("x", F, (3,)); h.c("a1", np.array([0], dtype=np.int64), "input"); h.c("a2", np.array([1], dtype=np.int64))
        h.n("Unsqueeze", ["x", "a1"], "u"); h.n("Unsqueeze", ["u", "a2"], "z"); h.out_types = {"z": (F, ["a", "b", "c"])}; h.out("z")
    host("Unsqueeze(Unsqueeze(x, a1={0}), [1]) with overridable a1", unsq_axes)

    def reshape_reshape(h):
        h.inp("x", F, (2, 6)); h.c("s1", np.array([4, 3], dtype=np.int64)); h.c("s2", np.array([3, 4], dtype=np.int64), "input")
        h.n("Reshape", ["x", "s1"], "t"); h.n("Reshape", ["t", "s2"], "z"); h.out_types = {"z": (F, ["a", "b"])}; h.out("z")
    host("Reshape(Reshape(x, [4,3]), s2={3,4}) with overridable s2", reshape_reshape)

    def expand_binary(h):
        h.inp("x", F, (1, 3)); h.inp("y", F, (2, 3)); h.c("s", np.array([2, 3], dtype=np.int64), "input")
        h.n("Expand", ["x", "s"], "e"); h.n("Add", ["e", "y"], "z"); h.out_types = {"z": (F, ["a", "b"])}; h.out("z")
    host("Add(Expand(x[1,3], s={2,3}), y[2,3]) with overridable s", expand_binary)
    return out


def hosts_sequences():
    """the folder's sequence evaluators: SplitToSequence (1-D / scalar, constant / graph-input split, keepdims, axes), SequenceAt,
    ConcatFromSequence (new_axis), SequenceConstruct; at opsets 13, 17 and 18 (Split<num_outputs> and friends exist from 18 only)"""
    out = []
    for opset in (18, 17, 13):
        for xs, axis in [((4, 2), 0), ((2, 4), 1), ((2, 4), -1), ((3, 2), 0)]:
            d = xs[axis]
            splits = [("vec", [1, d - 1]), ("vec_ones", [1] * d), ("scalar_even", 1 if d % 2 else 2), ("scalar_uneven", 3 if d == 4 else 2), ("absent", None)]
            for sname, sval in splits:
                for how in ("init", "input_runtime"):
                    for keepdims in (1, 0):
                        if sval is None and how != "init":
                            continue
                        if keepdims == 0 and sname.startswith("scalar"):
                            # onnxruntime squeezes for a scalar split with keepdims=0, onnx.reference (and the specification:
                            # 'if input split is specified, this attribute is ignored') does not: no agreed meaning to compare with
                            continue
                        h = H(f"SplitToSequence x={list(xs)} axis={axis} split={sname} {how} keepdims={keepdims} opset={opset}", opset=opset)
                        h.inp("x", F, xs)
                        ins = ["x"]
                        if sval is not None:
                            arr = np.array(sval, dtype=np.int64)
                            if how == "init":
                                h.c("sp", arr)
                            else:
                                h.inp("sp", I64, arr.shape)   # a run-time input: value unknown to the optimizer
                            ins.append("sp")
                        h.n("SplitToSequence", ins, "seq", axis=axis, keepdims=keepdims)
                        h.c("i0", np.array(0, dtype=np.int64))
                        h.c("im1", np.array(-1, dtype=np.int64))
                        h.n("SequenceAt", ["seq", "i0"], "a")
                        h.n("SequenceAt", ["seq", "im1"], "b")
                        h.n("Neg", ["a"], "na")
                        h.out("na", "b")
                        out.append(h.build())
            # ConcatFromSequence over a constructed / split sequence
            for new_axis in (0, 1):
                h = H(f"ConcatFromSequence(SplitToSequence x={list(xs)} axis={axis}) new_axis={new_axis} opset={opset}", opset=opset)
                h.inp("x", F, xs)
                h.c("sp", np.array([1] * d, dtype=np.int64))
                h.n("SplitToSequence", ["x", "sp"], "seq", axis=axis)
                h.n("ConcatFromSequence", ["seq"], "y", axis=axis if not new_axis else 0, new_axis=new_axis)
                h.n("Neg", ["y"], "z")
                h.out("z")
                out.append(h.build())
                h = H(f"ConcatFromSequence(SequenceConstruct(x, x+x)) x={list(xs)} axis={axis} new_axis={new_axis} opset={opset}", opset=opset)
                h.inp("x", F, xs)
                h.n("Add", ["x", "x"], "x2")
                h.n("SequenceConstruct", ["x", "x2"], "seq")
                h.n("ConcatFromSequence", ["seq"], "y", axis=axis, new_axis=new_axis)
                h.out("y")
                out.append(h.build())
    return out


FAMILIES = {
    "identity_ops": hosts_identity_ops, "casts": hosts_casts, "slices": hosts_slices, "dropout": hosts_dropout,
    "dropout_runtime": hosts_dropout_runtime,
    "expand": hosts_expand, "reshape_family": hosts_reshape_family, "clip_relu_minmax": hosts_clip_relu_minmax,
    "hardswish": hosts_hardswish, "matmul_gemm": hosts_matmul_gemm, "conv": hosts_conv, "scatter": hosts_scatter,
    "control_flow": hosts_control_flow, "conv_integer": hosts_conv_integer, "shape_attrs": hosts_shape_attrs, "optional_inputs": hosts_optional_inputs,
    "sequences": hosts_sequences, "overridable_defaults": hosts_overridable_defaults, "functions": hosts_functions,
}


def all_hosts(tier="quick"):
    out = []
    for fam, fn in FAMILIES.items():
        for mb, spec, tag in fn():
            out.append((mb, spec, f"{fam}: {tag}", [fam]))
    return out


def rule_models_for_optimizer(tier):
    """subset used by C03/C04 so that every default rule fires there too"""
    hosts = all_hosts(tier)
    if tier == "quick":
        import random
        r = random.Random(1234)
        by_fam = {}
        for h in hosts:
            by_fam.setdefault(h[3][0], []).append(h)
        out = []
        for fam, hs in by_fam.items():
            r.shuffle(hs)
            if fam == "expand":
                # the plain Expand hosts (one per input/target shape pair) are few and each is a different case of the folder's evaluator
                plain = [h for h in hs if ": Expand x=" in h[2]]
                out += plain + [h for h in hs if h not in plain][:15]
                continue
            out += hs if fam in ("control_flow", "optional_inputs", "overridable_defaults", "functions") else hs[:60] if fam in ("shape_attrs", "sequences") else hs[:25]
        return out
    return hosts
