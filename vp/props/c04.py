"""C04 — optimize() is total on valid models; the result is valid with the same interface.

Same runs as C03; the verdicts reported here are totality (no exception), validity of the result
(independent structural checker + onnx.checker, relative to the input model), signature
preservation, and — the solver part proper — equivalence over the *override values* of
initializer-inputs (folding an overridable default into a constant yields a counterexample)."""
from __future__ import annotations

import concurrent.futures as cf

from vp import common
from vp.props import c03 as C3
from vp.props import optcommon as OC


def main(tier: str, only=None) -> int:
    run = common.Run("C04", tier, "translation_validation")
    loop_bound = 3
    items = OC.corpus(tier, common.seed() + 1)
    try:
        from vp.props import rulehosts
        items += rulehosts.rule_models_for_optimizer(tier)
    except ImportError:
        pass
    if only:
        items = [i for i in items if only in i[2]]
    payloads = [(mb, spec, name, feats, tier, loop_bound) for mb, spec, name, feats in items]
    with cf.ProcessPoolExecutor(max_workers=common.jobs()) as ex:
        results = list(ex.map(OC.model_worker, payloads, chunksize=2))
    # value verdicts only for models with initializer-inputs (the rest is C03's claim)
    with_override = [r for r in results if {"initializer_input", "overridable_defaults"} & set(r.get("features") or [])]
    counts, solver, samples, n_pairs, n_changed, _, side = C3.aggregate(run, results, "C04", want_value=False, want_sides=True)
    c2, s2, _, n2, _, _, _ = C3.aggregate(run, with_override, "C04", want_value=True, want_sides=False)
    run.coverage.update({
        "programs": len(items), "disagreements_checked": c2.get("cex", 0), "samples": samples,
        "model_transformation_pairs": n_pairs, "pairs_where_model_changed": n_changed,
        "evaluations": n_pairs, "distinct_nontrivial": n_changed,
        "side_verdicts": side, "side_verdicts_are_enumeration": True,
        "override_models": len(with_override), "override_pairs": n2, "override_verdicts": c2, "queries": s2,
        "transformations": [t for t, _ in OC.transformations(tier)],
    })
    run.assumptions += ["totality/validity/signature are side verdicts of enumerated runs, not solver verdicts",
                        "validity is judged relative to the input model (a generated model the checker rejects is not held against the result)"]
    return run.finish()
