"""C02 — every proto the converter emits is well-formed ONNX; bad programs are refused.

(a) solver part: name-allocator lemma (CrossHair, one inductive step from an arbitrary pre-state).
(b) enumeration part (labelled as such): every proto of the C01 corpus is checked by an independent
    structural checker (SSA, scoping, subgraph outputs, distinct outputs, inputs not returned, one
    import per used domain) and by onnx.checker (strict, with shape inference, on typed variants whose
    output types are taken from the symbolic eager run); near-miss programs must be refused at
    decoration with a message that carries the source position.
"""
from __future__ import annotations

import ast
import concurrent.futures as cf
import re
import time
import traceback

from vp import common, xh

TYPE_NAMES = {"FLOAT": "FLOAT", "INT64": "INT64", "BOOL": "BOOL", "DOUBLE": "DOUBLE", "INT32": "INT32"}


def _ann(dt, shape):
    name = dt.name
    if len(shape) == 0:
        return name
    return f"{name}[{','.join(str(d) for d in shape)}]"


def typed_source(src: str, entry: str, spec, out_types) -> str | None:
    """rewrite the entry function's parameter annotations to the concrete spec and add a return annotation"""
    tree = ast.parse(src)
    fn = next((n for n in tree.body if isinstance(n, ast.FunctionDef) and n.name == entry), None)
    if fn is None:
        return None
    by_name = {n: (dt, sh) for n, dt, sh in spec}
    for a in fn.args.args:
        if a.arg in by_name:
            dt, sh = by_name[a.arg]
            a.annotation = ast.parse(_ann(dt, sh), mode="eval").body
    if len(out_types) == 1:
        fn.returns = ast.parse(_ann(*out_types[0]), mode="eval").body
    else:
        fn.returns = ast.parse("Tuple[" + ", ".join(_ann(*t) for t in out_types) + "]", mode="eval").body
    return "from typing import Tuple\n" + ast.unparse(tree) + "\n"


def _worker(payload):
    prog = payload
    import onnx
    from vp.symonnx import eager as E
    from vp.symonnx import equiv as Q
    from vp.symonnx import scripts as S
    from vp.symonnx import wellformed as W
    from vp.symonnx.values import SV, NotEncoded

    out = {"program": prog.name, "src": prog.src, "refused": None, "problems": [], "checked": 0, "typed_checked": 0, "notes": []}
    try:
        mod = S.load_source(S.HEADER + prog.src, "c02")
        fn = getattr(mod, prog.entry)
    except Exception as e:  # noqa: BLE001
        out["refused"] = f"{type(e).__name__}: {str(e)[:200]}"
        return out

    def check_protos(f, tag, strict_checker):
        try:
            fp = f.to_function_proto()
        except Exception as e:  # noqa: BLE001
            out["problems"].append(f"{tag}: to_function_proto raised {type(e).__name__}: {e}")
            return
        for p in W.check_function(fp):
            out["problems"].append(f"{tag}/function: {p}")
        out["checked"] += 1
        try:
            mp = f.to_model_proto()
        except ValueError as e:
            if "required attributes" in str(e):
                out["notes"].append("to_model_proto refused (required attributes)")
                return
            out["problems"].append(f"{tag}: to_model_proto raised {type(e).__name__}: {e}")
            return
        except Exception as e:  # noqa: BLE001
            out["problems"].append(f"{tag}: to_model_proto raised {type(e).__name__}: {e}")
            return
        for p in W.check_model(mp):
            out["problems"].append(f"{tag}/model: {p}")
        out["checked"] += 1
        if strict_checker:
            try:
                onnx.checker.check_model(mp, full_check=True)
                out["typed_checked"] += 1
            except Exception as e:  # noqa: BLE001
                out["problems"].append(f"{tag}/model: onnx.checker (strict): {str(e)[:300]}")

    check_protos(fn, "untyped", False)
    # typed variant: output types from the symbolic eager run
    for spec in prog.specs[:2]:
        try:
            inputs = S.sym_inputs(spec)
            res, _ = E.eager_paths(fn, [E.SymTensor(inputs[n]) for n, _, _ in spec], dict(prog.attrs[0]), max_depth=8,
                                   base_constraints=Q.box_constraints(inputs))
            outs = [r["outs"] for r in res if r.get("outs")]
            if not outs or not all(isinstance(o, SV) for o in outs[0]):
                continue
            sig = {tuple((o.dtype, o.shape) for o in os_) for os_ in outs if all(isinstance(o, SV) for o in os_)}
            if len(sig) != 1:
                out["notes"].append("output shapes differ between paths: typed variant skipped")
                continue
            tsrc = typed_source(S.HEADER + prog.src, prog.entry, spec, list(next(iter(sig))))
            if tsrc is None:
                continue
            try:
                tmod = S.load_source(tsrc, "c02t")
            except Exception as e:  # noqa: BLE001
                out["notes"].append(f"typed variant refused: {type(e).__name__}: {str(e)[:120]}")
                continue
            check_protos(getattr(tmod, prog.entry), f"typed{[list(s) for _, _, s in spec]}", True)
        except NotEncoded as e:
            out["notes"].append(f"not encoded: {e}")
        except Exception as e:  # noqa: BLE001
            out["notes"].append(f"typed variant harness problem: {type(e).__name__}: {e} {traceback.format_exc()[-400:]}")
    return out


def near_miss_check(run):
    from vp.gen import scripts as G
    from vp.symonnx import scripts as S
    from vp.symonnx import wellformed as W
    res = []
    for name, src in G.NEAR_MISS:
        rec = {"name": name}
        try:
            mod = S.load_source(S.HEADER + src, "c02nm")
        except Exception as e:  # noqa: BLE001
            msg = str(e)
            has_pos = bool(re.search(r"line\s*\d+|:\d+", msg)) or getattr(e, "lineno", None) is not None
            rec.update(refused=True, exception=type(e).__name__, has_position=has_pos, message=msg[:160])
        else:
            fn = getattr(mod, "f")
            probs = []
            try:
                probs = W.check_function(fn.to_function_proto()) + W.check_model(fn.to_model_proto())
            except Exception as e:  # noqa: BLE001
                probs = [f"export raised {type(e).__name__}: {e}"]
            rec.update(refused=False, problems=probs)
        res.append(rec)
    return res


def value_construction_sites():
    """AST pass (regenerated each run): ir.Value(name=...) / make_value(...) constructions in converter.py whose
    name argument is not a call to _generate_unique_name, a parameter name or a name bound from one."""
    import inspect
    from onnxscript._internal import converter
    src = inspect.getsource(converter)
    tree = ast.parse(src)
    sites = []
    for node in ast.walk(tree):
        if isinstance(node, ast.Call):
            f = node.func
            fname = f.attr if isinstance(f, ast.Attribute) else (f.id if isinstance(f, ast.Name) else "")
            if fname in ("Value", "make_value"):
                arg = None
                for kw in node.keywords:
                    if kw.arg in ("name", "varname"):
                        arg = kw.value
                if arg is None and node.args:
                    arg = node.args[0]
                sites.append((node.lineno, fname, ast.unparse(arg) if arg is not None else "?"))
    return sites


BASELINE_SITES = 7  # number of construction sites on the pinned tree (informational: more => unproved obligation)


def main(tier: str, only=None) -> int:
    run = common.Run("C02", tier, "other")
    run.coverage["explanation"] = (
        "(a) CrossHair/z3: one inductive step of the converter's name allocator from an arbitrary pre-state (any subset of a "
        "collision table as used names, counter, candidate) returns a fresh name and records it — covers allocation histories of any "
        "length over those names. (b) enumeration, not a solver verdict: every proto of the C01 corpus is checked structurally "
        "(independent checker + onnx.checker strict on typed variants) and near-miss programs must be refused with a source position."
    )
    xh.run_obligations(run, ["vp.harness.c02a"], tier, only)
    from vp.gen import scripts as G
    progs = list(G.CORE) + G.random_programs(common.seed(), 100 if tier == "quick" else 1500)
    if only:
        progs = [p for p in progs if only in p.name]
    results = []
    with cf.ProcessPoolExecutor(max_workers=common.jobs()) as ex:
        for r in ex.map(_worker, progs, chunksize=4):
            results.append(r)
    known = [k for k in common.known_for("C02") if k.get("engine") == "S"]
    n_checked = n_typed = n_ref = 0
    samples = []
    for r in results:
        if r["refused"]:
            n_ref += 1
            continue
        n_checked += r["checked"]
        n_typed += r["typed_checked"]
        if r["problems"]:
            kf = next((k for k in known if k.get("program") == r["program"]), None)
            if kf:
                run.known(kf["text"])
            else:
                path = common.write_replay("C02", {"engine": "S", "harness": f"c02.{r['program']}", "rebuild": {"kind": "wellformed"},
                                                   "source": r["src"], "problems": r["problems"]})
                run.violation(path, f"{r['program']}: {r['problems'][0][:200]}")
        if len(samples) < 6:
            samples.append({"program": r["program"], "protos_checked": r["checked"], "typed_checked": r["typed_checked"], "notes": r["notes"][:3]})
    nm = near_miss_check(run)
    known_nm = {k.get("near_miss"): k for k in common.known_for("C02") if k.get("near_miss")}
    for rec in nm:
        bad = None
        if rec.get("refused"):
            if not rec["has_position"]:
                bad = f"near-miss {rec['name']}: refused with {rec['exception']} but the message carries no source position: {rec['message']!r}"
        elif rec.get("problems"):
            bad = f"near-miss {rec['name']}: accepted and the proto is malformed: {rec['problems'][0]}"
        else:
            # every near-miss program is outside the subset by construction (it has no faithful translation): accepting it is the violation
            bad = f"near-miss {rec['name']}: accepted by the decorator although the program is outside the subset (it must be refused)"
        if bad:
            if rec["name"] in known_nm:
                run.known(known_nm[rec["name"]]["text"])
            else:
                path = common.write_replay("C02", {"engine": "S", "harness": f"c02.nearmiss.{rec['name']}", "rebuild": {"kind": "nearmiss"}, "record": rec})
                run.violation(path, bad)
    sites = value_construction_sites()
    run.coverage.update({
        "protos_checked_structurally": n_checked, "protos_checked_onnx_checker_strict": n_typed,
        "programs": len(progs), "refused_at_decoration": n_ref,
        "near_miss": nm, "value_construction_sites": [f"converter.py:{l} {f}({a})" for l, f, a in sites],
        "part_b_is_enumeration": True,
    })
    run.coverage["samples"] = (run.coverage.get("samples") or []) + samples
    if len(sites) > BASELINE_SITES:
        run.note_inconclusive(f"{len(sites)} Value construction sites in converter.py (baseline {BASELINE_SITES}): new sites are unproved obligations")
    run.assumptions += ["allocator lemma bounded: 6-name table, counter 0..2", "part (b) is enumeration over the corpus with an independent structural checker as oracle"]
    return run.finish()
