"""C11 — Tensor indexing and slicing mean what they mean in NumPy."""
from vp import common, xh

EXPLANATION = (
    "CrossHair (z3) symbolic execution of the real Tensor.__getitem__ (eager) and of the Slice/Gather/Squeeze "
    "subgraphs emitted by the real converter for each syntactic index form; dims, start, stop and integer "
    "indices are unbounded symbolic integers; the postcondition compares the ONNX-spec meaning of the "
    "recorded/emitted operators with CPython's slice algorithm and NumPy basic indexing. Index-tuple *forms* "
    "(which components are ints/slices/':'/tensors) and step values are enumerated from stated tables."
)


def main(tier: str, only=None) -> int:
    run = common.Run("C11", tier, "other")
    run.coverage["explanation"] = EXPLANATION
    run.coverage["checker_cmd"] = "./check C11 " + tier
    run.assumptions += [
        "NumPy replaced by a list-backed shim inside Tensor.__getitem__; ONNX Slice/Gather/Squeeze follow the "
        "ONNX operator specification (validated against onnxruntime and NumPy on concrete grids at every run)",
        "rank <= 3; step from the stated tables; one 1-D tensor index of length 2 at most",
        "converter path: literal constants from a table; tensor-valued components symbolic",
    ]
    # translator validation (concrete): reference models vs NumPy and vs the real eager implementation
    from vp.harness import c11_selftest
    import os, contextlib
    n, bad, msgs = c11_selftest.run(600 if tier == "quick" else 4000, common.seed())
    run.coverage["translator_validation"] = {"cases": n, "mismatches": bad}
    if bad:
        for m in msgs:
            run.harness_error("translator validation: " + m)
        return run.finish()
    mods = ["vp.harness.c11_eager"]
    try:
        import vp.harness.c11_conv  # noqa: F401
        mods.append("vp.harness.c11_conv")
    except ModuleNotFoundError:
        pass
    xh.run_obligations(run, mods, tier, only)
    return run.finish()
