"""C12 — Python literals are promoted identically by converter, eager mode and builder.

(A) registry-exhaustive enumeration (what the property itself quantifies over): for every (op, version)
    in opsets 13..23 with a tensor input, every position, literal kind and sibling dtype, the three front
    ends are RUN at unit level (static_cast_inputs on a fresh Converter, dynamic_cast_inputs on Tensors,
    GraphBuilder._cast_inputs) and the dtype and value of the promoted operand are compared.
(Z) solver part: for every promotion pipeline (python type -> constant dtype -> cast target) observed
    in (A), z3 (QF_FP / bit-vectors, full bit width) is asked for a literal on which two front ends
    produce bitwise different tensors; and for two literals that share a GraphBuilder cache key but have
    different bits after the cast.  The z3 pipeline models are validated against the real front ends on
    concrete literals at every run.
(X) differential lemma cast_inputs vs BuilderBase._cast_inputs on abstract signatures (vp/harness/c12x.py).
"""
from __future__ import annotations

import itertools
import math
import struct
import time

import numpy as np
import onnx
import onnx.defs
import onnx_ir as ir
import z3

from vp import common, xh

DT = ir.DataType
SIBLINGS = [DT.FLOAT, DT.DOUBLE, DT.FLOAT16, DT.INT64, DT.INT32, DT.BOOL, DT.UINT8, DT.BFLOAT16]
LITERALS = [0, 1, -3, 2.5, -0.0, True, [1, 2], [0.5], 0.1, 16777217, 1e-8]


# ------------------------------------------------------------------ the three front ends, unit level
class _Info:
    ast_node = None

    def msg(self, m):
        return m


def static_pipeline(sig, desc, ver):
    """-> per literal position: ('like', like dtype or None if unknown, const dtype, const numpy) | ('const', dtype, numpy)"""
    import onnxscript
    from onnxscript import values
    from onnxscript._internal import autocast
    from onnxscript._internal import converter as cv
    from onnxscript._internal import irbuilder
    c = cv.Converter(opset=values.Opset("this", 1), global_names={}, source="", default_opset=values.Opset("", ver))
    c._init_function_translation()
    c._current_fn = irbuilder.IRFunction("f", "this")
    vals = []
    for kind, v in desc:
        if kind == "ten":
            vals.append(ir.Value(name=f"t{len(vals)}", type=ir.TensorType(v)))
        elif kind == "none":
            vals.append(None)
        else:
            vals.append(c._emit_const(v, None, _Info()))
    out = autocast.static_cast_inputs(c, sig, vals)
    res = []
    for (kind, v), o in zip(desc, out):
        if kind != "lit":
            res.append(None)
            continue
        p = o.producer()
        if p.op_type == "CastLike":
            cst = p.inputs[0].producer().attributes["value"].value
            like = p.inputs[1].type.dtype if p.inputs[1].type is not None else None
            res.append(("like", like, cst.dtype, cst.numpy()))
        else:
            cst = p.attributes["value"].value
            res.append(("const", cst.dtype, cst.numpy()))
    return res


def eager_pipeline(sig, desc):
    from onnxscript import tensor as ost
    from onnxscript._internal import autocast
    args = []
    for k, v in desc:
        if k == "ten":
            args.append(ost.Tensor(np.zeros((1,), dtype=v.numpy())))
        elif k == "none":
            args.append(None)
        else:
            args.append(v)
    out = autocast.dynamic_cast_inputs(sig, args)
    res = []
    for (k, v), o in zip(desc, out):
        if k != "lit":
            res.append(None)
        else:
            res.append((DT.from_numpy(o.dtype), o.value) if isinstance(o, ost.Tensor) else ("unpromoted", o))
    return res


def builder_pipeline(schema, desc, ver):
    from onnxscript._internal import builder as B
    g = ir.Graph([], [], nodes=[], opset_imports={"": ver}, name="g")
    gb = B.GraphBuilder(g)
    args = []
    for k, v in desc:
        if k == "ten":
            val = ir.Value(name=f"t{len(args)}", type=ir.TensorType(v), shape=ir.Shape([1]))
            g.inputs.append(val)
            args.append(val)
        elif k == "none":
            args.append(None)
        else:
            args.append(v)
    out = gb._cast_inputs(schema, args)
    res = []
    for (k, v), o in zip(desc, out):
        if k != "lit":
            res.append(None)
            continue
        if o.const_value is not None:
            res.append((o.const_value.dtype, o.const_value.numpy()))
        else:
            p = o.producer()
            res.append(("dynamic", p.op_type if p is not None else None))
    return res, gb


def expected_dtype(lit, sibling):
    """the property's rule: sibling type if it shares the constraint, else by python type"""
    if sibling is not None:
        return sibling
    x = lit[0] if isinstance(lit, list) else lit
    return DT.BOOL if isinstance(x, bool) else DT.INT64 if isinstance(x, int) else DT.FLOAT


def _np_cast(a, to: DT):
    npdt = to.numpy()
    with np.errstate(all="ignore"):
        return np.asarray(a).astype(npdt)


def bits(a) -> bytes:
    return np.ascontiguousarray(a).tobytes()


def allowed_types(schema, idx):
    tstr = schema.inputs[idx].type_str
    for tc in schema.type_constraints:
        if tc.type_param_str == tstr:
            return set(tc.allowed_type_strs)
    return {tstr}


ONNX_TSTR = {DT.FLOAT: "tensor(float)", DT.DOUBLE: "tensor(double)", DT.FLOAT16: "tensor(float16)", DT.INT64: "tensor(int64)",
             DT.INT32: "tensor(int32)", DT.BOOL: "tensor(bool)", DT.UINT8: "tensor(uint8)", DT.BFLOAT16: "tensor(bfloat16)"}


def enumerate_registry(tier):
    """(A): run the three front ends over the registry; returns stats, disagreements, observed pipelines"""
    schemas = [s for s in onnx.defs.get_all_schemas_with_history() if s.domain == "" and 13 <= s.since_version <= 23 and len(s.inputs) >= 1]
    lits = LITERALS if tier == "thorough" else LITERALS[:9]
    n = 0
    errors = []
    disagreements = []
    pipelines = set()
    skipped = 0
    for s in schemas:
        try:
            sig = ir.schemas.OpSignature.from_op_schema(s)
        except Exception:  # noqa: BLE001
            skipped += 1
            continue
        npos = len(s.inputs)
        variadic_tail = s.inputs[-1].option == onnx.defs.OpSchema.FormalParameterOption.Variadic
        positions = list(range(npos)) + ([npos] if variadic_tail else [])
        for pos in positions:
            fidx = min(pos, npos - 1)
            tstr = s.inputs[fidx].type_str
            is_tv = "(" not in tstr
            if not is_tv and "tensor" not in tstr:
                continue
            sibs = [d for d in SIBLINGS if (not is_tv) or ONNX_TSTR[d] in allowed_types(s, fidx)]
            if tier == "quick":
                sibs = sibs[:5]
            for sib in sibs or [DT.FLOAT]:
                for lit in lits:
                    nargs = max(npos, pos + 1)
                    desc = []
                    for j in range(nargs):
                        fj = min(j, npos - 1)
                        if j == pos:
                            desc.append(("lit", lit))
                        else:
                            tj = s.inputs[fj].type_str
                            if "(" in tj and "tensor(" in tj:
                                # concrete type, e.g. tensor(int64)
                                name = tj[len("tensor("):-1]
                                dtj = {"int64": DT.INT64, "float": DT.FLOAT, "bool": DT.BOOL, "int32": DT.INT32, "double": DT.DOUBLE,
                                       "uint8": DT.UINT8, "string": None, "float16": DT.FLOAT16}.get(name, DT.FLOAT)
                                desc.append(("ten", dtj) if dtj is not None else ("none", None))
                            elif "(" in tj:
                                desc.append(("none", None))
                            elif tj == tstr:
                                desc.append(("ten", sib))
                            else:
                                other = [d for d in SIBLINGS if ONNX_TSTR[d] in allowed_types(s, fj)]
                                desc.append(("ten", other[0] if other else DT.FLOAT))
                    hetero_tail = (s.inputs[fidx].option == onnx.defs.OpSchema.FormalParameterOption.Variadic and not s.inputs[fidx].is_homogeneous)
                    shares = is_tv and not hetero_tail and any(k == "ten" and s.inputs[min(j, npos - 1)].type_str == tstr for j, (k, _) in enumerate(desc) if j != pos)
                    try:
                        st = static_pipeline(sig, desc, max(s.since_version, 13))[pos]
                        eg = eager_pipeline(sig, desc)[pos]
                        (bl, _gb) = builder_pipeline(s, desc, max(s.since_version, 13))
                        bl = bl[pos]
                    except Exception as e:  # noqa: BLE001
                        errors.append(f"{s.name}-{s.since_version} pos {pos} lit {lit!r} sib {sib.name}: {type(e).__name__}: {str(e)[:80]}")
                        continue
                    n += 1
                    want = expected_dtype(lit, sib if shares else None)
                    # effective static dtype/value
                    if st[0] == "like":
                        s_dt = st[1]
                        s_val = _np_cast(st[3], s_dt) if s_dt is not None else st[3]
                        pipelines.add((type(lit[0] if isinstance(lit, list) else lit).__name__, st[2].name, s_dt.name if s_dt else "?"))
                    else:
                        s_dt, s_val = st[1], st[2]
                        pipelines.add((type(lit[0] if isinstance(lit, list) else lit).__name__, st[1].name, st[1].name))
                    e_dt, e_val = (eg[0], eg[1]) if eg[0] != "unpromoted" else (None, None)
                    b_dt, b_val = (bl[0], bl[1]) if bl[0] != "dynamic" else (None, None)
                    rec = None
                    if not (s_dt == e_dt == b_dt == want):
                        rec = ("dtype", f"static={s_dt} eager={e_dt} builder={b_dt} expected={want}")
                    elif not (bits(s_val) == bits(e_val) == bits(b_val)):
                        rec = ("value", f"static={np.asarray(s_val).tolist()!r} eager={np.asarray(e_val).tolist()!r} builder={np.asarray(b_val).tolist()!r}")
                    if rec:
                        disagreements.append({"op": s.name, "version": s.since_version, "pos": pos, "literal": repr(lit), "sibling": sib.name if shares else None,
                                              "kind": rec[0], "detail": rec[1]})
    return {"schemas": len(schemas), "schemas_skipped": skipped, "probe_calls": n, "harness_errors": errors[:20], "n_errors": len(errors)}, disagreements, pipelines


# ------------------------------------------------------------------ (Z) bit-precise pipeline models
F64, F32, F16 = z3.Float64(), z3.Float32(), z3.Float16()
BF16 = z3.FPSort(8, 8)
RNE, RTZ = z3.RNE(), z3.RTZ()
FSORT = {"FLOAT": F32, "DOUBLE": F64, "FLOAT16": F16, "BFLOAT16": BF16}
IBITS = {"INT64": 64, "INT32": 32, "UINT8": 8}


def z_float_to(v, to: str):
    """python float (binary64 term) -> tensor element of dtype `to` the way numpy converts it"""
    if to in FSORT:
        return z3.fpToFP(RNE, v, FSORT[to]) if to != "DOUBLE" else v
    if to in IBITS:
        return z3.fpToSBV(RTZ, v, z3.BitVecSort(IBITS[to])) if to != "UINT8" else z3.fpToUBV(RTZ, v, z3.BitVecSort(8))
    if to == "BOOL":
        return z3.Not(z3.fpIsZero(v))
    raise KeyError(to)


def z_via(v, mid: str, to: str):
    """python float -> constant of dtype mid -> CastLike to"""
    m = z_float_to(v, mid)
    if mid == to:
        return m
    if mid in FSORT:
        if to in FSORT:
            return z3.fpToFP(RNE, m, FSORT[to])
        if to in IBITS:
            return z3.fpToSBV(RTZ, m, z3.BitVecSort(IBITS[to])) if to != "UINT8" else z3.fpToUBV(RTZ, m, z3.BitVecSort(8))
        if to == "BOOL":
            return z3.Not(z3.fpIsZero(m))
    raise KeyError((mid, to))


def z_int_to(i, to: str):
    """python int (as signed 64-bit BV) -> tensor element"""
    if to in FSORT:
        return z3.fpSignedToFP(RNE, i, FSORT[to])
    if to in IBITS:
        b = IBITS[to]
        return i if b == 64 else z3.Extract(b - 1, 0, i)
    if to == "BOOL":
        return i != 0
    raise KeyError(to)


def z_differs(a, b):
    if z3.is_bool(a):
        return z3.Xor(a, b)
    if z3.is_fp(a):
        return z3.fpToIEEEBV(a) != z3.fpToIEEEBV(b)
    return a != b


def z_queries(pipelines, run):
    """for each observed (python type, const dtype, target): static (via const) vs direct (eager/builder)"""
    results = []
    v = z3.FP("v", F64)
    i = z3.BitVec("i", 64)
    finite = z3.And(z3.Not(z3.fpIsNaN(v)), z3.Not(z3.fpIsInf(v)))
    for py, mid, to in sorted(pipelines):
        if to == "?" or to not in set(FSORT) | set(IBITS) | {"BOOL"} or mid not in set(FSORT) | set(IBITS) | {"BOOL"}:
            results.append({"pipeline": [py, mid, to], "verdict": "not_encoded"})
            continue
        t0 = time.time()
        s = z3.Solver()
        s.set("timeout", 120000)
        try:
            if py == "float":
                direct = z_float_to(v, to)
                static = z_via(v, mid, to)
                s.add(finite)
                if to in IBITS:
                    s.add(z3.fpLT(z3.fpAbs(v), z3.FPVal(2.0 ** (IBITS[to] - 2), F64)))  # out-of-range float->int is undefined
                    if to == "UINT8":
                        s.add(z3.fpGEQ(v, z3.FPVal(0.0, F64)))
                if to in FSORT:
                    # overflow to inf in the narrower type is outside the claim (NaN/inf)
                    s.add(z3.Not(z3.fpIsInf(direct)), z3.Not(z3.fpIsInf(static)))
                s.add(z_differs(direct, static))
            elif py == "int":
                direct = z_int_to(i, to)
                if mid != "INT64":
                    results.append({"pipeline": [py, mid, to], "verdict": "not_encoded"})
                    continue
                static = z_int_to(i, to)  # int64 constant then CastLike == direct conversion from the same int64
                s.add(z_differs(direct, static))
            else:
                results.append({"pipeline": [py, mid, to], "verdict": "trivial(bool)"})
                continue
            r = s.check()
        except (KeyError, z3.Z3Exception) as e:
            results.append({"pipeline": [py, mid, to], "verdict": "not_encoded", "detail": str(e)[:80]})
            continue
        rec = {"pipeline": [py, mid, to], "verdict": str(r), "solver_s": round(time.time() - t0, 2)}
        if str(r) == "sat":
            m = s.model()
            if py == "float":
                val = m.eval(v, model_completion=True)
                rec["witness"] = float(z3.simplify(z3.fpToReal(val)).as_fraction()) if not z3.is_true(z3.simplify(z3.fpIsZero(val))) else 0.0
        results.append(rec)
    return results


def probe_cache_key_relation():
    """which equivalence does the real GraphBuilder constant cache implement?  Probed on the real code with marker
    pairs; decides the shape of the z3 model of key equality (Python == vs identity of type and bits)."""
    from onnxscript._internal import builder as B
    def shared(u, w, dt):
        g = ir.Graph([], [], nodes=[], opset_imports={"": 18}, name="g")
        gb = B.GraphBuilder(g)
        return gb._get_or_create_constant(u, dt) is gb._get_or_create_constant(w, dt)
    rel = {"pos_neg_zero": shared(0.0, -0.0, DT.FLOAT), "int_float": shared(1, 1.0, DT.FLOAT), "same": shared(2.5, 2.5, DT.FLOAT)}
    return rel


def cache_key_query(rel=None):
    """two python floats with equal GraphBuilder cache keys but different bits after the cast.
    Key equality is modelled as Python == (fp.eq) when the probe shows that 0.0 and -0.0 share an entry,
    otherwise as bitwise identity of the Python float."""
    a, b = z3.FP("a", F64), z3.FP("b", F64)
    out = []
    python_eq = rel is None or rel.get("pos_neg_zero")
    key_eq = z3.fpEQ(a, b) if python_eq else (z3.fpToIEEEBV(a) == z3.fpToIEEEBV(b))
    for to in ("FLOAT", "DOUBLE", "FLOAT16"):
        s = z3.Solver()
        s.set("timeout", 60000)
        s.add(key_eq, z_differs(z_float_to(a, to), z_float_to(b, to)))
        r = s.check()
        rec = {"target": to, "verdict": str(r), "key_model": "python ==" if python_eq else "type and bits"}
        if str(r) == "sat":
            m = s.model()
            rec["witness"] = [str(m.eval(a)), str(m.eval(b))]
            # is there a witness other than +0/-0 ?
            s.add(z3.Not(z3.And(z3.fpIsZero(a), z3.fpIsZero(b))))
            rec["other_than_signed_zero"] = str(s.check())
        out.append(rec)
    return out


def validate_z_models():
    """translator validation: the z3 pipeline models vs numpy conversions on concrete literals"""
    bad = []
    lits = [0.1, -0.0, 2.5, 1e-8, 16777217.0, 3.999, -2.5, 1e-40, 65504.0, 1 / 3]
    for x in lits:
        for to in ("FLOAT", "DOUBLE", "FLOAT16", "INT64", "INT32", "BOOL"):
            for mid in ("FLOAT", to):
                term = z3.simplify(z_via(z3.FPVal(x, F64), mid, to)) if mid != to else z3.simplify(z_float_to(z3.FPVal(x, F64), to))
                with np.errstate(all="ignore"):
                    ref = np.array(x, dtype=DT[mid].numpy()).astype(DT[to].numpy()) if mid != to else np.array(x).astype(DT[to].numpy())
                if to in FSORT:
                    got = z3.simplify(z3.fpToIEEEBV(term)).as_long()
                    want = int.from_bytes(np.asarray(ref).tobytes(), "little")
                elif to == "BOOL":
                    got, want = z3.is_true(term), bool(ref)
                else:
                    got, want = term.as_signed_long(), int(ref)
                if got != want:
                    bad.append(f"{x!r} {mid}->{to}: z3 {got} numpy {want}")
    return bad


def replay_known(run):
    """replay the two anticipated value findings on the real front ends (public API)"""
    out = {}
    from vp.symonnx import scripts as S
    try:
        mod = S.load_source(S.HEADER + "@script(default_opset=op)\ndef f(x: DOUBLE[1]) -> DOUBLE[1]:\n    return x + 0.1\n", "c12")
        import onnxruntime as ort
        x = np.zeros(1, dtype=np.float64)
        e = mod.f(x)[0]
        so = ort.SessionOptions()
        so.log_severity_level = 4
        g = ort.InferenceSession(mod.f.to_model_proto().SerializeToString(), so).run(None, {"x": x})[0][0]
        out["double_literal"] = {"eager": repr(float(e)), "graph": repr(float(g)), "differs": bool(e != g)}
    except Exception as e:  # noqa: BLE001
        out["double_literal"] = {"error": str(e)[:200]}
    try:
        from onnxscript._internal import builder as B
        g = ir.Graph([], [], nodes=[], opset_imports={"": 18}, name="g")
        xv = ir.Value(name="x", type=ir.TensorType(DT.FLOAT), shape=ir.Shape([1]))
        g.inputs.append(xv)
        gb = B.GraphBuilder(g)
        z = gb.op.Mul(xv, 0.0)
        w = gb.op.Mul(xv, -0.0)
        a, b = z.producer().inputs[1], w.producer().inputs[1]
        out["signed_zero_cache"] = {"shared": a is b, "bits": [bits(a.const_value.numpy()).hex(), bits(b.const_value.numpy()).hex()]}
    except Exception as e:  # noqa: BLE001
        out["signed_zero_cache"] = {"error": str(e)[:200]}
    return out


def main(tier: str, only=None) -> int:
    run = common.Run("C12", tier, "other")
    run.coverage["explanation"] = __doc__.strip()
    bad = validate_z_models()
    run.coverage["z_model_validation_mismatches"] = bad
    if bad:
        for b in bad[:5]:
            run.harness_error("z3 pipeline model disagrees with numpy: " + b)
        return run.finish()
    stats, disagreements, pipelines = enumerate_registry(tier)
    known = common.known_for("C12")

    def is_known(text, tags=()):
        for k in known:
            m = k.get("match", {})
            if m.get("tag") and m["tag"] in tags:
                return k
        return None
    seen = set()
    for d in disagreements:
        key = (d["kind"], d["sibling"], d["literal"], d["detail"])
        if key in seen:
            continue
        seen.add(key)
        text = f"{d['kind']} sibling={d['sibling']} literal={d['literal']} {d['detail']}"
        tags = []
        try:
            litv = eval(d["literal"])  # noqa: S307 - repr of one of LITERALS
            x = litv[0] if isinstance(litv, list) else litv
            if d["kind"] == "value" and isinstance(x, float) and d["sibling"] not in (None, "FLOAT"):
                tags.append("float-literal-via-float32")
        except Exception:  # noqa: BLE001
            pass
        kf = is_known(text, tags)
        if kf:
            run.known(kf["text"])
        else:
            path = common.write_replay("C12", {"engine": "enum", "harness": "c12.registry", "rebuild": {"kind": "c12_probe"}, "record": d})
            run.violation(path, f"{d['op']}-{d['version']} pos {d['pos']}: {text[:200]}")
    zres = z_queries(pipelines, run)
    for r in zres:
        if r["verdict"] == "sat":
            text = f"z3: pipeline {r['pipeline']} differs from direct conversion, witness {r.get('witness')}"
            tags = ["float-literal-via-float32"] if (r["pipeline"][0] == "float" and r["pipeline"][1] == "FLOAT" and r["pipeline"][2] != "FLOAT") else []
            kf = is_known(text, tags)
            if kf:
                run.known(kf["text"])
            else:
                path = common.write_replay("C12", {"engine": "Z", "harness": "c12.z.pipeline", "rebuild": {"kind": "c12_z"}, "record": r})
                run.violation(path, text)
        elif r["verdict"] == "unknown":
            run.note_inconclusive(f"z3 unknown on pipeline {r['pipeline']}")
    rel = probe_cache_key_relation()
    run.coverage["cache_key_probe"] = rel
    if not rel.get("same"):
        run.harness_error("cache probe: equal literals do not share an entry (probe broken?)")
    ck = cache_key_query(rel)
    for r in ck:
        if r["verdict"] == "sat":
            text = f"z3: cache key collision target={r['target']} witness {r.get('witness')} other_than_signed_zero={r.get('other_than_signed_zero')}"
            kf = is_known(text, ["signed-zero-cache-key"])
            if kf and r.get("other_than_signed_zero") == "unsat":
                run.known(kf["text"])
            else:
                path = common.write_replay("C12", {"engine": "Z", "harness": "c12.z.cachekey", "rebuild": {"kind": "c12_z"}, "record": r})
                run.violation(path, text)
    rep = replay_known(run)
    try:
        import vp.harness.c12x  # noqa: F401
        xh.run_obligations(run, ["vp.harness.c12x", "vp.harness.c12_cache"], tier, only)
    except ModuleNotFoundError:
        pass
    nz = len([r for r in zres if r["verdict"] in ("sat", "unsat")])
    run.coverage.update({
        "registry": stats, "distinct_disagreements": len(seen), "pipelines_observed": sorted(map(list, pipelines)),
        "z_pipeline_queries": zres, "z_cache_key_queries": ck, "public_api_replay": rep,
        "obligations": run.coverage.get("obligations", 0) + nz + len(ck),
        "discharged": run.coverage.get("discharged", 0) + len([r for r in zres if r["verdict"] == "unsat"]) + len([r for r in ck if r["verdict"] == "unsat"]),
        "evaluations": stats["probe_calls"] + run.coverage.get("evaluations", 0),
        "distinct_nontrivial": max(2, len(pipelines)) + run.coverage.get("distinct_nontrivial", 0),
        "samples": (run.coverage.get("samples") or []) + disagreements[:5] + zres[:4],
    })
    if stats["n_errors"] > stats["probe_calls"] * 0.2:
        run.harness_error(f"{stats['n_errors']} probe calls errored: {stats['harness_errors'][:3]}")
    run.assumptions += ["part (A) is exhaustive enumeration over the installed schema registry (opsets 13..23), not a solver verdict",
                        "z3 models: Python float = IEEE binary64, int = 64-bit two's complement; float->int out of range and overflow to inf excluded",
                        "string / sequence operands not covered"]
    return run.finish()
