"""Shared engine for C03 / C04 (/C09): translation validation of optimizer transformations.

For each model M and transformation f with options o: interpret M and f_o(M) with symonnx on the same
fresh symbolic inputs (graph inputs that have initializers are symbolic too: overridable defaults) and
let z3 decide equality of all outputs for all input values.  Side verdicts: exception, structural
well-formedness / onnx.checker of the result, signature preservation.
"""
from __future__ import annotations

import base64
import copy
import time
import traceback

import numpy as np
import onnx
import onnx_ir as ir

TP2DT = {onnx.TensorProto.FLOAT: "FLOAT", onnx.TensorProto.INT64: "INT64", onnx.TensorProto.BOOL: "BOOL",
         onnx.TensorProto.DOUBLE: "DOUBLE", onnx.TensorProto.INT32: "INT32", onnx.TensorProto.FLOAT16: "FLOAT16"}


def transformations(tier: str):
    from onnxscript import optimizer, rewriter

    def opt_proto(**kw):
        def f(mp):
            return optimizer.optimize(mp, **kw)
        return f

    def opt_ir(**kw):
        def f(mp):
            m = ir.from_proto(mp)
            optimizer.optimize_ir(m, **kw)
            return ir.to_proto(m)
        return f

    def fold(mp):
        optimizer.fold_constants(mp)
        return mp

    def fold_ir(mp):
        m = ir.from_proto(mp)
        optimizer.fold_constants(m, onnx_shape_inference=True)
        return ir.to_proto(m)

    def unused(mp):
        optimizer.remove_unused_nodes(mp)
        return mp

    def rw(mp):
        return rewriter.rewrite(mp)

    def rw_ir(mp):
        m = ir.from_proto(mp)
        m = rewriter.rewrite(m)
        return ir.to_proto(m)

    ts = [
        ("optimize(proto)", opt_proto()),
        ("optimize_ir(iter=1,noshape,noinline)", opt_ir(num_iterations=1, onnx_shape_inference=False, inline=False)),
        ("fold_constants(proto)", fold),
        ("rewrite(default,proto)", rw),
        # non-default size limits: which constant nodes are folded depends on them (4 elements: most hosts have operands on both sides)
        ("optimize(proto,input_size_limit=4,output_size_limit=4)", opt_proto(input_size_limit=4, output_size_limit=4)),
    ]
    if tier == "thorough":
        ts += [
            ("optimize_ir()", opt_ir()),
            ("optimize(proto,limits=0)", opt_proto(input_size_limit=0, output_size_limit=0)),
            ("optimize(proto,iter=3,no_stop)", opt_proto(num_iterations=3, stop_if_no_change=False)),
            ("optimize(proto,noinline)", opt_proto(inline=False)),
            ("fold_constants(ir,shape)", fold_ir),
            ("remove_unused_nodes(proto)", unused),
            ("rewrite(default,ir)", rw_ir),
        ]
    return ts


def signature(mp: onnx.ModelProto):
    init = {t.name for t in mp.graph.initializer}
    ins = [(i.name, i.type.SerializeToString(deterministic=True)) for i in mp.graph.input]
    outs = [(o.name, o.type.tensor_type.elem_type) for o in mp.graph.output]
    return ins, outs, sorted(n for n in init if n in {i.name for i in mp.graph.input})


def override_candidates(mp: onnx.ModelProto, limit: int = 6):
    """Concrete override values for the small integer / bool / scalar initializer-inputs of a model (shape-like operands,
    conditions, ratios): the symbolic semantics cannot follow a data-dependent reshape target or axes, so those overridable
    defaults are instantiated by a few concrete alternatives instead (enumerated; the other inputs stay symbolic)."""
    from onnx import numpy_helper as nh_
    inputs = {i.name for i in mp.graph.input}
    out = []
    for t in mp.graph.initializer:
        if t.name not in inputs:
            continue
        a = nh_.to_array(t)
        alts = []
        if a.dtype == np.bool_ and a.size == 1:
            alts = [np.logical_not(a)]
        elif a.dtype.kind == "i" and a.ndim == 1 and 1 <= a.size <= 3:
            p = int(np.prod(a)) if a.size and np.all(a > 0) else None
            alts.append(a[::-1].copy())
            if p is not None and a.size == 2:
                alts += [np.array([p, 1], dtype=a.dtype), np.array([1, p], dtype=a.dtype), np.array([-1, 1], dtype=a.dtype)]
            if a.size == 1:
                alts += [a + 1, np.array([1], dtype=a.dtype), np.array([-1], dtype=a.dtype)]
            if a.size == 3:
                alts += [np.roll(a, 1)]
        elif a.dtype.kind == "i" and a.ndim == 0:
            alts = [a + 1, np.array(0, dtype=a.dtype)]
        elif a.dtype.kind == "f" and a.ndim == 0:
            alts = [np.array(0.5, dtype=a.dtype)]
        for alt in alts:
            if alt.shape == a.shape and not np.array_equal(alt, a):
                out.append({t.name: alt})
    return out[:limit]


def check_model_pair(mp: onnx.ModelProto, spec, tname, tf, stats, loop_bound=3, want_sides=True, new=None,
                     skip_if_first_fails=True, fixed_inputs=None):
    """-> record dict: verdict in {equiv, equiv_tol, cex, unknown, not_encoded, exception, unchanged}, side verdicts"""
    from vp.symonnx import equiv as Q
    from vp.symonnx import interp as I
    from vp.symonnx import wellformed as W
    from vp.symonnx.values import DT, Malformed, NotEncoded, fresh

    rec = {"transformation": tname, "side": {}}
    orig_bytes = mp.SerializeToString()
    try:
        if new is None:
            new = tf(copy.deepcopy(mp))
    except Exception as e:  # noqa: BLE001 - totality is C04's business
        rec.update(verdict="exception", detail=f"{type(e).__name__}: {str(e)[:300]}", tb=traceback.format_exc()[-1200:])
        return rec
    if not isinstance(new, onnx.ModelProto):
        rec.update(verdict="exception", detail=f"transformation returned {type(new).__name__}")
        return rec
    new_bytes = new.SerializeToString()
    rec["changed"] = new_bytes != orig_bytes
    rec["nodes_before"] = len(mp.graph.node)
    rec["nodes_after"] = len(new.graph.node)
    if want_sides:
        probs = W.check_model(new)
        rec["side"]["malformed"] = probs[:3]
        try:
            onnx.checker.check_model(mp, full_check=False)
            orig_ok = True
        except Exception:  # noqa: BLE001
            orig_ok = False
        rec["side"]["input_passes_checker"] = orig_ok
        rec["side"]["input_malformed"] = W.check_model(mp)[:2]
        try:
            onnx.checker.check_model(new, full_check=False)
            rec["side"]["checker"] = None
        except Exception as e:  # noqa: BLE001
            rec["side"]["checker"] = str(e)[:300] if orig_ok else None
        s0, s1 = signature(mp), signature(new)
        rec["side"]["signature_changed"] = None if (s0[0] == s1[0] and s0[1] == s1[1]) else f"{s0[:2]} -> {s1[:2]}"[:300]
        lost = [n for n in s0[2] if n not in s1[2]]
        used_new = set()

        def _walk(g):
            for nd in g.node:
                used_new.update(nd.input)
                for a in nd.attribute:
                    if a.type == onnx.AttributeProto.GRAPH:
                        _walk(a.g)
        _walk(new.graph)
        used_new.update(o.name for o in new.graph.output)
        # a default that is dropped because the input became unused vs. a default folded into the graph
        rec["side"]["initializer_inputs_lost"] = [n for n in lost if n in used_new]
        rec["side"]["unused_initializer_input_defaults_dropped"] = [n for n in lost if n not in used_new]
    try:
        inputs = {n: fresh(n, sh, DT(dt)) for n, dt, sh in spec}
        if fixed_inputs:
            from vp.symonnx.values import const as _const_sv
            for fn_, fv_ in fixed_inputs.items():
                inputs[fn_] = _const_sv(fv_)
            rec["fixed_inputs"] = {k: np.asarray(v).tolist() for k, v in fixed_inputs.items()}
        m1, m2 = ir.from_proto(mp), ir.from_proto(new)
        r1 = I.interpret(m1, inputs, loop_bound=loop_bound)
        r2 = I.interpret(m2, inputs, loop_bound=loop_bound)

        def tol_fn(a, b):
            try:
                t1 = I.interpret(m1, inputs, loop_bound=loop_bound, track_mag=True)
                t2 = I.interpret(m2, inputs, loop_bound=loop_bound, track_mag=True)
                if len(t1) == 1 and len(t2) == 1 and not t1[0]["bottom"] and not t2[0]["bottom"]:
                    return t1[0], t2[0]
            except Exception:  # noqa: BLE001
                pass
            return None, None
        v = Q.compare(r1, r2, inputs, stats, tol_fn=tol_fn, skip_if_first_fails=skip_if_first_fails)
        rec.update(verdict=v["verdict"], detail=v.get("detail", ""), kind=v.get("kind"), grid=v.get("grid"), spec_orig_fails=v.get("first_fails"))
        rec["uf"] = sorted(set().union(*[r["uf"] for r in r1 + r2]))
        rec["numeric_nodes"] = sum(r.get("numeric_nodes", 0) for r in r1 + r2)
        if v["verdict"] == "cex":
            from vp.symonnx import replay as R
            if v.get("inputs"):
                feeds = R.np_inputs(v["inputs"])
            else:
                feeds = {n: np.zeros(sh, dtype=DT(dt).numpy()) for n, dt, sh in spec}
            rep = R.replay_pair(orig_bytes, new_bytes, feeds)
            if not rep["reproduced"] and rec.get("uf"):
                rep, feeds = R.replay_pair_random(orig_bytes, new_bytes, spec)
                rec["replay_inputs_sampled"] = True
            rec["replay"] = {k: rep.get(k) for k in ("reproduced", "difference", "ort_err_a", "ort_err_b", "reference_agrees")}
            rec["orig_fails_only"] = bool(rep.get("ort_err_a")) and not rep.get("ort_err_b")
            rec["new_fails_only"] = bool(rep.get("ort_err_b")) and not rep.get("ort_err_a")
            rec["zero_dim_input"] = any(0 in sh for _, _, sh in spec)
            rec["replay_record"] = {
                "engine": "S", "inputs": {n: {"dtype": DT(dt).name, "shape": list(sh), "values": feeds[n].tolist()} for n, dt, sh in spec},
                "rebuild": {"kind": "pair", "transformation": tname, "model_a_b64": base64.b64encode(orig_bytes).decode(),
                            "model_b_b64": base64.b64encode(new_bytes).decode()},
                "observed": rep, "detail": v.get("detail"),
            }
    except NotEncoded as e:
        rec.update(verdict="not_encoded", detail=str(e)[:200])
    except Malformed as e:
        rec.update(verdict="malformed_input_or_result", detail=str(e)[:300])
    return rec


def model_worker(payload):
    """payload: (model bytes, spec, name, features, tier, loop_bound) -> per-transformation records"""
    mb, spec, name, features, tier, loop_bound = payload
    from vp.symonnx import equiv as Q
    mp = onnx.load_from_string(mb)
    stats = Q.Stats()
    out = {"model": name, "features": features, "ops": sorted({n.op_type for n in mp.graph.node}), "records": [], "error": None}
    t0 = time.time()
    try:
        overrides = override_candidates(mp) if "overridable_defaults" in (features or []) or "initializer_input" in (features or []) else []
        for tname, tf in transformations(tier):
            rec0 = check_model_pair(mp, spec, tname, tf, stats, loop_bound)
            out["records"].append(rec0)
            if overrides and rec0.get("verdict") == "not_encoded":
                # the transformed model is the same whatever the caller feeds: transform once, compare under each concrete override
                try:
                    new_ = tf(copy.deepcopy(mp))
                except Exception:  # noqa: BLE001 - already recorded by rec0
                    continue
                for ov in overrides:
                    rec_ = check_model_pair(mp, spec, tname, None, stats, loop_bound, want_sides=False, new=new_, fixed_inputs=ov)
                    rec_["transformation"] = f"{tname} @ override {dict((k, np.asarray(v).tolist()) for k, v in ov.items())}"
                    out["records"].append(rec_)
    except Exception as e:  # noqa: BLE001
        out["error"] = f"{type(e).__name__}: {e} {traceback.format_exc()[-1500:]}"
    out["solver"] = stats.as_dict()
    out["wall_s"] = round(time.time() - t0, 2)
    return out


def topo_shuffle(mp: onnx.ModelProto, rnd) -> onnx.ModelProto:
    """the same model with its main-graph nodes in another valid topological order (random choice among ready nodes):
    node order is free in ONNX, and transformations that insert nodes at a matched node's position depend on it"""
    m = onnx.ModelProto()
    m.CopyFrom(mp)
    nodes = list(m.graph.node)

    def free_inputs(n):
        ins = set(i for i in n.input if i)
        for a in n.attribute:
            if a.type == onnx.AttributeProto.GRAPH:
                inner = {o for sn in a.g.node for o in sn.output} | {i.name for i in a.g.input} | {t.name for t in a.g.initializer}
                for sn in a.g.node:
                    ins |= set(i for i in free_inputs(sn) if i not in inner)
        return ins
    produced_by = {o: k for k, n in enumerate(nodes) for o in n.output if o}
    deps = [{produced_by[i] for i in free_inputs(n) if i in produced_by} for n in nodes]
    done, order = set(), []
    while len(order) < len(nodes):
        ready = [k for k in range(len(nodes)) if k not in done and deps[k] <= done]
        if not ready:
            return mp
        k = rnd.choice(ready)
        done.add(k)
        order.append(k)
    del m.graph.node[:]
    m.graph.node.extend(nodes[k] for k in order)
    return m


def corpus(tier: str, seed: int):
    import random
    from vp.gen import models as GM
    n = 300 if tier == "quick" else 3000
    items = []
    for i in range(n):
        try:
            m, spec, feats = GM.random_model(seed, i)
        except Exception:  # noqa: BLE001 - generator dead end
            continue
        if i % 3 == 2:
            m = topo_shuffle(m, random.Random(seed * 31 + i))
            feats = sorted(set(feats) | {"node_order_shuffled"})
        items.append((m.SerializeToString(), [(a, int(b), tuple(c)) for a, b, c in spec], f"gen{i}", feats))
    return items


# ------------------------------------------------------------------ diagnosis predicates for known findings
def _const_arrays(mp):
    from onnx import numpy_helper as nh
    consts = {}

    def walk(g):
        for t in g.initializer:
            consts[t.name] = nh.to_array(t)
        for n in g.node:
            if n.op_type == "Constant":
                for a in n.attribute:
                    if a.name == "value":
                        consts[n.output[0]] = nh.to_array(a.t)
            for a in n.attribute:
                if a.type == onnx.AttributeProto.GRAPH:
                    walk(a.g)
    walk(mp.graph)
    return consts


def _count_nodes(mp, pred):
    c = 0
    def walk(g):
        nonlocal c
        for n in g.node:
            if pred(n):
                c += 1
            for a in n.attribute:
                if a.type == onnx.AttributeProto.GRAPH:
                    walk(a.g)
    walk(mp.graph)
    return c


def diag_eps_identity(orig, new):
    """an Add/Sub whose constant operand is within the matcher's tolerance of 0 (or Mul/Div of 1) but not equal
    to it was removed"""
    consts = _const_arrays(orig)
    ginputs = {i.name for i in orig.graph.input}
    folded = None
    try:
        # the near-identity constant may be a computed one (e.g. Sqrt(Abs(2 - 0.999999))): look at the folded model too
        from onnxscript import optimizer
        folded = onnx.ModelProto()
        folded.CopyFrom(orig)
        optimizer.fold_constants(folded)
        consts_f = _const_arrays(folded)
    except Exception:  # noqa: BLE001
        folded, consts_f = None, {}

    def near(n):
        if n.op_type not in ("Add", "Sub", "Mul", "Div"):
            return False
        target = 0.0 if n.op_type in ("Add", "Sub") else 1.0
        for i in n.input:
            for cs in (consts, consts_f):
                if i in cs and i not in ginputs and cs[i].dtype.kind == "f" and cs[i].size == 1:
                    v = float(cs[i].reshape(-1)[0])
                    if v != target and abs(v - target) <= max(1e-5 * max(abs(v), abs(target)), 1e-8):
                        return True
        return False
    return (_count_nodes(orig, near) > 0 or (folded is not None and _count_nodes(folded, near) > 0)) and _count_nodes(new, lambda n: n.op_type in ("Add", "Sub", "Mul", "Div")) < _count_nodes(orig, lambda n: n.op_type in ("Add", "Sub", "Mul", "Div"))


def diag_minmax_initializer_input(orig, new):
    ginputs = {i.name for i in orig.graph.input}
    inits = {t.name for t in orig.graph.initializer}
    both = ginputs & inits
    return _count_nodes(orig, lambda n: n.op_type in ("Min", "Max") and any(i in both for i in n.input)) > 0


def diag_widens_accepted_inputs(orig, new):
    return True  # decided from the replay record in diagnose()


def diag_flatten_zero_dim(orig, new):
    return _count_nodes(orig, lambda n: n.op_type == "Flatten") > 0 and _count_nodes(new, lambda n: n.op_type == "Reshape") > 0


def diag_unused_initializer_input_dropped(orig, new):
    return True  # decided from the side record in c03.aggregate (detail text)


def diag_bn_training_mode_dropped(orig, new):
    """the original has a BatchNormalization with training_mode=1 whose running_mean / running_var outputs are unused; the result
    has no BatchNormalization in training mode any more (fused away or turned into inference mode)"""
    def training_bns(mp):
        used = {i for n in mp.graph.node for i in n.input} | {o.name for o in mp.graph.output}
        out = []
        for n in mp.graph.node:
            if n.op_type == "BatchNormalization" and any(a.name == "training_mode" and a.i == 1 for a in n.attribute):
                out.append(all((o == "" or o not in used) for o in list(n.output)[1:]))
        return out
    a, b = training_bns(orig), training_bns(new)
    return bool(a) and all(a) and not b


DIAG = {"bn_training_mode_dropped": diag_bn_training_mode_dropped, "unused_initializer_input_dropped": diag_unused_initializer_input_dropped, "flatten_reshape_zero_dim": diag_flatten_zero_dim, "eps_identity": diag_eps_identity, "minmax_initializer_input": diag_minmax_initializer_input,
        "widens_accepted_inputs": diag_widens_accepted_inputs}


def diagnose(name, rec) -> bool:
    import base64
    rr = rec.get("replay_record") or {}
    rb = rr.get("rebuild") or {}
    if "model_a_b64" not in rb or name not in DIAG:
        return False
    if name == "widens_accepted_inputs":
        # both the symbolic semantics and onnxruntime must say: the ORIGINAL fails on this input, the result returns
        return bool(rec.get("orig_fails_only")) and rec.get("kind") == "error-behaviour"
    if name == "flatten_reshape_zero_dim" and not (rec.get("new_fails_only") and rec.get("zero_dim_input")):
        return False
    try:
        a = onnx.load_from_string(base64.b64decode(rb["model_a_b64"]))
        b = onnx.load_from_string(base64.b64decode(rb["model_b_b64"]))
        return bool(DIAG[name](a, b))
    except Exception:  # noqa: BLE001
        return False
