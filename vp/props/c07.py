"""C07 — applying a rewrite replaces only the match and leaves a valid, equivalent graph.

Generated rules (pattern p, replacement r) whose equivalence p == r is first PROVED by z3 on a minimal
host (so it is discharged, not assumed); then hosts with k >= 0 possibly overlapping instances in the
main graph, inside If/Loop bodies (depth <= 2), inside a model-local function, with initializer name
clashes and extra consumers of intermediates.  Decided by symonnx + z3: [[M]] == [[rewrite(M,[rule])]]
for all inputs.  Side verdicts (enumeration): result well-formed, signature kept, multiset of
unmatched node types kept, at least one application where a removable instance exists.
"""
from __future__ import annotations

import concurrent.futures as cf
import copy
import itertools

import numpy as np
import onnx
import onnx_ir as ir
from onnx import TensorProto as TP
from onnx import helper as oh
from onnx import numpy_helper as nh

from vp import common
from vp.props import c03 as C3
from vp.props import optcommon as OC

F, I64, B = TP.FLOAT, TP.INT64, TP.BOOL


# ------------------------------------------------------------------ rules (built inside the worker: closures do not pickle)
def make_rule(name: str):
    from onnxscript.rewriter import pattern as P
    # NOTE: replacements never contain their own pattern (the rewriter revisits new nodes, so a
    # self-reproducing rule does not terminate; that is a property of the rule, not of the rewriter)
    if name == "reemit_relu":
        return P.RewriteRule(lambda op, x: op.Relu(x), lambda op, x: op.Max(x, op.Constant(value_float=0.0)), name=name)
    if name == "swap_add":
        return P.RewriteRule(lambda op, x, y: op.Add(op.Neg(x), y), lambda op, x, y: op.Sub(y, x), name=name)
    if name == "double_transpose":
        return P.RewriteRule(lambda op, x: op.Transpose(op.Transpose(x, perm=[1, 0]), perm=[1, 0]), lambda op, x: op.Identity(x), name=name)
    if name == "neg_neg":
        return P.RewriteRule(lambda op, x: op.Neg(op.Neg(x)), lambda op, x: op.Identity(x), name=name)
    if name == "mul_one":
        return P.RewriteRule(lambda op, x: op.Mul(x, 1.0), lambda op, x: op.Identity(x), name=name)
    if name == "mul_one_passthrough":
        # the replacement IS one of the pattern's inputs (no new node): x * 1 -> x
        return P.RewriteRule(lambda op, x: op.Mul(x, 1.0), lambda op, x: x, name=name)
    if name == "neg_neg_passthrough":
        return P.RewriteRule(lambda op, x: op.Neg(op.Neg(x)), lambda op, x: x, name=name)
    if name == "relu_neg_two_outputs":
        def pat(op, x):
            r = op.Relu(x)
            return r, op.Neg(r)

        def rep(op, x):
            r = op.Max(x, op.Constant(value_float=0.0))
            return r, op.Min(op.Neg(x), op.Constant(value_float=0.0))
        return P.RewriteRule(pat, rep, name=name)
    if name == "outer_then_inner_outputs":
        # the same two values returned OUTER first: both outputs hang below one output node (has_single_output_node)
        def pat3(op, x):
            r = op.Relu(x)
            return op.Neg(r), r

        def rep3(op, x):
            r = op.Max(x, op.Constant(value_float=0.0))
            return op.Min(op.Neg(x), op.Constant(value_float=0.0)), r
        return P.RewriteRule(pat3, rep3, name=name)
    if name == "relu_neg_two_outputs_between":
        r_ = make_rule("relu_neg_two_outputs")
        r_.name = name
        return r_
    if name in ("two_roots", "two_roots_between", "two_roots_second_first"):
        # two output nodes that only share the input x (like the shipped slice_split_rule); replacement re-emits both
        def pat2(op, x):
            return op.Neg(op.Neg(x)), op.Relu(x)

        def rep2(op, x):
            return op.Identity(x), op.Max(x, op.Constant(value_float=0.0))
        return P.RewriteRule(pat2, rep2, name=name)
    if name == "sub_to_add_cached_neg":
        # a rule with per-graph state (set up and cleared by the graph visitor hooks): Neg(s) is created once per graph and reused
        class CachedNeg(P.RewriteRuleClassBase):
            def __init__(self):
                super().__init__(name=name)
                self._neg = {}

            def setup(self):
                self._neg = {}

            def cleanup(self):
                self._neg = {}

            def pattern(self, op, x, s):
                return op.Sub(x, s)

            def rewrite(self, op, x, s):
                if id(s) not in self._neg:
                    self._neg[id(s)] = op.Neg(s)
                return op.Add(x, self._neg[id(s)])
        return CachedNeg.rule()
    if name == "sub_to_add_neg":
        return P.RewriteRule(lambda op, x, y: op.Sub(x, y), lambda op, x, y: op.Add(x, op.Neg(y)), name=name)
    if name == "add_const_reassoc":
        # replacement needs a new initializer
        def rep(op, x):
            return op.Add(x, op.initializer(ir.tensor(np.array(3.0, dtype=np.float32)), name="three"))
        return P.RewriteRule(lambda op, x: op.Add(op.Add(x, 1.0), 2.0), rep, name=name)
    if name == "neg_neg_as_function":
        return P.RewriteRule(lambda op, x: op.Neg(op.Neg(x)), lambda op, x: op.NegNeg(x, _domain="vp.custom"), name=name, as_function=True)
    if name in ("mul_add_as_function", "mul_add_as_function_commuted"):
        return P.RewriteRule(lambda op, x, y, z: op.Mul(op.Add(x, y), z), lambda op, x, y, z: op.AddMul(x, y, z, _domain="vp.custom"),
                             name=name, as_function=True)
    if name == "relu_neg_keep_nodes":
        return P.RewriteRule(lambda op, x: op.Neg(op.Relu(x)), lambda op, x: op.Min(op.Neg(x), op.Constant(value_float=0.0)), name=name, remove_nodes=False)
    raise KeyError(name)


RULES = ["reemit_relu", "swap_add", "double_transpose", "neg_neg", "mul_one", "relu_neg_two_outputs", "sub_to_add_neg",
         "add_const_reassoc", "neg_neg_as_function", "relu_neg_keep_nodes", "mul_add_as_function",
         # multi-output patterns whose hosts put a consumer of the first output BETWEEN the matched output nodes
         "relu_neg_two_outputs_between", "outer_then_inner_outputs", "two_roots", "two_roots_between", "two_roots_second_first",
         # replacements that return a pattern input itself
         "mul_one_passthrough", "neg_neg_passthrough",
         # a rule that keeps per-graph state through the graph_pre_visitor / graph_post_visitor hooks
         "sub_to_add_cached_neg"]


def instance(rule: str, src: str, pfx: str, nodes: list, inits: list):
    """append one instance of the rule's pattern consuming `src`; returns (output name, intermediates)"""
    n = lambda s: f"{pfx}_{s}"  # noqa: E731
    if rule == "reemit_relu":
        nodes.append(oh.make_node("Relu", [src], [n("r")]))
        return n("r"), []
    if rule == "swap_add":
        nodes.append(oh.make_node("Neg", [src], [n("ng")]))
        nodes.append(oh.make_node("Add", [n("ng"), "aux"], [n("a")]))
        return n("a"), [n("ng")]
    if rule == "double_transpose":
        nodes.append(oh.make_node("Transpose", [src], [n("t1")], perm=[1, 0]))
        nodes.append(oh.make_node("Transpose", [n("t1")], [n("t2")], perm=[1, 0]))
        return n("t2"), [n("t1")]
    if rule in ("neg_neg", "neg_neg_as_function", "neg_neg_passthrough"):
        nodes.append(oh.make_node("Neg", [src], [n("n1")]))
        nodes.append(oh.make_node("Neg", [n("n1")], [n("n2")]))
        return n("n2"), [n("n1")]
    if rule in ("mul_one", "mul_one_passthrough"):
        inits.append(nh.from_array(np.array(1.0, dtype=np.float32), n("one")))
        nodes.append(oh.make_node("Mul", [src, n("one")], [n("m")]))
        return n("m"), []
    if rule == "relu_neg_two_outputs":
        nodes.append(oh.make_node("Relu", [src], [n("r")]))
        nodes.append(oh.make_node("Neg", [n("r")], [n("nr")]))
        nodes.append(oh.make_node("Add", [n("r"), n("nr")], [n("s")]))  # both outputs used
        nodes.append(oh.make_node("Add", [n("s"), n("r")], [n("o")]))
        return n("o"), []
    if rule == "outer_then_inner_outputs":
        nodes.append(oh.make_node("Relu", [src], [n("r")]))
        nodes.append(oh.make_node("Abs", [n("r")], [n("c")]))       # consumer of the INNER output before the outer node
        nodes.append(oh.make_node("Neg", [n("r")], [n("nr")]))
        nodes.append(oh.make_node("Add", [n("c"), n("nr")], [n("o")]))
        return n("o"), []
    if rule == "relu_neg_two_outputs_between":
        nodes.append(oh.make_node("Relu", [src], [n("r")]))
        nodes.append(oh.make_node("Abs", [n("r")], [n("c")]))       # consumer of output 0 before the node producing output 1
        nodes.append(oh.make_node("Neg", [n("r")], [n("nr")]))
        nodes.append(oh.make_node("Add", [n("c"), n("nr")], [n("o")]))
        return n("o"), []
    if rule == "two_roots_second_first":
        nodes.append(oh.make_node("Relu", [src], [n("b")]))         # the node of pattern output 1 comes first in the host
        nodes.append(oh.make_node("Abs", [n("b")], [n("c")]))       # ... and its consumer precedes the node of pattern output 0
        nodes.append(oh.make_node("Neg", [src], [n("n1")]))
        nodes.append(oh.make_node("Neg", [n("n1")], [n("a")]))
        nodes.append(oh.make_node("Add", [n("c"), n("a")], [n("o")]))
        return n("o"), [n("n1")]
    if rule in ("two_roots", "two_roots_between"):
        nodes.append(oh.make_node("Neg", [src], [n("n1")]))
        nodes.append(oh.make_node("Neg", [n("n1")], [n("a")]))
        if rule == "two_roots_between":
            nodes.append(oh.make_node("Abs", [n("a")], [n("c")]))   # consumer of output 0 between the two matched roots
            nodes.append(oh.make_node("Relu", [src], [n("b")]))
        else:
            nodes.append(oh.make_node("Relu", [src], [n("b")]))
            nodes.append(oh.make_node("Abs", [n("a")], [n("c")]))
        nodes.append(oh.make_node("Add", [n("c"), n("b")], [n("o")]))
        return n("o"), [n("n1")]
    if rule == "relu_neg_keep_nodes":
        nodes.append(oh.make_node("Relu", [src], [n("r")]))
        nodes.append(oh.make_node("Neg", [n("r")], [n("nr")]))
        return n("nr"), [n("r")]
    if rule == "mul_add_as_function":
        nodes.append(oh.make_node("Add", [src, "aux"], [n("a")]))
        nodes.append(oh.make_node("Mul", [n("a"), "dflt"], [n("m")]))
        return n("m"), [n("a")]
    if rule in ("sub_to_add_neg", "sub_to_add_cached_neg"):
        nodes.append(oh.make_node("Sub", [src, "aux"], [n("s")]))
        return n("s"), []
    if rule == "add_const_reassoc":
        inits.append(nh.from_array(np.array(1.0, dtype=np.float32), n("c1")))
        inits.append(nh.from_array(np.array(2.0, dtype=np.float32), n("c2")))
        nodes.append(oh.make_node("Add", [src, n("c1")], [n("a1")]))
        nodes.append(oh.make_node("Add", [n("a1"), n("c2")], [n("a2")]))
        return n("a2"), [n("a1")]
    raise KeyError(rule)


N_RANDOM = {"quick": 6, "thorough": 150}


def hosts(rule: str, tier: str = "quick"):
    """-> list of (tag, ModelProto, spec, expected_min_applications)"""
    out = []
    shape = [2, 2]
    vi = lambda n, dt=F, sh=shape: oh.make_tensor_value_info(n, dt, sh)  # noqa: E731
    aux = nh.from_array(np.array([[0.5, -1.0], [2.0, 0.25]], dtype=np.float32), "aux")
    dflt = nh.from_array(np.array([[1.0, 2.0], [-1.0, 0.5]], dtype=np.float32), "dflt")

    def finish(tag, nodes, inits, outs, expect, inputs=("x",), functions=(), extra=()):
        uses_dflt = any("dflt" in nd.input for nd in nodes) or any("dflt" in sub.input for nd in nodes for a in nd.attribute
                                                                    if a.type == onnx.AttributeProto.GRAPH for sub in a.g.node)
        if uses_dflt and "dflt" not in inputs:
            inputs = tuple(inputs) + ("dflt",)      # graph input WITH a default initializer: an overridable value, not a constant
        if uses_dflt:
            inits = list(inits) + [dflt]
        g = oh.make_graph(nodes, "g", [vi(n) if n != "c" else vi("c", B, []) for n in inputs], [vi(o) for o in outs], [aux] + inits)
        m = oh.make_model(g, opset_imports=[oh.make_opsetid("", 18)] + [oh.make_opsetid(d, v) for d, v in extra], functions=list(functions), ir_version=9)
        try:
            m = onnx.shape_inference.infer_shapes(m)
        except Exception:  # noqa: BLE001
            pass
        spec = [(n, int(F), tuple(shape)) if n != "c" else ("c", int(B), ()) for n in inputs]
        out.append((f"{rule}: {tag}", m, spec, expect))

    # k = 0
    nodes, inits = [oh.make_node("Abs", ["x"], ["y"])], []
    finish("k=0 (no instance)", nodes, inits, ["y"], 0)
    # the instance's operand is a graph input that merely has a default value
    nodes, inits = [], []
    o, _ = instance(rule, "xd", "d0", nodes, inits)
    nodes.append(oh.make_node("Add", [o, "x"], ["zd"]))
    g_ = oh.make_graph(nodes, "g", [vi("x"), vi("xd")] + ([vi("dflt")] if rule == "mul_add_as_function" else []), [vi("zd")],
                       [aux, nh.from_array(np.array([[3.0, -2.0], [0.5, 1.0]], dtype=np.float32), "xd")] + ([dflt] if rule == "mul_add_as_function" else []) + inits)
    m_ = oh.make_model(g_, opset_imports=[oh.make_opsetid("", 18)], ir_version=9)
    try:
        m_ = onnx.shape_inference.infer_shapes(m_)
    except Exception:  # noqa: BLE001
        pass
    out.append((f"{rule}: operand is an initializer-input (overridable default)", m_,
                [("x", int(F), tuple(shape)), ("xd", int(F), tuple(shape))] + ([("dflt", int(F), tuple(shape))] if rule == "mul_add_as_function" else []), 1))
    # k = 1, 2, 3 chained
    for k in (1, 2, 3):
        nodes, inits = [], []
        cur = "x"
        for j in range(k):
            cur, _ = instance(rule, cur, f"i{j}", nodes, inits)
            nodes.append(oh.make_node("Abs", [cur], [f"sep{j}"]))
            cur = f"sep{j}"
        finish(f"k={k} separated instances", nodes, inits, [cur], k)
    # overlapping / adjacent instances (output of one feeds the next directly)
    nodes, inits = [], []
    cur = "x"
    for j in range(3):
        cur, _ = instance(rule, cur, f"o{j}", nodes, inits)
    finish("3 adjacent (overlapping) instances", nodes, inits, [cur], 1)
    # matched output is a graph output and also used elsewhere
    nodes, inits = [], []
    o, mids = instance(rule, "x", "g0", nodes, inits)
    nodes.append(oh.make_node("Exp" if False else "Abs", [o], ["z"]))
    finish("matched output is graph output and consumed", nodes, inits, [o, "z"], 1)
    # intermediate has an extra consumer (instance must not be removed)
    nodes, inits = [], []
    o, mids = instance(rule, "x", "e0", nodes, inits)
    if mids:
        nodes.append(oh.make_node("Abs", [mids[0]], ["extra"]))
        nodes.append(oh.make_node("Add", [o, "extra"], ["z"]))
        finish("intermediate has an extra consumer", nodes, inits, ["z"], 0)
        nodes2, inits2 = [], []
        o2, mids2 = instance(rule, "x", "q0", nodes2, inits2)
        finish("intermediate is a graph output", nodes2, inits2, [o2, mids2[0]], 0)
    # inside If branches (both), depth 1 and 2, capturing outer x
    for depth in (1, 2):
        def branch(tag, d):
            bn, bi = [], []
            o_, _ = instance(rule, "x", f"{tag}{d}", bn, bi)
            if d > 1:
                inner_t = branch(tag + "t", d - 1)
                inner_e = branch(tag + "e", d - 1)
                bn.append(oh.make_node("If", ["c"], [f"{tag}{d}_if"], then_branch=inner_t, else_branch=inner_e))
                bn.append(oh.make_node("Add", [o_, f"{tag}{d}_if"], [f"{tag}{d}_sum"]))
                o_ = f"{tag}{d}_sum"
            return oh.make_graph(bn, f"{tag}{d}", [], [vi(o_)], bi)
        nodes = [oh.make_node("If", ["c"], ["y"], then_branch=branch("t", depth), else_branch=branch("e", depth))]
        finish(f"instances inside If bodies depth={depth}", nodes, [], ["y"], 2, inputs=("x", "c"))
    # inside a Loop body
    bn, bi = [oh.make_node("Identity", ["ci"], ["co"])], []
    o_, _ = instance(rule, "st", "lb", bn, bi)
    bn.append(oh.make_node("Add", [o_, "x"], ["so"]))
    body = oh.make_graph(bn, "body", [vi("it", I64, []), vi("ci", B, []), vi("st")], [vi("co", B, []), vi("so")], bi)
    trip = nh.from_array(np.array(2, dtype=np.int64), "trip")
    cond = nh.from_array(np.array(True), "cond")
    finish("instance inside a Loop body (captures x)", [oh.make_node("Loop", ["trip", "cond", "x"], ["y"], body=body)], [trip, cond], ["y"], 1)
    # inside a model-local function
    fnodes, finits = [], []
    if rule not in ("mul_one", "add_const_reassoc", "swap_add", "sub_to_add_neg", "sub_to_add_cached_neg", "mul_add_as_function"):  # function bodies cannot own initializers / outer aux
        o_, _ = instance(rule, "p", "f0", fnodes, finits)
        fnodes.append(oh.make_node("Identity", [o_], ["q"]))
        fn = oh.make_function("local", "Fn", ["p"], ["q"], fnodes, [oh.make_opsetid("", 18)])
        finish("instance inside a model-local function", [oh.make_node("Fn", ["x"], ["y"], domain="local")], [], ["y"], 1, functions=[fn], extra=[("local", 1)])
        # ... and inside an If branch of the function body (what the application needs - opset imports, new functions - must
        # reach the function that encloses the branch)
        fbn, fbi = [], []
        ob_, _ = instance(rule, "p", "fb", fbn, fbi)
        tb_ = oh.make_graph(fbn, "fthen", [], [vi(ob_)], fbi)
        eb_ = oh.make_graph([oh.make_node("Abs", ["p"], ["fe"])], "felse", [], [vi("fe")])
        fn_if = oh.make_function("local", "FnIf", ["p", "fc"], ["q"],
                                 [oh.make_node("If", ["fc"], ["fy"], then_branch=tb_, else_branch=eb_), oh.make_node("Identity", ["fy"], ["q"])],
                                 [oh.make_opsetid("", 18)])
        finish("instance inside an If branch of a model-local function", [oh.make_node("FnIf", ["x", "c"], ["y"], domain="local")], [], ["y"], 1,
               inputs=("x", "c"), functions=[fn_if], extra=[("local", 1)])
        # the same pattern in two model-local functions, and in the main graph plus a function (what one application adds to the model,
        # e.g. an opset import, must reach every function that needs it)
        f2nodes, f2inits = [], []
        o2, _ = instance(rule, "p", "f1", f2nodes, f2inits)
        f2nodes.append(oh.make_node("Abs", [o2], ["q"]))
        fn2 = oh.make_function("local", "Fn2", ["p"], ["q"], f2nodes, [oh.make_opsetid("", 18)])
        finish("instances inside two model-local functions",
               [oh.make_node("Fn", ["x"], ["y1"], domain="local"), oh.make_node("Fn2", ["y1"], ["y"], domain="local")], [], ["y"], 2,
               functions=[fn, fn2], extra=[("local", 1)])
        mnodes, minits = [], []
        om, _ = instance(rule, "x", "m0", mnodes, minits)
        mnodes.append(oh.make_node("Fn", [om], ["y"], domain="local"))
        finish("instance in the main graph and in a model-local function", mnodes, minits, ["y"], 2, functions=[fn], extra=[("local", 1)])
    # random hosts: instances of the pattern scattered through a random DAG (any value may feed an instance, an ordinary node, both,
    # or be a graph output; instances may feed each other).  No minimum application count is claimed for them.
    import random as _random
    for ri in range(N_RANDOM.get(tier, 0)):
        r_ = _random.Random(f"{rule}:{common.seed()}:{ri}")
        nodes, inits, pool = [], [], ["x"]
        n_inst = 0
        for j in range(r_.randint(3, 8)):
            src = r_.choice(pool)
            c_ = r_.random()
            if c_ < 0.45:
                o_, mids_ = instance(rule, src, f"r{ri}_{j}", nodes, inits)
                n_inst += 1
                pool.append(o_)
                if mids_ and r_.random() < 0.25:
                    nodes.append(oh.make_node("Abs", [mids_[0]], [f"r{ri}_{j}_x"]))   # an intermediate with a consumer outside the match
                    pool.append(f"r{ri}_{j}_x")
            elif c_ < 0.7:
                nodes.append(oh.make_node(r_.choice(["Abs", "Neg", "Relu", "Identity"]), [src], [f"r{ri}_{j}_u"]))
                pool.append(f"r{ri}_{j}_u")
            else:
                nodes.append(oh.make_node(r_.choice(["Add", "Mul", "Sub"]), [src, r_.choice(pool)], [f"r{ri}_{j}_b"]))
                pool.append(f"r{ri}_{j}_b")
        # every value nobody consumes is a graph output (no dead nodes: the clean-up pass would remove them on one side only)
        consumed_ = {i for nd in nodes for i in nd.input}
        outs_ = [o for nd in nodes for o in nd.output if o not in consumed_]
        extra_out = r_.choice(pool)
        if extra_out != "x" and extra_out not in outs_ and r_.random() < 0.5:
            outs_.append(extra_out)
        if outs_:
            finish(f"random host {ri} ({n_inst} instances, {len(nodes)} nodes)", nodes, inits, outs_, 0)
    # one host value bound to two (three) pattern variables: the extracted function and its call must agree on the inputs
    if rule == "mul_add_as_function":
        for tag_, (a_, b_, c_) in (("x, x, y", ("x", "x", "aux")), ("x, y, x", ("x", "aux", "x")), ("x, x, x", ("x", "x", "x")),
                                  ("t, t, x with t = Relu(x)", ("t", "t", "x"))):
            nodes, inits = [], []
            if "t" in (a_, b_, c_):
                nodes.append(oh.make_node("Relu", ["x"], ["t"]))
            nodes.append(oh.make_node("Add", [a_, b_], ["sv_a"]))
            nodes.append(oh.make_node("Mul", ["sv_a", c_], ["sv_m"]))
            nodes.append(oh.make_node("Abs", ["sv_m"], ["z"]))
            finish(f"one value bound to several pattern inputs ({tag_})", nodes, inits, ["z"], 1)
    # initializer name clash (replacement creates an initializer named 'three')
    if rule == "add_const_reassoc":
        nodes, inits = [], [nh.from_array(np.array(7.0, dtype=np.float32), "three")]
        o, _ = instance(rule, "x", "c0", nodes, inits)
        nodes.append(oh.make_node("Add", [o, "three"], ["z"]))
        finish("host already has an initializer named like the replacement's", nodes, inits, ["z"], 1)
        # ... that no node consumes: it is a graph output only / an overridable graph input only
        nodes, inits = [], [nh.from_array(np.array([[7.0, 8.0], [9.0, 1.5]], dtype=np.float32), "three")]
        o, _ = instance(rule, "x", "c1", nodes, inits)
        finish("host initializer named like the replacement's is only a graph output", nodes, inits, [o, "three"], 1)
        nodes, inits = [], [nh.from_array(np.array([[7.0, 8.0], [9.0, 1.5]], dtype=np.float32), "three")]
        o, _ = instance(rule, "x", "c2", nodes, inits)
        nodes.append(oh.make_node("Abs", [o], ["z"]))
        finish("host initializer named like the replacement's is only an unused overridable graph input", nodes, inits, ["z"], 1, inputs=("x", "three"))
    return out


def _worker(payload):
    rule_name, tag, mb, spec, expect = payload
    from vp.symonnx import equiv as Q
    from onnxscript.rewriter import _rewrite_rule as RR
    import onnx_ir.passes.common as common_passes
    mp = onnx.load_from_string(mb)
    stats = Q.Stats()
    out = {"model": tag, "features": [rule_name], "ops": sorted({n.op_type for n in mp.graph.node}), "records": [], "error": None}
    counter = [0]

    def tf(m_):
        m = ir.from_proto(m_)
        # "<rule>_commuted": the same rule applied through a rule set built with commute=True (options must survive the commutation)
        counter[0] = RR.RewriteRuleSet([make_rule(rule_name)], commute=rule_name.endswith("_commuted")).apply_to_model(m)
        return ir.to_proto(m)
    try:
        rec = OC.check_model_pair(mp, spec, rule_name, tf, stats, want_sides=True)
        rec["fired"] = counter[0]
        rec["expected_min"] = expect
        if rec["verdict"] not in ("exception",):
            new_ops = None
            try:
                import base64
                # multiset of unmatched node types is preserved: ops outside the rule's vocabulary
                vocab = {"Relu", "Add", "Transpose", "Neg", "Mul", "Sub", "Identity", "Constant", "Fn", "Max", "Min", "CastLike", "Cast", "AddMul", "NegNeg"}
                def cnt(m):
                    c = {}
                    def walk(g):
                        for n in g.node:
                            if n.op_type not in vocab and n.domain == "":
                                c[n.op_type] = c.get(n.op_type, 0) + 1
                            for a in n.attribute:
                                if a.type == onnx.AttributeProto.GRAPH:
                                    walk(a.g)
                    walk(m.graph)
                    for f in m.functions:
                        for n in f.node:
                            if n.op_type not in vocab and n.domain == "":
                                c[n.op_type] = c.get(n.op_type, 0) + 1
                    return c
                new = tf(copy.deepcopy(mp))
                if cnt(mp) != cnt(new):
                    rec["side"]["unmatched_nodes_changed"] = f"{cnt(mp)} -> {cnt(new)}"
            except Exception:  # noqa: BLE001
                pass
            if counter[0] < expect:
                rec["side"]["too_few_applications"] = f"{counter[0]} < {expect}"
        out["records"].append(rec)
    except Exception as e:  # noqa: BLE001
        import traceback
        out["error"] = f"{type(e).__name__}: {e} {traceback.format_exc()[-1200:]}"
    out["solver"] = stats.as_dict()
    return out


def _commuted_payloads():
    """hosts for an as_function rule applied with commute=True: Mul(Add(x, y), z) instances in the written and in the swapped operand
    orders (main graph, and inside an If branch)"""
    F_ = onnx.TensorProto.FLOAT
    out = []
    vi = lambda n: oh.make_tensor_value_info(n, F_, [2])  # noqa: E731
    for tag, orders in (("written order", [(False, False)]), ("Add swapped", [(True, False)]), ("Mul swapped", [(False, True)]),
                        ("two instances, one swapped", [(False, False), (True, True)])):
        nodes, prev = [], "x"
        for i, (sa, sm) in enumerate(orders):
            nodes.append(oh.make_node("Add", ["y", prev] if sa else [prev, "y"], [f"a{i}"]))
            nodes.append(oh.make_node("Mul", ["z", f"a{i}"] if sm else [f"a{i}", "z"], [f"m{i}"]))
            prev = f"m{i}"
        nodes.append(oh.make_node("Neg", [prev], ["o"]))
        g_ = oh.make_graph(nodes, "g", [vi("x"), vi("y"), vi("z")], [vi("o")])
        m_ = oh.make_model(g_, opset_imports=[oh.make_opsetid("", 18)], ir_version=9)
        out.append(("mul_add_as_function_commuted", f"mul_add_as_function_commuted: {tag}", m_.SerializeToString(),
                    [("x", int(F_), (2,)), ("y", int(F_), (2,)), ("z", int(F_), (2,))], len(orders)))
    return out


def main(tier: str, only=None) -> int:
    run = common.Run("C07", tier, "translation_validation")
    payloads = []
    for rn in RULES:
        if only and only not in rn:
            continue
        for tag, m, spec, expect in hosts(rn, tier):
            payloads.append((rn, tag, m.SerializeToString(), spec, expect))
    if not only or only in "mul_add_as_function_commuted":
        payloads += _commuted_payloads()
    with cf.ProcessPoolExecutor(max_workers=common.jobs()) as ex:
        results = list(ex.map(_worker, payloads, chunksize=4))
    # extra side verdicts -> problems understood by aggregate()
    for r in results:
        for rec in r["records"]:
            s = rec.get("side", {})
            extra = [f"{k}: {s[k]}" for k in ("unmatched_nodes_changed", "too_few_applications") if s.get(k)]
            if extra and not s.get("malformed"):
                s["malformed"] = extra
    counts, solver, samples, n_pairs, n_changed, uf, side = C3.aggregate(run, results, "C07", want_value=True, want_sides=True)
    fired = sum(rec.get("fired", 0) for r in results for rec in r["records"])
    run.coverage.update({
        "programs": len(results), "disagreements_checked": counts.get("cex", 0), "samples": samples,
        "evaluations": n_pairs, "distinct_nontrivial": sum(1 for r in results for rec in r["records"] if rec.get("fired")),
        "verdicts": counts, "queries": solver, "rules": RULES, "applications_total": fired, "side_verdicts": side,
    })
    if not only or only.startswith("c07.x"):
        from vp import xh
        xh.run_side_obligations(run, ["vp.harness.c07_alloc"], tier, only, "allocator_lemmas",
                                "CrossHair (z3): one step of the as_function overload allocator from an arbitrary set of existing functions")
    run.assumptions += ["rule equivalence p == r is itself decided on the k=1 host (not assumed)",
                        "hosts enumerated (k<=3 instances, If depth<=2, Loop, local function, name clash); values decided by z3",
                        "metadata merging is not checked"]
    return run.finish()
