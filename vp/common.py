"""Shared plumbing: exit codes, evidence files, known findings, replay files."""
from __future__ import annotations

import hashlib
import json
import os
import subprocess
import sys
import time
from pathlib import Path

ROOT = Path(__file__).resolve().parent.parent
REPO = Path(os.environ.get("VP_REPO", "/repo"))
# VP_SCRATCH redirects evidence and work files (used only when a seeded change is tried against a scratch worktree via VP_REPO,
# so that the committed evidence of /repo itself is not overwritten)
_SCRATCH = os.environ.get("VP_SCRATCH")
EVIDENCE = (Path(_SCRATCH) if _SCRATCH else ROOT) / "evidence"
REPLAYS = EVIDENCE / "replays"
WORK = (Path(_SCRATCH) if _SCRATCH else ROOT) / ".work"
FINDINGS_FILE = Path(os.environ.get("VP_FINDINGS", str(ROOT / "known_findings.json")))

EXIT_OK = 0
EXIT_VIOLATION = 1
EXIT_HARNESS = 3  # self-test failure, vacuity twin failure, non-reproducing counterexample


def seed() -> int:
    try:
        return int(os.environ.get("VERIF_SEED", "0"))
    except ValueError:
        return 0


def jobs() -> int:
    try:
        return max(1, int(os.environ.get("VP_JOBS", str(os.cpu_count() or 4))))
    except ValueError:
        return 4


def repo_head() -> str:
    try:
        return subprocess.run(
            ["git", "-C", str(REPO), "rev-parse", "--short", "HEAD"],
            capture_output=True, text=True, timeout=20,
        ).stdout.strip()
    except Exception:
        return "?"


def src_ref(obj) -> str:
    """file:first-last of a live function/class in /repo (regenerated each run)."""
    import inspect

    try:
        obj = inspect.unwrap(obj)
        lines, start = inspect.getsourcelines(obj)
        f = inspect.getsourcefile(obj) or "?"
        try:
            f = str(Path(f).resolve().relative_to(REPO))
        except ValueError:
            pass
        return f"{f}:{start}-{start + len(lines) - 1}:{getattr(obj, '__qualname__', getattr(obj, '__name__', '?'))}"
    except Exception as e:  # pragma: no cover
        return f"?:{getattr(obj, '__name__', obj)!r} ({e})"


# ----------------------------------------------------------------------------- findings
def load_findings() -> list[dict]:
    if not FINDINGS_FILE.exists():
        return []
    return json.loads(FINDINGS_FILE.read_text())


def known_for(pid: str, harness: str | None = None) -> list[dict]:
    import fnmatch

    out = []
    for f in load_findings():
        if f.get("status") != "known":
            continue
        if pid not in (f.get("property"), *f.get("also", [])):
            continue
        if harness is not None and not fnmatch.fnmatch(harness, f.get("harness", "*")):
            continue
        out.append(f)
    return out


def live_known_keys() -> set:
    """keys of known findings whose stored witness reproduced in this run (set by the drivers for
    their workers); harnesses exclude exactly those regions."""
    return set(k for k in os.environ.get("VP_KNOWN_LIVE", "").split(",") if k)


# ----------------------------------------------------------------------------- replay files
def write_replay(pid: str, payload: dict) -> Path:
    REPLAYS.mkdir(parents=True, exist_ok=True)
    payload = dict(payload)
    payload.setdefault("property", pid)
    blob = json.dumps(payload, sort_keys=True, default=str)
    h = hashlib.sha256(blob.encode()).hexdigest()[:8]
    p = REPLAYS / f"{pid}-{h}.json"
    p.write_text(json.dumps(payload, indent=1, sort_keys=True, default=str))
    return p


# ----------------------------------------------------------------------------- evidence
class Run:
    """One run of one property's check: collects verdicts, writes evidence, decides exit."""

    def __init__(self, pid: str, tier: str, level: str):
        self.pid, self.tier, self.level = pid, tier, level
        self.t0 = time.time()
        self.coverage: dict = {}
        self.assumptions: list[str] = []
        self.violations: list[str] = []  # replay paths
        self.known_printed: list[str] = []
        self.harness_errors: list[str] = []
        self.inconclusive: list[str] = []
        if REPLAYS.exists():
            for old in REPLAYS.glob(f"{pid}-*.json"):
                old.unlink()

    def violation(self, replay_path, text: str = ""):
        print(f"VIOLATION property={self.pid} replay={replay_path}" + (f"  # {text}" if text else ""), flush=True)
        self.violations.append(str(replay_path))

    def known(self, text: str):
        line = f"KNOWN-FINDING: property={self.pid} {text}"
        if line not in self.known_printed:
            print(line, flush=True)
            self.known_printed.append(line)

    def harness_error(self, text: str):
        print(f"HARNESS-ERROR property={self.pid} {text}", flush=True)
        self.harness_errors.append(text)

    def note_inconclusive(self, text: str):
        print(f"INCONCLUSIVE property={self.pid} {text}", flush=True)
        self.inconclusive.append(text)

    def finish(self) -> int:
        ev = {
            "property_id": self.pid,
            "tier": self.tier,
            "seed": seed(),
            "level": self.level,
            "coverage": self.coverage,
            "assumptions": self.assumptions,
            "wall_s": round(time.time() - self.t0, 2),
            "violations": len(self.violations),
        }
        ev["coverage"].setdefault("repo_head", repo_head())
        ev["coverage"]["known_findings_confirmed"] = self.known_printed
        ev["coverage"]["inconclusive_items"] = self.inconclusive[:50]
        ev["coverage"]["harness_errors"] = self.harness_errors[:50]
        EVIDENCE.mkdir(parents=True, exist_ok=True)
        try:
            import jsonschema

            schema = json.loads(Path("/root/.vp/EVIDENCE.schema.json").read_text())
            jsonschema.validate(ev, schema)
        except FileNotFoundError:
            pass
        except Exception as e:
            print(f"HARNESS-ERROR property={self.pid} evidence does not validate: {e}", flush=True)
            self.harness_errors.append("evidence schema")
        (EVIDENCE / f"{self.pid}.json").write_text(json.dumps(ev, indent=1, default=str))
        if self.tier == "thorough" and not os.environ.get("VP_ONLY"):
            # the last complete thorough run is kept beside the per-run file (which the next quick run overwrites)
            (EVIDENCE / "thorough").mkdir(exist_ok=True)
            (EVIDENCE / "thorough" / f"{self.pid}.json").write_text(json.dumps(ev, indent=1, default=str))
        if self.violations:
            return EXIT_VIOLATION
        if self.harness_errors:
            return EXIT_HARNESS
        print(
            f"OK property={self.pid} tier={self.tier} wall={ev['wall_s']}s "
            f"inconclusive={len(self.inconclusive)} known={len(self.known_printed)}",
            flush=True,
        )
        return EXIT_OK


def eprint(*a):
    print(*a, file=sys.stderr, flush=True)
