"""python -m vp <ID> <quick|thorough> [--only <substr>] | --replay <file> | selftest"""
import importlib
import json
import os
import sys

from . import common


def main(argv):
    if not argv:
        print(__doc__)
        return 2
    if argv[0] == "--replay":
        from . import replay
        return replay.main(argv[1])
    if argv[0] == "selftest":
        from .symonnx import selftest
        return selftest.main(argv[1:])
    pid = argv[0].upper()
    tier = argv[1] if len(argv) > 1 and not argv[1].startswith("-") else os.environ.get("VERIF_TIER", "quick")
    only = None
    if "--only" in argv:
        only = argv[argv.index("--only") + 1]
        os.environ["VP_ONLY"] = only
    try:
        mod = importlib.import_module(f"vp.props.{pid.lower()}")
    except ModuleNotFoundError as e:
        print(f"no check for {pid}: {e}")
        return 2
    try:
        return mod.main(tier, only)
    except Exception:  # noqa: BLE001
        import traceback
        traceback.print_exc()
        print(f"HARNESS-ERROR property={pid} uncaught exception in check driver")
        return common.EXIT_HARNESS


if __name__ == "__main__":
    sys.exit(main(sys.argv[1:]))
