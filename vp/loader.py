"""Source loader with cuts.

Repo modules that are executed under CrossHair are re-executed from their *current* source
through an AST transformer (nothing is written back to /repo):

* format cut: f-strings / %-formatting / str.format that are arguments of message sinks
  (fail, logger calls, print, warn) or of the exception constructor in a ``raise`` become the
  constant "<msg>".  Messages never decide a property; without the cut every path realises the
  symbolic values it prints and CrossHair enumerates integers for ever.
* order cut: the iterable of every ``for`` / comprehension and the argument of
  list/tuple/sorted-less consumers is wrapped in ``__vp_iter__`` which permutes sets according
  to a schedule (C14).

Set VP_NOCUT=1 (done by replay) to load nothing and run the unpatched modules.
"""
from __future__ import annotations

import ast
import importlib
import os

MSG_FUNCS = {
    "fail", "_fail", "warning", "info", "debug", "error", "print", "msg", "warn", "exception",
    "critical", "log",
}


class FormatCut(ast.NodeTransformer):
    def __init__(self):
        self.cuts = 0

    def _is_fmt(self, a):
        if isinstance(a, ast.JoinedStr):
            return True
        if isinstance(a, ast.BinOp) and isinstance(a.op, ast.Mod) and isinstance(a.left, (ast.Constant, ast.JoinedStr)):
            return True
        if (
            isinstance(a, ast.Call)
            and isinstance(a.func, ast.Attribute)
            and a.func.attr == "format"
            and isinstance(a.func.value, ast.Constant)
        ):
            return True
        return False

    def _cut_args(self, call):
        new = []
        for a in call.args:
            if self._is_fmt(a):
                self.cuts += 1
                new.append(ast.Constant("<msg>"))
            else:
                new.append(a)
        call.args = new
        return call

    def visit_Call(self, node):
        self.generic_visit(node)
        f = node.func
        name = f.attr if isinstance(f, ast.Attribute) else (f.id if isinstance(f, ast.Name) else None)
        if name in MSG_FUNCS:
            if name in {"warning", "info", "debug", "error", "exception", "critical", "log"}:
                # logger.debug("fmt %s", x) realises x when logging is enabled; drop lazy args too
                if node.args and not isinstance(node.args[0], ast.Constant):
                    self._cut_args(node)
                elif len(node.args) > 1:
                    self.cuts += 1
                    node.args = [ast.Constant("<msg>")]
                return node
            return self._cut_args(node)
        return node

    def visit_Raise(self, node):
        self.generic_visit(node)
        if isinstance(node.exc, ast.Call):
            self._cut_args(node.exc)
        return node


ORDER_CONSUMERS = {"list", "tuple", "enumerate", "zip", "iter", "next", "map", "filter", "reversed"}
ORDER_METHODS = {"join", "extend", "update"}


class OrderCut(ast.NodeTransformer):
    """wrap iteration sources in __vp_iter__(x, site_id)"""

    def __init__(self):
        self.sites: list[tuple[int, str]] = []

    def _wrap(self, it: ast.expr) -> ast.expr:
        if isinstance(it, ast.Call) and isinstance(it.func, ast.Name) and it.func.id in ("__vp_iter__", "range", "sorted"):
            return it
        sid = len(self.sites)
        self.sites.append((getattr(it, "lineno", 0), ast.unparse(it)[:60]))
        return ast.Call(ast.Name("__vp_iter__", ast.Load()), [it, ast.Constant(sid)], [])

    def visit_For(self, node):
        self.generic_visit(node)
        node.iter = self._wrap(node.iter)
        return node

    def visit_comprehension(self, node):
        self.generic_visit(node)
        node.iter = self._wrap(node.iter)
        return node

    def visit_Call(self, node):
        self.generic_visit(node)
        f = node.func
        if isinstance(f, ast.Name) and f.id in ORDER_CONSUMERS:
            node.args = [self._wrap(a) if not isinstance(a, ast.Starred) else a for a in node.args]
        elif isinstance(f, ast.Attribute) and f.attr in ORDER_METHODS and len(node.args) == 1:
            node.args = [self._wrap(node.args[0])]
        return node

    def visit_Starred(self, node):
        self.generic_visit(node)
        node.value = self._wrap(node.value)
        return node


_LOADED: dict[tuple[str, str], object] = {}


def nocut() -> bool:
    return os.environ.get("VP_NOCUT") == "1"


def load_cut(modname: str, fmt: bool = True, order_iter=None):
    """Re-execute `modname` from its current source with the requested cuts applied in memory.

    Returns (module, info).  Idempotent per (module, kind).  With VP_NOCUT=1 returns the
    untouched module.
    """
    mod = importlib.import_module(modname)
    kind = ("f" if fmt else "") + ("o" if order_iter is not None else "")
    info = {"module": modname, "file": mod.__file__, "format_cuts": 0, "order_sites": []}
    if nocut() and order_iter is None:
        return mod, info
    key = (modname, kind)
    if key in _LOADED:
        return mod, _LOADED[key]
    src = open(mod.__file__).read()
    tree = ast.parse(src)
    if fmt and not nocut():
        fc = FormatCut()
        tree = fc.visit(tree)
        info["format_cuts"] = fc.cuts
    if order_iter is not None:
        oc = OrderCut()
        tree = oc.visit(tree)
        info["order_sites"] = oc.sites
        mod.__dict__["__vp_iter__"] = order_iter
    ast.fix_missing_locations(tree)
    exec(compile(tree, mod.__file__, "exec"), mod.__dict__)
    _LOADED[key] = info
    return mod, info
