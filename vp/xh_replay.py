"""Fresh-process concrete replay of a harness function (unpatched repo modules: VP_NOCUT=1)."""
import importlib
import json
import sys


def main():
    modname, call, args = sys.argv[1], sys.argv[2], json.loads(sys.argv[3])
    out = {}
    try:
        mod = importlib.import_module(modname)
        r = eval(call, {"H": mod}, dict(args))
        out["returned"] = bool(r)
        extra = getattr(mod, "LAST_OBSERVED", None)
        if extra:
            out["observed"] = extra
    except Exception as e:  # noqa: BLE001
        import traceback
        out["returned"] = None
        out["error"] = f"{type(e).__name__}: {e}"
        out["tb"] = traceback.format_exc()[-2000:]
    sys.stdout.write("\n@@VPJSON@@" + json.dumps(out, default=str) + "\n")


if __name__ == "__main__":
    main()
