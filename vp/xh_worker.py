"""Subprocess worker: run CrossHair on one function of one file and print a JSON verdict.

usage: python -m vp.xh_worker <file.py> <function> <per_condition_timeout_s> [<per_path_timeout_s>]

Mirrors `crosshair check --report_all` (same analyze_function / run_checkables calls) but
returns the message state, the number of paths explored and the exhaustion flag as data.
"""
from __future__ import annotations

import collections
import json
import sys
import time


def main() -> int:
    file, func, tmo = sys.argv[1], sys.argv[2], float(sys.argv[3])
    per_path = float(sys.argv[4]) if len(sys.argv) > 4 and sys.argv[4] else None
    t0 = time.time()
    out = {"file": file, "func": func, "timeout": tmo}
    try:
        from crosshair.core_and_libs import analyze_function, run_checkables
        from crosshair.fnutil import FunctionInfo
        from crosshair.options import AnalysisKind, AnalysisOptionSet
        from crosshair.util import load_file

        mod = load_file(file)
        fi = FunctionInfo.from_module(mod, func)
        stats: collections.Counter = collections.Counter()
        kw = dict(
            per_condition_timeout=tmo,
            report_all=True,
            analysis_kind=[AnalysisKind.PEP316],
            stats=stats,
        )
        if per_path is not None:
            kw["per_path_timeout"] = per_path
        opts = AnalysisOptionSet(**kw)
        checkables = list(analyze_function(fi, opts))
        if not checkables:
            out.update(status="error", detail="no checkable conditions")
        else:
            msgs = run_checkables(checkables)
            out["messages"] = [
                {"state": m.state.name, "message": m.message, "line": m.line} for m in msgs
            ]
            states = {m.state.name for m in msgs}
            if states & {"POST_FAIL", "EXEC_ERR", "POST_ERR"}:
                out["status"] = "refuted"
            elif states & {"SYNTAX_ERR", "IMPORT_ERR"}:
                out["status"] = "error"
            elif "PRE_UNSAT" in states:
                out["status"] = "pre_unsat"
            elif "CANNOT_CONFIRM" in states:
                out["status"] = "unknown"
            elif states == {"CONFIRMED"}:
                out["status"] = "confirmed"
            else:
                out["status"] = "unknown"
        out["paths"] = int(stats.get("num_paths", 0))
        out["stats"] = {k: int(v) for k, v in stats.items()}
    except BaseException as e:  # noqa: BLE001 - worker must always print a verdict
        import traceback

        out.update(status="error", detail=f"{type(e).__name__}: {e}", tb=traceback.format_exc()[-3000:])
    out["wall_s"] = round(time.time() - t0, 2)
    sys.stdout.write("\n@@VPJSON@@" + json.dumps(out) + "\n")
    sys.stdout.flush()
    return 0


if __name__ == "__main__":
    sys.exit(main())
