"""Eager-mode execution of script functions over symbolic tensors.

The real OnnxFunction.__call__ / eval_function / tag_arguments_with_signature /
dynamic_cast_inputs / Tensor operator overloads / Tensor.__getitem__ run unchanged; only the
evaluator's `_eval` (the place where the real one calls onnxruntime) produces symbolic tensors via
symonnx's operator rules.  `Tensor.__bool__` / `__index__` / `__int__` on a symbolic scalar ask z3
which outcomes are feasible under the current path condition; the function is re-executed once per
feasible decision sequence (depth-bounded).
"""
from __future__ import annotations

import time

import numpy as np
import onnx_ir as ir
import z3

from onnxscript import tensor as ost
from onnxscript._internal import evaluator as ev

from . import interp as I
from . import ops as O
from .values import DT, SV, Bottom, NotEncoded, Seq, Z, const, is_sym, kind


class Unwind(Exception):
    """decision depth exceeded: the path is outside the unrolling bound"""


class SymArr(np.ndarray):
    """object ndarray that remembers its logical ONNX dtype through NumPy data movement"""

    def __new__(cls, arr, onnx_dt):
        obj = np.asarray(arr, dtype=object).view(cls)
        obj.onnx_dt = onnx_dt
        return obj

    def __array_finalize__(self, obj):
        if obj is not None:
            self.onnx_dt = getattr(obj, "onnx_dt", None)


class PathState:
    def __init__(self, prefix, work, max_depth):
        self.prefix = list(prefix)
        self.pos = 0
        self.pc: list = []
        self.work = work
        self.max_depth = max_depth
        self.assumptions: list = []
        self.uf: set = set()
        self.int_bound = 3


PS: PathState | None = None
SOLVER_S = [0.0]
BASE_CONSTRAINTS: list = []


def _feasible(cs) -> bool:
    s = z3.Solver()
    s.set("timeout", 10000)
    s.add(*BASE_CONSTRAINTS)
    s.add(*cs)
    t = time.time()
    r = s.check()
    SOLVER_S[0] += time.time() - t
    if r == z3.unknown:
        raise NotEncoded("path feasibility unknown")
    return r == z3.sat


def decide(cond) -> bool:
    """fork on a symbolic boolean"""
    if not is_sym(cond):
        return bool(cond)
    ps = PS
    if ps.pos < len(ps.prefix):
        d = ps.prefix[ps.pos]
    else:
        if ps.pos >= ps.max_depth:
            raise Unwind()
        can_t = _feasible(ps.pc + [cond])
        can_f = _feasible(ps.pc + [z3.Not(cond)])
        if not can_t and not can_f:
            raise NotEncoded("infeasible path reached")
        d = can_t
        if can_t and can_f:
            ps.work.append(ps.prefix[: ps.pos] + [False])
        ps.prefix.append(d)
    ps.pos += 1
    ps.pc.append(cond if d else z3.Not(cond))
    return d


class SymTensor(ost.Tensor):
    def __init__(self, sv: SV, opset=None):
        super().__init__(SymArr(sv.arr, sv.dtype), opset)
        self.sv = sv

    @property
    def dtype(self):
        return self.sv.dtype.numpy()

    def _scalar(self):
        if self.sv.arr.size != 1:
            raise ValueError("The truth value of an array with more than one element is ambiguous")
        return self.sv.arr.reshape(())[()]

    def __bool__(self):
        v = self._scalar()
        k = self.sv.kind
        if k != "b":
            v = (v != 0) if is_sym(v) else (v != 0)
        return decide(v)

    def _int(self):
        v = self._scalar()
        k = self.sv.kind
        if not is_sym(v):
            return int(v)
        if k == "b":
            return 1 if decide(v) else 0
        if k == "f":
            raise NotEncoded("int() of a symbolic float")
        # enumerate small non-negative values, then small negative ones (range(n): n<=0 behave alike)
        if decide(v <= 0):
            for j in range(0, -3, -1):
                if decide(v == j):
                    return j
            raise Unwind()
        for j in range(1, PS.int_bound + 1):
            if decide(v == j):
                return j
        raise Unwind()

    def __index__(self):
        return self._int()

    def __int__(self):
        return self._int()

    def __float__(self):
        v = self._scalar()
        if is_sym(v):
            raise NotEncoded("float() of a symbolic tensor")
        return float(v)


def to_sv(x):
    if x is None:
        return None
    if isinstance(x, SymTensor):
        return x.sv
    if isinstance(x, ost.Tensor):
        v = x.value
        if isinstance(v, SymArr) and v.onnx_dt is not None:
            return SV(np.asarray(v, dtype=object), v.onnx_dt)
        if v.dtype == object:
            raise NotEncoded("object array without logical dtype")
        return const(v)
    if isinstance(x, np.ndarray):
        return const(x)
    if isinstance(x, (list, tuple)):
        return Seq([to_sv(t) for t in x])
    if isinstance(x, (bool, int, float)):
        raise TypeError(f"unpromoted python value {x!r} reached the evaluator")
    raise TypeError(type(x))


class _FakeNode:
    def __init__(self, op_type, n_out, domain=""):
        self.op_type, self.domain, self.outputs = op_type, domain, [None] * n_out


try:
    from onnxscript import tensor as _tensor_mod
    _GETITEM_CODE = _tensor_mod.Tensor.__getitem__.__code__
except Exception:  # noqa: BLE001
    _GETITEM_CODE = None


class SymEvaluator(ev.BaseEvaluator):
    """BaseEvaluator whose _eval applies symonnx's rules instead of running onnxruntime"""

    def __init__(self):
        super().__init__()
        self.calls = 0
        self.ops: list = []

    def _eval(self, schema, inputs, attributes, closure):
        self.calls += 1
        # operators executed by Tensor.__getitem__'s own index arithmetic (s + 1, s == -1, ...) implement the subscript; they are not
        # "operators or op calls of the source" and are left out of the operator-correspondence side verdict (values are still compared)
        in_getitem = False
        if schema.name not in ("Slice", "Gather", "Squeeze"):
            import sys as _sys
            fr = _sys._getframe(1)
            code = _GETITEM_CODE
            depth = 0
            while fr is not None and depth < 12:
                if fr.f_code is code:
                    in_getitem = True
                    break
                fr = fr.f_back
                depth += 1
        if not in_getitem:
            self.ops.append(schema.name)
        if schema.domain not in ("", "ai.onnx"):
            raise NotEncoded(f"op {schema.domain}::{schema.name}")
        ins = [to_sv(x) for x in inputs]
        while ins and ins[-1] is None:
            ins.pop()
        attrs = {}
        for k, v in attributes.items():
            if v is None:
                continue
            if k not in schema.attributes:
                raise Bottom(f"{schema.name}: unknown attribute {k}")
            at = ir.AttributeType(int(schema.attributes[k].type))
            if at == ir.AttributeType.GRAPH:
                raise NotEncoded("graph attribute in eager mode")
            a = ir.convenience.convert_attribute(k, v, at)
            if at == ir.AttributeType.TENSOR:
                attrs[k] = a.as_tensor()
            elif at in (ir.AttributeType.INTS, ir.AttributeType.FLOATS, ir.AttributeType.STRINGS):
                attrs[k] = list(a.value)
            else:
                attrs[k] = a.value
        name = schema.name
        version = schema.since_version
        n_out = max(1, len(schema.outputs))
        if name == "Split":
            # number of outputs is decided by the caller's unpacking; infer from split/num_outputs
            if "num_outputs" in attrs:
                n_out = int(attrs["num_outputs"])
            elif len(ins) > 1 and ins[1] is not None:
                n_out = ins[1].arr.size
        ctx = O.Ctx(version, False)
        ctx.n_outputs = n_out
        ctx.node_op = name
        outs = None
        if (name not in ("Constant", "ConstantOfShape", "Shape", "Size", "Identity") and ins
                and all(i is None or (isinstance(i, SV) and i.is_concrete()) for i in ins) and name not in I._NO_NUMERIC):
            it = I.Interp.__new__(I.Interp)
            outs = I.Interp._numeric(it, _FakeNode(name, n_out), ins, attrs, version)
        if outs is None:
            impl = O.OPS.get(name)
            if impl is None:
                raise NotEncoded(f"op {name}")
            outs = impl(ins, attrs, ctx)
        PS.assumptions.extend(ctx.assumptions)
        PS.uf |= ctx.uf_used
        res = []
        for o in outs:
            if isinstance(o, Seq):
                res.append([SymTensor(t) for t in o.items])
            else:
                res.append(SymTensor(o))
        return res


def eager_paths(fn, args, kwargs=None, max_depth=8, max_paths=64, base_constraints=(), int_bound=3):
    """-> (list of result dicts like interp.interpret, number of paths cut by the depth bound)"""
    global PS, BASE_CONSTRAINTS
    BASE_CONSTRAINTS = list(base_constraints)
    work = [[]]
    results, cut = [], 0
    while work:
        if len(results) + len(work) > max_paths:
            raise NotEncoded("too many eager paths")
        PS = PathState(work.pop(), work, max_depth)
        PS.int_bound = int_bound
        evaluator = SymEvaluator()
        try:
            with ev.default_as(evaluator):
                out = fn(*args, **(kwargs or {}))
        except Unwind:
            cut += 1
            results.append({"pc": list(PS.pc), "cut": True, "bottom": None, "outs": None, "assumptions": [], "unwind": [], "uf": set()})
            continue
        except Bottom as b:
            results.append({"pc": list(PS.pc), "bottom": str(b), "outs": None, "assumptions": list(PS.assumptions),
                            "unwind": [], "uf": set(PS.uf)})
            continue
        except NotEncoded:
            raise
        except Exception as e:  # noqa: BLE001 - any error raised by the real eager code is the outcome "error"
            results.append({"pc": list(PS.pc), "bottom": f"eager raised {type(e).__name__}: {e}"[:300], "outs": None,
                            "assumptions": list(PS.assumptions), "unwind": [], "uf": set(PS.uf)})
            continue
        outs = out if isinstance(out, (tuple, list)) else [out]
        results.append({"pc": list(PS.pc), "bottom": None, "outs": [to_sv(o) for o in outs],
                        "assumptions": list(PS.assumptions), "unwind": [], "uf": set(PS.uf), "eager_ops": sorted(set(evaluator.ops))})
    return results, cut
