"""Replay of engine-S counterexamples on the real code: onnxruntime (graph optimisations off) for
models, the real eager evaluator for script functions."""
from __future__ import annotations

import base64
import json

import numpy as np
import onnx

from vp import common


def np_inputs(inputs: dict) -> dict:
    from .values import DT
    out = {}
    for name, rec in inputs.items():
        dt = DT[rec["dtype"]].numpy()
        out[name] = np.array(rec["values"], dtype=dt).reshape(rec["shape"])
    return out


def ort_run(model_bytes: bytes, feeds: dict):
    import onnxruntime as ort
    so = ort.SessionOptions()
    so.log_severity_level = 4
    so.graph_optimization_level = ort.GraphOptimizationLevel.ORT_DISABLE_ALL
    try:
        sess = ort.InferenceSession(model_bytes, so, providers=["CPUExecutionProvider"])
        names = {i.name for i in sess.get_inputs()} | {i.name for i in sess.get_overridable_initializers()}
        return sess.run(None, {k: v for k, v in feeds.items() if k in names}), None
    except Exception as e:  # noqa: BLE001
        return None, f"{type(e).__name__}: {str(e)[:300]}"


def ref_run(model_bytes: bytes, feeds: dict):
    import onnx.reference
    try:
        m = onnx.load_from_string(model_bytes)
        ev = onnx.reference.ReferenceEvaluator(m)
        names = {i.name for i in m.graph.input}
        return ev.run(None, {k: v for k, v in feeds.items() if k in names}), None
    except Exception as e:  # noqa: BLE001
        return None, f"{type(e).__name__}: {str(e)[:300]}"


def outputs_differ(a, b, rtol=1e-5, atol=1e-12, tols=None):
    """-> None if equal (up to round-off for floats) else a description.
    tols: optional per-output arrays of allowed absolute differences (forward-error bound from magnitudes)"""
    if a is None or b is None:
        if a is None and b is None:
            return None
        return "one side raises, the other returns"
    a = list(a) if isinstance(a, (list, tuple)) else [a]
    b = list(b) if isinstance(b, (list, tuple)) else [b]
    if len(a) != len(b):
        return f"output count {len(a)} vs {len(b)}"
    for i, (x, y) in enumerate(zip(a, b)):
        if isinstance(x, list) or isinstance(y, list):
            d = outputs_differ(x, y, rtol, atol)
            if d:
                return f"output {i} (sequence): {d}"
            continue
        x, y = np.asarray(x), np.asarray(y)
        if x.dtype != y.dtype:
            return f"output {i}: dtype {x.dtype} vs {y.dtype}"
        if x.shape != y.shape:
            return f"output {i}: shape {x.shape} vs {y.shape}"
        if x.dtype.kind == "f":
            rt, at = (1e-12, 1e-13) if x.dtype == np.float64 else ((1e-2, 1e-3) if x.dtype.itemsize == 2 else (rtol, atol))
            if tols is not None and i < len(tols) and tols[i] is not None:
                if x.size and np.any(np.abs(x.astype(np.float64) - y.astype(np.float64)) > np.asarray(tols[i], dtype=np.float64)):
                    return f"output {i}: values {x.tolist()} vs {y.tolist()} (beyond forward-error bound {np.asarray(tols[i]).tolist()})"
            elif not np.allclose(x, y, rtol=rt, atol=at, equal_nan=True):
                return f"output {i}: values {x.tolist()} vs {y.tolist()}"
        elif not np.array_equal(x, y):
            return f"output {i}: values {x.tolist()} vs {y.tolist()}"
    return None


def to_list(outs):
    if outs is None:
        return None
    r = []
    for o in outs:
        if isinstance(o, list):
            r.append([np.asarray(t).tolist() for t in o])
        else:
            r.append(np.asarray(o).tolist())
    return r


def forward_error_tols(model_a: bytes, model_b: bytes, feeds: dict):
    """per-output allowed absolute difference 32*u*(mag_a + mag_b), magnitudes from a concrete symonnx run"""
    import onnx_ir as ir
    from . import interp as I
    from . import ops as O
    from .values import UNIT_ROUNDOFF, SV, const
    try:
        mags = []
        for mb in (model_a, model_b):
            m = ir.from_proto(onnx.load_from_string(mb))
            ins = {v.name: const(feeds[v.name]) for v in m.graph.inputs if v.name in feeds}
            res = I.interpret(m, ins, track_mag=True, loop_bound=8)
            if len(res) != 1 or res[0]["bottom"]:
                return None
            mags.append(res[0]["outs"])
        tols = []
        for a, b in zip(*mags):
            if not isinstance(a, SV) or a.kind != "f":
                tols.append(None)
                continue
            u = float(UNIT_ROUNDOFF.get(a.dtype, 2.0**-24))
            ma, mb_ = O._mag(a), O._mag(b)
            t = np.empty(a.shape, dtype=np.float64)
            for idx in np.ndindex(*a.shape):
                t[idx] = 32 * u * (float(ma[idx]) + float(mb_[idx]))
            tols.append(t)
        return tols
    except Exception:  # noqa: BLE001
        return None


def replay_pair(model_a: bytes, model_b: bytes, feeds: dict) -> dict:
    """two models, same feeds: do they differ on onnxruntime (cross-checked with onnx.reference)?"""
    oa, ea = ort_run(model_a, feeds)
    ob, eb = ort_run(model_b, feeds)
    tols = forward_error_tols(model_a, model_b, feeds)
    d = outputs_differ(oa, ob, tols=tols)
    ra, rea = ref_run(model_a, feeds)
    rb, reb = ref_run(model_b, feeds)
    dref = outputs_differ(ra, rb, tols=tols)
    return {"forward_error_bound_used": tols is not None, "reproduced": d is not None, "difference": d, "ort_a": to_list(oa), "ort_b": to_list(ob), "ort_err_a": ea, "ort_err_b": eb,
            "reference_agrees": (dref is not None) == (d is not None), "reference_difference": dref}


def replay_pair_random(model_a: bytes, model_b: bytes, spec, tries: int = 6, seed: int = 0):
    """The solver's model for a query that contains uninterpreted functions (exp, DFT, ...) fixes the function, not a
    usable input: replay the *structural* difference it found on a few seeded random inputs instead.
    -> (replay dict, feeds) of the first reproducing input, or (last dict, feeds)."""
    from .values import DT
    rng = np.random.default_rng(seed)
    last = None
    for _ in range(tries):
        feeds = {}
        for n, dt, sh in spec:
            npdt = DT(dt).numpy()
            if npdt.kind == "f":
                feeds[n] = (rng.integers(-8, 9, size=sh) / 4).astype(npdt)
            elif npdt.kind == "b":
                feeds[n] = rng.integers(0, 2, size=sh).astype(bool)
            else:
                feeds[n] = rng.integers(-3, 4, size=sh).astype(npdt)
        rep = replay_pair(model_a, model_b, feeds)
        last = (rep, feeds)
        if rep["reproduced"]:
            return rep, feeds
    return last


def replay_script(src: str, entry: str, order: list, feeds: dict, attrs: dict, model_bytes: bytes, tag="replay") -> dict:
    """eager (real evaluator, real NumPy) vs the model on onnxruntime"""
    from . import scripts as S
    mod = S.load_source(src, tag)
    fn = getattr(mod, entry)
    try:
        e = fn(*[feeds[n] for n in order], **attrs)
        e = list(e) if isinstance(e, (tuple, list)) else [e]
        e = [np.asarray(t) for t in e]
        eerr = None
    except Exception as ex:  # noqa: BLE001
        e, eerr = None, f"{type(ex).__name__}: {str(ex)[:300]}"
    g, gerr = ort_run(model_bytes, feeds)
    d = outputs_differ(e, g)
    return {"reproduced": d is not None, "difference": d, "eager": to_list(e), "graph_ort": to_list(g), "eager_err": eerr, "graph_err": gerr}


def main(rec: dict) -> int:
    kind = rec["rebuild"]["kind"]
    rb = rec["rebuild"]
    feeds = np_inputs(rec["inputs"]) if rec.get("inputs") else {}
    if kind == "script":
        r = replay_script(rb["source"], rb["entry"], rb["order"], feeds, rb.get("attrs", {}), base64.b64decode(rb["model_b64"]))
    elif kind == "pair":
        r = replay_pair(base64.b64decode(rb["model_a_b64"]), base64.b64decode(rb["model_b_b64"]), feeds)
    else:
        print("unknown kind", kind)
        return common.EXIT_HARNESS
    print(json.dumps(r, indent=1, default=str)[:4000])
    if r["reproduced"]:
        print(f"REPRODUCED property={rec.get('property')}")
        return 1
    print("not reproduced")
    return 0
