"""Equivalence queries between two symbolic evaluations (lists of guarded results from interp.interpret
or eager.eager_paths) and counterexample extraction."""
from __future__ import annotations

import time
from fractions import Fraction

import numpy as np
import z3

from .values import DT, SV, Seq, UNIT_ROUNDOFF, Z, e_abs, is_sym, kind

BOX_F = 64
BOX_I = 2**20
TIMEOUT_MS = 10000


class Stats:
    def __init__(self):
        self.unsat = self.sat = self.unknown = 0
        self.solver_s = 0.0
        self.queries = 0

    def as_dict(self):
        return {"unsat": self.unsat, "sat": self.sat, "unknown": self.unknown, "queries": self.queries,
                "solver_s": round(self.solver_s, 3)}


def _int_ranges():
    from .values import DT
    return {DT.UINT8: (0, 255), DT.INT8: (-128, 127), DT.UINT16: (0, 65535), DT.INT16: (-32768, 32767), DT.UINT32: (0, BOX_I), DT.UINT64: (0, BOX_I)}


_INT_RANGE = _int_ranges()


def box_constraints(inputs: dict) -> list:
    cs = []
    for sv in inputs.values():
        if not isinstance(sv, SV):
            continue
        k = sv.kind
        for v in sv.arr.flat:
            if is_sym(v):
                if k == "f":
                    cs.append(z3.And(v >= -BOX_F, v <= BOX_F))
                elif k == "i":
                    lo, hi = _INT_RANGE.get(sv.dtype, (-BOX_I, BOX_I))
                    cs.append(z3.And(v >= lo, v <= hi))
    return cs


_MULF = None


def abstract_nonlinear(term, cache):
    """replace products of two non-numeral terms by an uninterpreted commutative function: sound for
    proving equality (unsat stays unsat), may introduce spurious models (then the answer is `unknown`)"""
    global _MULF
    if _MULF is None:
        _MULF = {z3.RealSort(): z3.Function("nl_mul_r", z3.RealSort(), z3.RealSort(), z3.RealSort()),
                 z3.IntSort(): z3.Function("nl_mul_i", z3.IntSort(), z3.IntSort(), z3.IntSort())}
    k = term.get_id()
    if k in cache:
        return cache[k]
    if not z3.is_app(term) or term.num_args() == 0:
        cache[k] = term
        return term
    args = [abstract_nonlinear(a, cache) for a in term.children()]
    if z3.is_mul(term):
        nums = [a for a in args if z3.is_rational_value(a) or z3.is_int_value(a)]
        syms = [a for a in args if not (z3.is_rational_value(a) or z3.is_int_value(a))]
        if len(syms) >= 2:
            f = _MULF.get(term.sort())
            if f is not None:
                syms = sorted(syms, key=lambda a: a.get_id())
                acc = syms[0]
                for nxt in syms[1:]:
                    acc = f(acc, nxt)
                for n in nums:
                    acc = n * acc
                cache[k] = acc
                return acc
    if z3.is_div(term) and len(args) == 2 and not (z3.is_rational_value(args[1]) or z3.is_int_value(args[1])):
        f = z3.Function("nl_div_r", z3.RealSort(), z3.RealSort(), z3.RealSort())
        if term.sort() == z3.RealSort():
            r = f(args[0], args[1])
            cache[k] = r
            return r
    r = term.decl()(*args) if args else term
    cache[k] = r
    return r


def _solve(cs, stats: Stats, timeout_ms=TIMEOUT_MS):
    s = z3.Solver()
    s.set("timeout", timeout_ms)
    s.add(*cs)
    t = time.time()
    r = s.check()
    stats.solver_s += time.time() - t
    stats.queries += 1
    if r == z3.sat:
        stats.sat += 1
        return "sat", s.model()
    if r == z3.unsat:
        stats.unsat += 1
        return "unsat", None
    # nonlinear arithmetic: retry with products abstracted (unsat is still a proof of equality)
    try:
        cache: dict = {}
        s2 = z3.Solver()
        s2.set("timeout", timeout_ms)
        s2.add(*[abstract_nonlinear(c, cache) for c in cs])
        t = time.time()
        r2 = s2.check()
        stats.solver_s += time.time() - t
        stats.queries += 1
        if r2 == z3.unsat:
            stats.unsat += 1
            stats.abstracted = getattr(stats, "abstracted", 0) + 1
            return "unsat", None
    except z3.Z3Exception:
        pass
    stats.unknown += 1
    return "unknown", None


def _flatten_outs(outs):
    flat = []
    for o in outs:
        if isinstance(o, Seq):
            flat.append(("seq", len(o.items)))
            flat.extend(o.items)
        else:
            flat.append(o)
    return flat


def structural_mismatch(o1, o2):
    """shape / dtype / count differences (decided without the solver)"""
    f1, f2 = _flatten_outs(o1), _flatten_outs(o2)
    if len(f1) != len(f2):
        return f"output count {len(f1)} vs {len(f2)}"
    for i, (a, b) in enumerate(zip(f1, f2)):
        if isinstance(a, tuple) or isinstance(b, tuple):
            if a != b:
                return f"output {i}: sequence length {a} vs {b}"
            continue
        if a.dtype != b.dtype:
            return f"output {i}: dtype {a.dtype.name} vs {b.dtype.name}"
        if a.shape != b.shape:
            return f"output {i}: shape {list(a.shape)} vs {list(b.shape)}"
    return None


def diff_terms(o1, o2, tol=False):
    """list of z3 Bool terms, one per element, true where the two outputs differ.
    tol=True uses the mixed forward-error criterion (needs mags)."""
    f1, f2 = _flatten_outs(o1), _flatten_outs(o2)
    terms = []
    for a, b in zip(f1, f2):
        if isinstance(a, tuple):
            continue
        k = a.kind
        for idx in np.ndindex(*a.shape):
            x, y = a.arr[idx], b.arr[idx]
            if not is_sym(x) and not is_sym(y):
                if k == "f" and tol:
                    u = UNIT_ROUNDOFF.get(a.dtype, Fraction(1, 2**24))
                    m1 = a.mag[idx] if a.mag is not None else abs(x)
                    m2 = b.mag[idx] if b.mag is not None else abs(y)
                    if is_sym(m1) or is_sym(m2):
                        terms.append(Z(abs(Fraction(x) - Fraction(y)), "f") > Z(32 * u, "f") * (Z(m1, "f") + Z(m2, "f")))
                    elif abs(Fraction(x) - Fraction(y)) > 32 * u * (Fraction(m1) + Fraction(m2)):
                        terms.append(z3.BoolVal(True))
                elif x != y:
                    terms.append(z3.BoolVal(True))
                continue
            if k == "b":
                terms.append(z3.Xor(Z(x, "b"), Z(y, "b")))
            elif k == "i" or not tol:
                terms.append(Z(x, k) != Z(y, k))
            else:
                u = UNIT_ROUNDOFF.get(a.dtype, Fraction(1, 2**24))
                m1 = a.mag[idx] if a.mag is not None else e_abs(x, "f")
                m2 = b.mag[idx] if b.mag is not None else e_abs(y, "f")
                d = Z(x, "f") - Z(y, "f")
                terms.append(z3.If(d >= 0, d, -d) > Z(32 * u, "f") * (Z(m1, "f") + Z(m2, "f")))
    return terms


def model_to_inputs(model, inputs: dict) -> dict:
    """z3 model -> {name: nested python lists of exact values (str fractions for floats)}"""
    out = {}
    for name, sv in inputs.items():
        if not isinstance(sv, SV):
            continue
        k = sv.kind
        vals = np.empty(sv.shape, dtype=object)
        for idx in np.ndindex(*sv.shape):
            v = sv.arr[idx]
            if is_sym(v):
                mv = model.eval(v, model_completion=True)
                if k == "f":
                    if z3.is_algebraic_value(mv):
                        mv = mv.approx(20)
                    fr = Fraction(mv.numerator_as_long(), mv.denominator_as_long())
                    vals[idx] = float(fr)
                elif k == "i":
                    vals[idx] = mv.as_long()
                else:
                    vals[idx] = z3.is_true(mv)
            else:
                vals[idx] = float(v) if k == "f" else v
        out[name] = {"dtype": sv.dtype.name, "shape": list(sv.shape), "values": vals.tolist()}
    return out


def nice_grid_constraints(inputs: dict, denom: int = 4) -> list:
    """prefer counterexamples whose float inputs are multiples of 1/denom (exact in float32)"""
    cs = []
    for name, sv in inputs.items():
        if isinstance(sv, SV) and sv.kind == "f":
            for v in sv.arr.flat:
                if is_sym(v):
                    cs.append(z3.IsInt(v * denom))
    return cs


def compare(res1: list, res2: list, inputs: dict, stats: Stats, extra: list | None = None, tol_fn=None,
            skip_if_first_fails=False):
    """Decide whether two guarded evaluations agree for all inputs.

    res1/res2: lists of dicts {pc, bottom, outs, assumptions, unwind}
    tol_fn: optional callable returning (res1_mag, res2_mag) re-evaluated with magnitude tracking,
            used only when the exact query is sat for a float output.
    Returns dict(verdict in {equiv, equiv_tol, cex, unknown}, detail, inputs (for cex), kind)
    """
    box = box_constraints(inputs) + list(extra or [])
    verdict = {"verdict": "equiv", "detail": "", "paths": (len(res1), len(res2))}
    if skip_if_first_fails and len(res1) == 1 and res1[0]["bottom"] and not res1[0]["pc"]:
        return {"verdict": "original_fails", "detail": res1[0]["bottom"], "paths": verdict["paths"]}
    for r1 in res1:
        for r2 in res2:
            base = box + r1["pc"] + r2["pc"] + r1["assumptions"] + r2["assumptions"] + r1["unwind"] + r2["unwind"]
            both_paths = len(res1) > 1 or len(res2) > 1
            if r1["bottom"] or r2["bottom"]:
                if r1["bottom"] and r2["bottom"]:
                    continue
                st, m = _solve(base, stats) if (both_paths or base) else ("sat", None)
                if st == "sat":
                    return {"verdict": "cex", "kind": "error-behaviour", "first_fails": bool(r1["bottom"]),
                            "detail": f"one side fails ({r1['bottom'] or r2['bottom']}) where the other returns",
                            "inputs": model_to_inputs(m, inputs) if m is not None else None, "paths": verdict["paths"]}
                if st == "unknown":
                    verdict = {"verdict": "unknown", "detail": "solver timeout on path feasibility", "paths": verdict["paths"]}
                continue
            mism = structural_mismatch(r1["outs"], r2["outs"])
            if mism:
                st, m = _solve(base, stats)
                if st == "sat":
                    return {"verdict": "cex", "kind": "structure", "detail": mism, "inputs": model_to_inputs(m, inputs),
                            "paths": verdict["paths"]}
                if st == "unknown":
                    verdict = {"verdict": "unknown", "detail": "timeout", "paths": verdict["paths"]}
                continue
            terms = diff_terms(r1["outs"], r2["outs"])
            if not terms:
                continue
            terms = [t for t in terms if not z3.is_false(t)]
            if not terms:
                continue
            st, m = _solve(base + [z3.Or(terms)], stats)
            if st == "unsat":
                continue
            if st == "unknown":
                verdict = {"verdict": "unknown", "detail": "solver timeout/unknown on value query", "paths": verdict["paths"]}
                continue
            # exact query is sat.  Float outputs: retry with the forward-error criterion.
            has_float = any(isinstance(o, SV) and o.kind == "f" for o in _flatten_outs(r1["outs"]) if not isinstance(o, tuple))
            if has_float and tol_fn is not None:
                t1, t2 = tol_fn(r1, r2)
                if t1 is not None:
                    tterms = [t for t in diff_terms(t1["outs"], t2["outs"], tol=True) if not z3.is_false(t)]
                    if not tterms:
                        verdict = {"verdict": "equiv_tol", "detail": "equal within the forward-error bound", "paths": verdict["paths"]} if verdict["verdict"] == "equiv" else verdict
                        continue
                    grid = "1/4"
                    st2, m2 = _solve(base + nice_grid_constraints(inputs) + [z3.Or(tterms)], stats)
                    if st2 != "sat":
                        grid = "1/4096"
                        st2, m2 = _solve(base + nice_grid_constraints(inputs, 4096) + [z3.Or(tterms)], stats)
                    if st2 != "sat":
                        grid = "none"
                        st2, m2 = _solve(base + [z3.Or(tterms)], stats)
                    if st2 == "unsat":
                        if verdict["verdict"] == "equiv":
                            verdict = {"verdict": "equiv_tol", "detail": "equal within the forward-error bound (exact query sat)", "paths": verdict["paths"]}
                        continue
                    if st2 == "unknown":
                        verdict = {"verdict": "unknown", "detail": "timeout on tolerance query", "paths": verdict["paths"]}
                        continue
                    return {"verdict": "cex", "kind": "value", "detail": "outputs differ beyond round-off", "grid": grid,
                            "inputs": model_to_inputs(m2, inputs), "paths": verdict["paths"]}
            # prefer a replay-friendly counterexample
            nice = nice_grid_constraints(inputs)
            grid = "none" if nice else "n/a"
            if nice:
                st3, m3 = _solve(base + nice + [z3.Or(terms)], stats)
                if st3 == "sat":
                    m, grid = m3, "1/4"
                else:
                    st3, m3 = _solve(base + nice_grid_constraints(inputs, 4096) + [z3.Or(terms)], stats)
                    if st3 == "sat":
                        m, grid = m3, "1/4096"
            return {"verdict": "cex", "kind": "value", "detail": "outputs differ", "inputs": model_to_inputs(m, inputs),
                    "grid": grid, "paths": verdict["paths"]}
    return verdict


def perturbation_witness(res1: list, inputs: dict, stats: Stats) -> bool:
    """vacuity twin: perturbing one output element of res1 must make the query sat"""
    for r1 in res1:
        if r1["bottom"]:
            continue
        for o in _flatten_outs(r1["outs"]):
            if isinstance(o, tuple) or o.arr.size == 0:
                continue
            k = o.kind
            v = o.arr.flat[0]
            pert = z3.Not(Z(v, "b")) if k == "b" else Z(v, k) + 1
            base = box_constraints(inputs) + r1["pc"] + r1["assumptions"] + r1["unwind"]
            st, _ = _solve(base + [Z(v, k) != pert], stats)
            return st == "sat"
    return True  # nothing to perturb (all outputs empty / bottom)
