"""Structural well-formedness of ONNX protos (independent of onnx.checker): SSA, scoping, subgraph
outputs, distinct outputs, inputs not returned directly, one import per used domain."""
from __future__ import annotations

import onnx


def _graph_attrs(node):
    for a in node.attribute:
        if a.type == onnx.AttributeProto.GRAPH:
            yield a.name, a.g
        elif a.type == onnx.AttributeProto.GRAPHS:
            for g in a.graphs:
                yield a.name, g


def check_graph(g: onnx.GraphProto, outer: set, all_defs: set, problems: list, used_domains: set, path: str, is_main: bool,
                in_function: bool = False):
    scope = set(outer)
    local = set()

    def define(name, what):
        if name == "":
            return
        # SSA within one graph; a nested graph must not redefine a name visible from an enclosing scope.
        # (sibling subgraphs, e.g. the two branches of an If, may reuse a name: they are separate graphs)
        if name in local:
            problems.append(f"{path}: {what} {name!r} defined more than once")
        if name in outer:
            problems.append(f"{path}: {what} {name!r} redefines an outer-scope name")
        all_defs.add(name)
        scope.add(name)
        local.add(name)

    for i in g.input:
        define(i.name, "input")
    for t in g.initializer:
        if t.name in {i.name for i in g.input}:
            continue
        define(t.name, "initializer")
    node_outputs = set()
    for n in g.node:
        used_domains.add(n.domain)
        for x in n.input:
            if x != "" and x not in scope:
                problems.append(f"{path}: node {n.op_type} uses {x!r} before definition / out of scope")
        for a in n.attribute:
            if a.ref_attr_name and not in_function:
                problems.append(f"{path}: node {n.op_type} attribute {a.name} refers to attribute parameter {a.ref_attr_name!r} outside a function")
        for an, sg in _graph_attrs(n):
            check_graph(sg, scope, all_defs, problems, used_domains, f"{path}/{n.op_type}.{an}", False, in_function)
        for o in n.output:
            define(o, "value")
            node_outputs.add(o)
    outs = [o.name for o in g.output]
    if len(set(outs)) != len(outs):
        problems.append(f"{path}: duplicate graph outputs {outs}")
    ins = {i.name for i in g.input}
    for o in outs:
        if o not in scope:
            problems.append(f"{path}: output {o!r} is not defined")
        if o in ins:
            problems.append(f"{path}: graph input {o!r} is returned directly")
        if not is_main and o not in local:
            problems.append(f"{path}: subgraph output {o!r} is not produced inside the subgraph")


def check_model(m: onnx.ModelProto) -> list:
    problems: list = []
    used: set = set()
    check_graph(m.graph, set(), set(), problems, used, "main", True)
    imports = [(o.domain, o.version) for o in m.opset_import]
    doms = [d for d, _ in imports]
    fn_domains = {f.domain for f in m.functions}
    for d in used:
        d2 = "" if d == "ai.onnx" else d
        if doms.count(d2) + (doms.count("ai.onnx") if d2 == "" else 0) != 1:
            problems.append(f"domain {d!r} is used but imported {doms.count(d2)} times")
    for f in m.functions:
        problems += check_function(f, model_imports=dict(imports))
    problems += check_calls(m)
    return problems


# domains whose operators are defined outside the model (ONNX itself, runtimes); a node in any OTHER domain is a call of a
# model-local function and must find its FunctionProto in the model (none of the corpora uses runtime-provided custom operators)
SCHEMA_DOMAINS = {"", "ai.onnx", "ai.onnx.ml", "ai.onnx.training", "ai.onnx.preview.training", "com.microsoft",
                  "com.microsoft.nchwc", "com.microsoft.experimental", "org.pytorch.aten", "org.pytorch.prim"}


def _walk_nodes(nodes):
    for n in nodes:
        yield n
        for _, sg in _graph_attrs(n):
            yield from _walk_nodes(sg.node)


def check_calls(m: onnx.ModelProto) -> list:
    problems = []
    keys = [(f.domain, f.name, f.overload) for f in m.functions]
    for k in set(keys):
        if keys.count(k) > 1:
            problems.append(f"function {k[0]}::{k[1]} is defined {keys.count(k)} times")
    have = set(keys)
    bodies = [("main", m.graph.node)] + [(f"function {f.name}", f.node) for f in m.functions]
    for where, nodes in bodies:
        for n in _walk_nodes(nodes):
            if n.domain not in SCHEMA_DOMAINS and (n.domain, n.op_type, n.overload) not in have:
                problems.append(f"{where}: node {n.domain}::{n.op_type} is neither an operator of a known domain nor a function of the model")
    return sorted(set(problems))


def check_function(f: onnx.FunctionProto, model_imports=None) -> list:
    problems: list = []
    used: set = set()
    scope = set()
    all_defs = set()
    for i in f.input:
        if i in all_defs:
            problems.append(f"function {f.name}: duplicate input {i}")
        all_defs.add(i)
        scope.add(i)
    path = f"function {f.name}"
    for n in f.node:
        used.add(n.domain)
        for x in n.input:
            if x != "" and x not in scope:
                problems.append(f"{path}: node {n.op_type} uses {x!r} before definition")
        for a in n.attribute:
            if a.ref_attr_name and a.ref_attr_name not in list(f.attribute) + [ap.name for ap in f.attribute_proto]:
                problems.append(f"{path}: reference to undeclared attribute {a.ref_attr_name!r}")
        for an, sg in _graph_attrs(n):
            check_graph(sg, scope, all_defs, problems, used, f"{path}/{n.op_type}.{an}", False, True)
        for o in n.output:
            if o == "":
                continue
            if o in all_defs:
                problems.append(f"{path}: value {o!r} defined more than once")
            all_defs.add(o)
            scope.add(o)
    outs = list(f.output)
    if len(set(outs)) != len(outs):
        problems.append(f"{path}: duplicate outputs {outs}")
    for o in outs:
        if o not in scope:
            problems.append(f"{path}: output {o!r} not defined")
        if o in set(f.input):
            problems.append(f"{path}: input {o!r} returned directly")
    doms = [o.domain for o in f.opset_import]
    for d in used:
        d2 = "" if d == "ai.onnx" else d
        if doms.count(d2) != 1:
            problems.append(f"{path}: domain {d!r} used but imported {doms.count(d2)} times")
    return problems
