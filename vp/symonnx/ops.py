"""symonnx operator semantics (ONNX spec, default domain).  Each op: f(ins, attrs, ctx) -> list of SV/Seq.

`ins`   list of SV | Seq | None (omitted optional input)
`attrs` dict name -> python value (int, float, str, list, ir tensor, ir.Graph)
`ctx`   Ctx: opset version, number of outputs requested, assumption sink, magnitude tracking flag.
Ops raise Bottom (runtime error), NotEncoded (outside the encoding).  Nodes whose inputs are all
concrete never get here: the interpreter evaluates them numerically with onnx.reference (that is
what the constant folder does, bit for bit).
"""
from __future__ import annotations

import itertools
from fractions import Fraction

import numpy as np
import z3

from .values import (DT, FLOATS, INTS, SV, Bottom, NotEncoded, Seq, Z, cast_el, const, e_abs, e_add,
                     e_and, e_ceil, e_eq, e_floor, e_idiv_trunc, e_imod_c, e_imod_py, e_ite, e_le, e_lt,
                     e_max, e_min, e_mul, e_neg, e_not, e_or, e_sub, e_xor, ew, from_ir_tensor, full,
                     ints_of, is_sym, kind, one, zero)

OPS: dict = {}


def op(*names):
    def deco(f):
        for n in names:
            OPS[n] = f
        return f
    return deco


class Ctx:
    def __init__(self, opset=18, track_mag=False):
        self.opset = opset
        self.track_mag = track_mag
        self.assumptions: list = []  # z3 constraints under which the encoding is valid (e.g. divisor != 0)
        self.n_outputs = 1
        self.uf_used: set = set()
        self.node = None


# ------------------------------------------------------------------ helpers
def _mv(sv: SV, f, dtype=None) -> SV:
    """data movement: apply f to values and magnitudes alike"""
    return SV(f(sv.arr), sv.dtype if dtype is None else dtype, None if sv.mag is None else f(sv.mag))


def _mag(sv: SV) -> np.ndarray:
    if sv.mag is not None:
        return sv.mag
    k = sv.kind
    if k == "b":
        return full(sv.shape, Fraction(0))
    return ew(lambda v: e_abs(v, k) if k == "f" else cast_el(e_abs(v, "i"), "i", "f"), sv.arr)


def _same_type(ins, opname):
    dts = {i.dtype for i in ins if i is not None}
    if len(dts) > 1:
        raise Bottom(f"{opname}: operand types differ {sorted(d.name for d in dts)}")
    return next(iter(dts))


def _norm_axis(a, r, what="axis"):
    if not (-r <= a < r):
        raise Bottom(f"{what} {a} out of range for rank {r}")
    return a + r if a < 0 else a


def _uf(ctx, name, *args, out="f"):
    sorts = [z3.RealSort() if is_sym(a) and a.sort() == z3.RealSort() or not is_sym(a) and isinstance(a, Fraction) else
             (a.sort() if is_sym(a) else z3.IntSort()) for a in args]
    zargs = []
    for a in args:
        if is_sym(a):
            zargs.append(a)
        elif isinstance(a, bool):
            zargs.append(z3.BoolVal(a))
        elif isinstance(a, int):
            zargs.append(z3.IntVal(a))
        else:
            zargs.append(Z(a, "f"))
    sorts = [a.sort() for a in zargs]
    f = z3.Function(f"uf_{name}_{len(zargs)}", *sorts, {"f": z3.RealSort(), "i": z3.IntSort(), "b": z3.BoolSort()}[out])
    ctx.uf_used.add(name)
    return f(*zargs)


def _attr_tag(attrs, names):
    return "_".join(f"{n}{attrs.get(n)}" for n in names if attrs.get(n) is not None).replace(".", "p").replace("-", "m")


# ------------------------------------------------------------------ elementwise
def _binary(fn, fmag=None):
    def impl(ins, attrs, ctx):
        a, b = ins[0], ins[1]
        dt = _same_type([a, b], "binary")
        k = kind(dt)
        arr = ew(lambda x, y: fn(x, y, k), a.arr, b.arr)
        mag = None
        if ctx.track_mag and k == "f" and fmag is not None:
            mag = ew(fmag, _mag(a), _mag(b))
        return [SV(arr, dt, mag)]
    return impl


OPS["Add"] = _binary(e_add, lambda x, y: e_add(x, y, "f"))
OPS["Sub"] = _binary(e_sub, lambda x, y: e_add(x, y, "f"))
OPS["Mul"] = _binary(e_mul, lambda x, y: e_mul(x, y, "f"))


@op("Div")
def _div(ins, attrs, ctx):
    a, b = ins[0], ins[1]
    dt = _same_type([a, b], "Div")
    k = kind(dt)
    if k == "b":
        raise Bottom("Div on bool")

    def f(x, y):
        if not is_sym(y):
            if y == 0:
                raise NotEncoded("division by constant zero (inf/NaN or error)")
            if k == "f":
                if not is_sym(x):
                    return Fraction(x) / Fraction(y)
                return Z(x, "f") * Z(1 / Fraction(y), "f")
            return e_idiv_trunc(x, y)
        ctx.assumptions.append(y != 0)
        if k == "f":
            return Z(x, "f") / y
        return e_idiv_trunc(x, y)

    arr = ew(f, a.arr, b.arr)
    mag = None
    if ctx.track_mag and k == "f":
        def fm(ma, y, v):
            if not is_sym(y) and y != 0:
                return e_mul(ma, abs(1 / Fraction(y)), "f")
            return e_abs(v, "f")
        mag = ew(fm, _mag(a), b.arr, arr)
    return [SV(arr, dt, mag)]


@op("Mod")
def _mod(ins, attrs, ctx):
    a, b = ins[0], ins[1]
    dt = _same_type([a, b], "Mod")
    k = kind(dt)
    fmod = int(attrs.get("fmod", 0))
    if k == "f":
        if not fmod:
            raise Bottom("Mod: fmod=0 with float operands")
        return [SV(ew(lambda x, y: _uf(ctx, "fmod", x, y), a.arr, b.arr), dt)]
    if k == "b":
        raise Bottom("Mod on bool")

    def f(x, y):
        if is_sym(y):
            ctx.assumptions.append(y != 0)
        elif y == 0:
            raise NotEncoded("mod by constant zero")
        return e_imod_c(x, y) if fmod else e_imod_py(x, y)
    return [SV(ew(f, a.arr, b.arr), dt)]


@op("Pow")
def _pow(ins, attrs, ctx):
    a, b = ins
    k = a.kind
    if b.is_concrete():
        exps = b.arr

        def f(x, e):
            ef = Fraction(e)
            if ef.denominator == 1 and 0 <= ef <= 8:
                r = one(k) if k != "b" else True
                for _ in range(int(ef)):
                    r = e_mul(r, x, k)
                return r
            return _uf(ctx, "pow", x, Fraction(e))
        return [SV(ew(f, a.arr, exps), a.dtype)]
    return [SV(ew(lambda x, e: _uf(ctx, "pow", x, e if is_sym(e) else Fraction(e)), a.arr, b.arr), a.dtype)]


def _variadic(fn):
    def impl(ins, attrs, ctx):
        dt = _same_type(ins, "variadic")
        k = kind(dt)
        cur = ins[0].arr
        for nxt in ins[1:]:
            cur = ew(lambda x, y: fn(x, y, k), cur, nxt.arr)
        if len(ins) == 1:
            cur = cur.copy()
        return [SV(cur, dt)]
    return impl


OPS["Min"] = _variadic(e_min)
OPS["Max"] = _variadic(e_max)
OPS["Sum"] = _variadic(e_add)


@op("Mean")
def _mean(ins, attrs, ctx):
    s = OPS["Sum"](ins, attrs, ctx)[0]
    n = Fraction(1, len(ins))
    return [SV(ew(lambda x: e_mul(x, n, "f"), s.arr), s.dtype)]


def _cmp(fn):
    def impl(ins, attrs, ctx):
        a, b = ins
        dt = _same_type([a, b], "compare")
        k = kind(dt)
        return [SV(ew(lambda x, y: fn(x, y, k), a.arr, b.arr), DT.BOOL)]
    return impl


OPS["Less"] = _cmp(e_lt)
OPS["LessOrEqual"] = _cmp(e_le)
OPS["Greater"] = _cmp(lambda x, y, k: e_lt(y, x, k))
OPS["GreaterOrEqual"] = _cmp(lambda x, y, k: e_le(y, x, k))


@op("Equal")
def _equal(ins, attrs, ctx):
    a, b = ins
    dt = _same_type([a, b], "Equal")
    k = kind(dt)
    if k == "b":
        return [SV(ew(lambda x, y: e_not(e_xor(x, y)), a.arr, b.arr), DT.BOOL)]
    return [SV(ew(lambda x, y: e_eq(x, y, k), a.arr, b.arr), DT.BOOL)]


def _logic(fn):
    def impl(ins, attrs, ctx):
        for i in ins:
            if i.dtype != DT.BOOL:
                raise Bottom("logical op on non-bool")
        return [SV(ew(fn, ins[0].arr, ins[1].arr), DT.BOOL)]
    return impl


OPS["And"] = _logic(e_and)
OPS["Or"] = _logic(e_or)
OPS["Xor"] = _logic(e_xor)


@op("Not")
def _not(ins, attrs, ctx):
    if ins[0].dtype != DT.BOOL:
        raise Bottom("Not on non-bool")
    return [SV(ew(e_not, ins[0].arr), DT.BOOL)]


@op("Where")
def _where(ins, attrs, ctx):
    c, a, b = ins
    if c.dtype != DT.BOOL:
        raise Bottom("Where condition must be bool")
    dt = _same_type([a, b], "Where")
    k = kind(dt)
    arr = ew(lambda cc, x, y: e_ite(cc, x, y, k), c.arr, a.arr, b.arr)
    mag = None
    if ctx.track_mag and k == "f":
        mag = ew(lambda cc, x, y: e_ite(cc, x, y, "f"), c.arr, _mag(a), _mag(b))
    return [SV(arr, dt, mag)]


def _unary(fn, float_only=False, keep_mag=False):
    def impl(ins, attrs, ctx):
        x = ins[0]
        k = x.kind
        if float_only and k != "f":
            raise Bottom("float operand required")
        arr = ew(lambda v: fn(v, k, attrs), x.arr)
        return [SV(arr, x.dtype, x.mag if (keep_mag and ctx.track_mag) else None)]
    return impl


OPS["Identity"] = lambda ins, attrs, ctx: [ins[0] if isinstance(ins[0], Seq) else SV(ins[0].arr, ins[0].dtype, ins[0].mag)]
OPS["Neg"] = _unary(lambda v, k, a: e_neg(v, k), keep_mag=True)
OPS["Abs"] = _unary(lambda v, k, a: e_abs(v, k), keep_mag=True)
OPS["Relu"] = _unary(lambda v, k, a: e_max(v, zero(k), k), keep_mag=True)
OPS["Floor"] = _unary(lambda v, k, a: e_floor(v), float_only=True)
OPS["Ceil"] = _unary(lambda v, k, a: e_ceil(v), float_only=True)
OPS["Sign"] = _unary(lambda v, k, a: e_ite(e_lt(zero(k), v, k), one(k), e_ite(e_lt(v, zero(k), k), -one(k), zero(k), k), k))
OPS["IsNaN"] = lambda ins, attrs, ctx: [SV(full(ins[0].shape, False), DT.BOOL)]
OPS["IsInf"] = lambda ins, attrs, ctx: [SV(full(ins[0].shape, False), DT.BOOL)]


def _f(v):
    return Fraction(float(np.float32(v)))


OPS["LeakyRelu"] = _unary(lambda v, k, a: e_ite(e_lt(v, zero(k), k), e_mul(v, _f(a.get("alpha", 0.01)), k), v, k), float_only=True)
OPS["ThresholdedRelu"] = _unary(lambda v, k, a: e_ite(e_lt(_f(a.get("alpha", 1.0)), v, k), v, zero(k), k), float_only=True)
def _hardsigmoid_impl(swish):
    def impl(ins, attrs, ctx):
        x = ins[0]
        k = x.kind
        if k != "f":
            raise Bottom("float operand required")
        alpha = Fraction(float(np.float32(1.0 / 6.0))) if swish else _f(attrs.get("alpha", 0.2))
        beta = Fraction(1, 2) if swish else _f(attrs.get("beta", 0.5))

        def f(v):
            hs = e_max(zero(k), e_min(one(k), e_add(e_mul(v, alpha, k), beta, k), k), k)
            return e_mul(v, hs, k) if swish else hs
        arr = ew(f, x.arr)
        mag = None
        if ctx.track_mag:
            # magnitude of the affine part before clamping (forward-error bound must not vanish at the kinks)
            def fm(mv):
                inner = e_add(e_mul(mv, abs(alpha), "f"), abs(beta), "f")
                return e_mul(mv, inner, "f") if swish else inner
            mag = ew(fm, _mag(x))
        return [SV(arr, x.dtype, mag)]
    return impl


OPS["HardSigmoid"] = _hardsigmoid_impl(False)
OPS["HardSwish"] = _hardsigmoid_impl(True)


@op("Reciprocal")
def _recip(ins, attrs, ctx):
    x = ins[0]

    def f(v):
        if is_sym(v):
            ctx.assumptions.append(v != 0)
            return 1 / v
        if v == 0:
            raise NotEncoded("1/0")
        return 1 / Fraction(v)
    return [SV(ew(f, x.arr), x.dtype)]


for _name in ("Exp", "Log", "Sqrt", "Erf", "Tanh", "Sigmoid", "Sin", "Cos", "Tan", "Softplus", "Softsign", "Asin", "Acos",
              "Atan", "Sinh", "Cosh", "Asinh", "Acosh", "Atanh", "Mish", "Round"):
    def _mk(name):
        def impl(ins, attrs, ctx):
            x = ins[0]
            if x.kind != "f":
                raise Bottom(f"{name} on non-float")
            return [SV(ew(lambda v: _uf(ctx, name, v), x.arr), x.dtype)]
        return impl
    OPS[_name] = _mk(_name)

for _name, _an in (("Elu", ["alpha"]), ("Selu", ["alpha", "gamma"]), ("Celu", ["alpha"]), ("Gelu", ["approximate"]),
                   ("Swish", ["alpha"])):
    def _mk2(name, an):
        def impl(ins, attrs, ctx):
            x = ins[0]
            tag = name + "_" + _attr_tag(attrs, an)
            return [SV(ew(lambda v: _uf(ctx, tag, v), x.arr), x.dtype)]
        return impl
    OPS[_name] = _mk2(_name, _an)


@op("PRelu")
def _prelu(ins, attrs, ctx):
    x, s = ins
    _same_type([x, s], "PRelu")
    k = x.kind
    return [SV(ew(lambda v, sl: e_ite(e_lt(v, zero(k), k), e_mul(v, sl, k), v, k), x.arr, s.arr), x.dtype)]


@op("Clip")
def _clip(ins, attrs, ctx):
    x = ins[0]
    k = x.kind
    lo = ins[1] if len(ins) > 1 else None
    hi = ins[2] if len(ins) > 2 else None
    if ctx.opset < 11:
        raise NotEncoded("Clip < 11")
    for b in (lo, hi):
        if b is not None:
            if b.dtype != x.dtype:
                raise Bottom("Clip bound type")
            if b.arr.size != 1 or b.arr.ndim != 0:
                raise Bottom("Clip bounds must be scalars")
    a = x.arr
    if lo is not None:
        l = lo.item()
        a = ew(lambda v: e_max(v, l, k), a)
    if hi is not None:
        h = hi.item()
        a = ew(lambda v: e_min(v, h, k), a)
    if lo is None and hi is None:
        a = a.copy()
    return [SV(a, x.dtype, x.mag if ctx.track_mag else None)]


def _softmax_like(name):
    def impl(ins, attrs, ctx):
        x = ins[0]
        r = x.arr.ndim
        axis = _norm_axis(int(attrs.get("axis", -1 if ctx.opset >= 13 else 1)), r)
        if ctx.opset < 13:
            raise NotEncoded("Softmax < 13 (flattening semantics)")
        out = np.empty(x.shape, dtype=object)
        moved = np.moveaxis(x.arr, axis, -1)
        omoved = np.moveaxis(out, axis, -1)
        for i in np.ndindex(*moved.shape[:-1]):
            vec = list(moved[i])
            for j in range(len(vec)):
                omoved[i + (j,)] = _uf(ctx, f"{name}{len(vec)}", vec[j], *vec)
        return [SV(out, x.dtype)]
    return impl


OPS["Softmax"] = _softmax_like("softmax")
OPS["LogSoftmax"] = _softmax_like("logsoftmax")
OPS["Hardmax"] = _softmax_like("hardmax")


# ------------------------------------------------------------------ casts
def _cast_to(x: SV, to: DT, ctx, saturate=1) -> SV:
    to = DT(to)
    sk, dk = x.kind, kind(to)
    if to == x.dtype:
        return SV(x.arr.copy(), to, x.mag)
    arr = ew(lambda v: cast_el(v, sk, dk), x.arr)
    # precision loss float->narrower float and int range wrap are outside the claim (see DESIGN §3.4)
    return SV(arr, to, x.mag if (sk == dk == "f" and ctx.track_mag) else None)


@op("Cast")
def _cast(ins, attrs, ctx):
    return [_cast_to(ins[0], DT(int(attrs["to"])), ctx)]


@op("CastLike")
def _castlike(ins, attrs, ctx):
    return [_cast_to(ins[0], ins[1].dtype, ctx)]


# ------------------------------------------------------------------ shape / data movement
@op("Shape")
def _shape(ins, attrs, ctx):
    shp = list(ins[0].shape)
    r = len(shp)
    start = int(attrs.get("start", 0))
    end = attrs.get("end")
    if ctx.opset < 15 and ("start" in attrs or "end" in attrs):
        raise Bottom("Shape start/end need opset 15")
    start = max(0, min(r, start + r if start < 0 else start))
    if end is None:
        end = r
    else:
        end = int(end)
        end = max(0, min(r, end + r if end < 0 else end))
    return [const(np.array(shp[start:end], dtype=np.int64))]


@op("Size")
def _size(ins, attrs, ctx):
    return [const(np.array(int(np.prod(ins[0].shape, dtype=np.int64)), dtype=np.int64))]


@op("Reshape")
def _reshape(ins, attrs, ctx):
    x, s = ins
    if s.dtype != DT.INT64 or s.arr.ndim != 1:
        raise Bottom("Reshape shape must be 1-D int64")
    tgt = ints_of(s, "reshape target")
    allowzero = int(attrs.get("allowzero", 0))
    if allowzero and ctx.opset < 14:
        raise Bottom("allowzero needs opset 14")
    shp = list(x.shape)
    out = []
    for i, t in enumerate(tgt):
        if t == 0 and not allowzero:
            if i >= len(shp):
                raise Bottom("Reshape 0 beyond rank")
            out.append(shp[i])
        else:
            out.append(t)
    if out.count(-1) > 1:
        raise Bottom("Reshape: more than one -1")
    if allowzero and -1 in out and 0 in out:
        raise Bottom("Reshape: -1 with 0 under allowzero")
    size = int(np.prod(shp, dtype=np.int64))
    if -1 in out:
        rest = int(np.prod([d for d in out if d != -1], dtype=np.int64))
        if rest == 0 or size % rest:
            raise Bottom("Reshape: cannot infer -1")
        out[out.index(-1)] = size // rest
    if any(d < 0 for d in out) or int(np.prod(out, dtype=np.int64)) != size:
        raise Bottom(f"Reshape: size mismatch {shp} -> {out}")
    return [_mv(x, lambda a: a.reshape(out))]


@op("Flatten")
def _flatten(ins, attrs, ctx):
    x = ins[0]
    r = x.arr.ndim
    axis = int(attrs.get("axis", 1))
    if not (-r <= axis <= r):
        raise Bottom("Flatten axis")
    if axis < 0:
        axis += r
    a = int(np.prod(x.shape[:axis], dtype=np.int64))
    b = int(np.prod(x.shape[axis:], dtype=np.int64))
    return [_mv(x, lambda arr: arr.reshape((a, b)))]


@op("Transpose")
def _transpose(ins, attrs, ctx):
    x = ins[0]
    r = x.arr.ndim
    perm = attrs.get("perm")
    perm = list(reversed(range(r))) if perm is None else [int(p) for p in perm]
    if sorted(perm) != list(range(r)):
        raise Bottom("Transpose perm")
    return [_mv(x, lambda a: np.transpose(a, perm))]


def _axes_arg(ins, attrs, ctx, idx, since):
    """axes as input (opset >= since) or attribute (older)"""
    if ctx.opset >= since:
        if "axes" in attrs:
            raise Bottom("axes attribute not allowed in this opset")
        if len(ins) > idx and ins[idx] is not None:
            return ints_of(ins[idx], "axes")
        return None
    if len(ins) > idx and ins[idx] is not None:
        raise Bottom("axes input not allowed in this opset")
    a = attrs.get("axes")
    return None if a is None else [int(v) for v in a]


@op("Squeeze")
def _squeeze(ins, attrs, ctx):
    x = ins[0]
    r = x.arr.ndim
    axes = _axes_arg(ins, attrs, ctx, 1, 13)
    if axes is None:
        axes = [i for i, d in enumerate(x.shape) if d == 1]
    axes = [_norm_axis(a, r) for a in axes]
    for a in axes:
        if x.shape[a] != 1:
            raise Bottom("Squeeze of non-1 dim")
    out = [d for i, d in enumerate(x.shape) if i not in axes]
    return [_mv(x, lambda a: a.reshape(out))]


@op("Unsqueeze")
def _unsqueeze(ins, attrs, ctx):
    x = ins[0]
    axes = _axes_arg(ins, attrs, ctx, 1, 13)
    if axes is None:
        raise Bottom("Unsqueeze needs axes")
    r = x.arr.ndim + len(axes)
    axes = [_norm_axis(a, r) for a in axes]
    if len(set(axes)) != len(axes):
        raise Bottom("Unsqueeze duplicate axes")
    shp = list(x.shape)
    out = []
    it = iter(shp)
    for i in range(r):
        out.append(1 if i in axes else next(it))
    return [_mv(x, lambda a: a.reshape(out))]


@op("Expand")
def _expand(ins, attrs, ctx):
    x, s = ins
    tgt = ints_of(s, "expand shape")
    if any(t < 0 for t in tgt):
        raise Bottom("Expand negative dim")
    try:
        shape = np.broadcast_shapes(x.shape, tuple(tgt))
    except ValueError as e:
        raise Bottom(f"Expand: {e}") from e
    return [_mv(x, lambda a: np.broadcast_to(a, shape).copy())]


@op("Tile")
def _tile(ins, attrs, ctx):
    x, r = ins
    reps = ints_of(r, "tile repeats")
    if len(reps) != x.arr.ndim or any(v < 0 for v in reps):
        raise Bottom("Tile repeats")
    return [_mv(x, lambda a: np.tile(a, reps))]


@op("Concat")
def _concat(ins, attrs, ctx):
    dt = _same_type(ins, "Concat")
    r = ins[0].arr.ndim
    if r == 0:
        raise Bottom("Concat of scalars")
    axis = _norm_axis(int(attrs["axis"]), r)
    for i in ins:
        if i.arr.ndim != r or any(i.shape[d] != ins[0].shape[d] for d in range(r) if d != axis):
            raise Bottom("Concat shape mismatch")
    arr = np.concatenate([i.arr for i in ins], axis=axis)
    mag = np.concatenate([_mag(i) for i in ins], axis=axis) if ctx.track_mag and kind(dt) == "f" else None
    return [SV(arr, dt, mag)]


@op("Split")
def _split(ins, attrs, ctx):
    x = ins[0]
    r = x.arr.ndim
    axis = _norm_axis(int(attrs.get("axis", 0)), r)
    d = x.shape[axis]
    if ctx.opset >= 13:
        if "split" in attrs:
            raise Bottom("split attribute not allowed")
        split = ints_of(ins[1], "split") if len(ins) > 1 and ins[1] is not None else None
    else:
        split = attrs.get("split")
        split = None if split is None else [int(v) for v in split]
    n = ctx.n_outputs
    if "num_outputs" in attrs:
        if ctx.opset < 18:
            raise Bottom("num_outputs needs opset 18")
        if split is not None:
            raise Bottom("both split and num_outputs")
        n = int(attrs["num_outputs"])
        if n != ctx.n_outputs:
            raise Bottom("num_outputs != number of outputs")
    if split is None:
        if ctx.opset >= 18:
            size = -(-d // n)
            split = [size] * (n - 1) + [d - size * (n - 1)]
            if split[-1] < 0:
                raise Bottom("Split: cannot split")
        else:
            if d % n:
                raise Bottom("Split: uneven")
            split = [d // n] * n
    if sum(split) != d or any(s < 0 for s in split) or len(split) != ctx.n_outputs:
        raise Bottom("Split sizes")
    outs, pos = [], 0
    for s in split:
        sl = [slice(None)] * r
        sl[axis] = slice(pos, pos + s)
        outs.append(_mv(x, lambda a, sl=tuple(sl): a[sl].copy()))
        pos += s
    return outs


@op("Slice")
def _slice(ins, attrs, ctx):
    x = ins[0]
    r = x.arr.ndim
    if ctx.opset < 10:
        raise NotEncoded("Slice < 10")
    starts = ints_of(ins[1], "slice starts")
    ends = ints_of(ins[2], "slice ends")
    axes = ints_of(ins[3], "slice axes") if len(ins) > 3 and ins[3] is not None else list(range(len(starts)))
    steps = ints_of(ins[4], "slice steps") if len(ins) > 4 and ins[4] is not None else [1] * len(starts)
    if not (len(starts) == len(ends) == len(axes) == len(steps)):
        raise Bottom("Slice arity")
    sl = [slice(None)] * r
    seen = set()
    for st, en, ax, sp in zip(starts, ends, axes, steps):
        ax = _norm_axis(ax, r)
        if ax in seen:
            raise Bottom("Slice duplicate axis")
        seen.add(ax)
        if sp == 0:
            raise Bottom("Slice step 0")
        d = x.shape[ax]
        if st < 0:
            st += d
        if en < 0:
            en += d
        if sp > 0:
            st = min(max(st, 0), d)
            en = min(max(en, 0), d)
            idx = list(range(st, en, sp))
        else:
            st = min(max(st, 0), d - 1)
            en = min(max(en, -1), d - 1)
            idx = list(range(st, en, sp))
        sl[ax] = idx
    def f(a):
        for ax, s in enumerate(sl):
            if isinstance(s, list):
                a = np.take(a, np.array(s, dtype=np.int64), axis=ax)
        return a.copy()
    return [_mv(x, f)]


def _index_array(sv: SV, d: int, what):
    idx = np.array(ints_of(sv, what), dtype=np.int64).reshape(sv.shape)
    if ((idx < -d) | (idx >= d)).any():
        raise Bottom(f"{what} out of bounds")
    return np.where(idx < 0, idx + d, idx)


@op("Gather")
def _gather(ins, attrs, ctx):
    x, i = ins
    r = x.arr.ndim
    if r == 0:
        raise Bottom("Gather on scalar")
    axis = _norm_axis(int(attrs.get("axis", 0)), r)
    if i.kind != "i":
        raise Bottom("Gather indices type")
    if i.is_concrete():
        idx = _index_array(i, x.shape[axis], "gather index")
        return [_mv(x, lambda a: np.take(a, idx, axis=axis))]
    # symbolic indices: ite chain over the axis extent
    d = x.shape[axis]
    k = x.kind
    moved = np.moveaxis(x.arr, axis, 0)
    out_shape = x.shape[:axis] + i.shape + x.shape[axis + 1:]
    out = np.empty(out_shape, dtype=object)
    for pos in np.ndindex(*i.shape):
        iv = i.arr[pos]
        ctx.assumptions.append(z3.And(Z(iv, "i") >= -d, Z(iv, "i") < d))
        sel = None
        for j in range(d):
            cond = z3.Or(Z(iv, "i") == j, Z(iv, "i") == j - d)
            sel = moved[j] if sel is None else ew(lambda a, b, c=cond: e_ite(c, a, b, k), moved[j], sel)
        if sel is None:
            raise Bottom("gather from empty axis")
        # place: out[pre..., pos..., post...]
        sel = np.asarray(sel, dtype=object)
        for pre in np.ndindex(*x.shape[:axis]):
            for post in np.ndindex(*x.shape[axis + 1:]):
                out[pre + pos + post] = sel[pre + post]
    return [SV(out, x.dtype)]


@op("GatherElements")
def _gather_elements(ins, attrs, ctx):
    x, i = ins
    r = x.arr.ndim
    axis = _norm_axis(int(attrs.get("axis", 0)), r)
    if i.arr.ndim != r:
        raise Bottom("GatherElements rank")
    idx = _index_array(i, x.shape[axis], "gather index")
    return [_mv(x, lambda a: np.take_along_axis(a, idx, axis=axis))]


@op("ScatterND")
def _scatter_nd(ins, attrs, ctx):
    x, ind, upd = ins
    red = attrs.get("reduction", "none")
    if isinstance(red, bytes):
        red = red.decode()
    if red not in ("none", "add", "mul", "max", "min"):
        raise Bottom(f"ScatterND reduction {red!r}")
    if (red in ("add", "mul") and ctx.opset < 16) or (red in ("max", "min") and ctx.opset < 18):
        raise Bottom(f"ScatterND reduction {red!r} needs a newer opset")
    if red != "none" and x.kind == "b":
        raise NotEncoded("ScatterND reduction on bool")
    _same_type([x, upd], "ScatterND")
    idx = np.array(ints_of(ind, "scatter indices"), dtype=np.int64).reshape(ind.shape)
    q = idx.shape[-1]
    if q > x.arr.ndim:
        raise Bottom("ScatterND index depth")
    if upd.shape != idx.shape[:-1] + x.shape[q:]:
        raise Bottom("ScatterND update shape")
    out = x.arr.copy()
    for pos in np.ndindex(*idx.shape[:-1]):
        tgt = []
        for j, v in enumerate(idx[pos]):
            d = x.shape[j]
            if not (-d <= v < d):
                raise Bottom("ScatterND index out of bounds")
            tgt.append(int(v + d if v < 0 else v))
        tgt = tuple(tgt)
        if red == "none":
            out[tgt] = upd.arr[pos]
        else:
            comb = {"add": e_add, "mul": e_mul, "max": e_max, "min": e_min}[red]
            if q == x.arr.ndim:
                out[tgt] = comb(out[tgt], upd.arr[pos], x.kind)
            else:
                cur, new = out[tgt], upd.arr[pos]
                res = np.empty(cur.shape, dtype=object)
                for p2 in np.ndindex(*cur.shape):
                    res[p2] = comb(cur[p2], new[p2], x.kind)
                out[tgt] = res
    return [SV(out, x.dtype)]


@op("ScatterElements")
def _scatter_elements(ins, attrs, ctx):
    x, ind, upd = ins
    if attrs.get("reduction", "none") not in ("none", b"none"):
        raise NotEncoded("ScatterElements reduction")
    r = x.arr.ndim
    axis = _norm_axis(int(attrs.get("axis", 0)), r)
    idx = _index_array(ind, x.shape[axis], "scatter index")
    if upd.shape != ind.shape:
        raise Bottom("ScatterElements shape")
    out = x.arr.copy()
    for pos in np.ndindex(*idx.shape):
        tgt = list(pos)
        tgt[axis] = int(idx[pos])
        out[tuple(tgt)] = upd.arr[pos]
    return [SV(out, x.dtype)]


@op("Constant")
def _constant(ins, attrs, ctx):
    if "value" in attrs:
        return [from_ir_tensor(attrs["value"])]
    if "value_int" in attrs:
        return [const(np.array(attrs["value_int"], dtype=np.int64))]
    if "value_ints" in attrs:
        return [const(np.array(list(attrs["value_ints"]), dtype=np.int64))]
    if "value_float" in attrs:
        return [const(np.array(attrs["value_float"], dtype=np.float32))]
    if "value_floats" in attrs:
        return [const(np.array(list(attrs["value_floats"]), dtype=np.float32))]
    if not any(k in attrs for k in ("value", "value_int", "value_ints", "value_float", "value_floats", "value_string", "value_strings", "sparse_value")):
        raise Bottom("Constant without a value attribute")
    raise NotEncoded("Constant form")


@op("ConstantOfShape")
def _const_of_shape(ins, attrs, ctx):
    shp = ints_of(ins[0], "ConstantOfShape shape")
    if any(s < 0 for s in shp):
        raise Bottom("negative dim")
    if "value" in attrs:
        v = from_ir_tensor(attrs["value"])
        if v.arr.size != 1:
            raise Bottom("ConstantOfShape value")
        return [SV(full(shp, v.arr.flat[0]), v.dtype)]
    return [SV(full(shp, Fraction(0)), DT.FLOAT)]


@op("Range")
def _range(ins, attrs, ctx):
    s, l, d = ins
    dt = _same_type(ins, "Range")
    if not (s.is_concrete() and l.is_concrete() and d.is_concrete()):
        raise NotEncoded("Range with symbolic bounds (data-dependent shape)")
    s0, l0, d0 = s.item(), l.item(), d.item()
    if d0 == 0:
        raise Bottom("Range delta 0")
    import math
    n = max(0, math.ceil((Fraction(l0) - Fraction(s0)) / Fraction(d0)))
    vals = [s0 + j * d0 for j in range(n)]
    out = np.empty((n,), dtype=object)
    for j, v in enumerate(vals):
        out[j] = v
    return [SV(out, dt)]


@op("Dropout")
def _dropout(ins, attrs, ctx):
    """inference: identity + all-true mask.  training (constant or symbolic flag): y = x * mask / (1 - ratio) where the
    random mask is an uninterpreted Boolean function of the element position, ratio and seed attribute (the same
    function on both sides of a comparison)."""
    x = ins[0]
    k = x.kind
    ratio_sv = ins[1] if len(ins) > 1 and ins[1] is not None else None
    training = ins[2] if len(ins) > 2 and ins[2] is not None else None
    if ctx.opset < 12 and (ratio_sv is not None or training is not None):
        raise Bottom("Dropout inputs need opset 12")
    identity = [SV(x.arr.copy(), x.dtype, x.mag)]
    if ctx.n_outputs > 1:
        identity.append(SV(full(x.shape, True), DT.BOOL))
    if training is None:
        return identity
    t = training.item()
    if not is_sym(t) and not bool(t):
        return identity
    if ratio_sv is None:
        ratio = Fraction(1, 2)
    else:
        if not ratio_sv.is_concrete():
            raise NotEncoded("Dropout with symbolic ratio")
        ratio = Fraction(ratio_sv.item())
    if ratio == 0:
        return identity
    if ratio == 1:
        raise NotEncoded("Dropout ratio 1")
    if k != "f":
        raise Bottom("Dropout on non-float")
    scale = 1 / (1 - ratio)
    seed = attrs.get("seed", "noseed")
    tag = f"dropout_mask_seed{seed}_r{str(float(ratio)).replace('.', 'p')}"
    out = np.empty(x.shape, dtype=object)
    mask = np.empty(x.shape, dtype=object)
    for n_, idx in enumerate(np.ndindex(*x.shape)):
        mk = _uf(ctx, tag, n_, out="b")
        dropped = e_ite(mk, e_mul(x.arr[idx], scale, k), zero(k), k)
        if is_sym(t):
            out[idx] = e_ite(t, dropped, x.arr[idx], k)
            mask[idx] = z3.If(t, mk, z3.BoolVal(True))
        else:
            out[idx] = dropped
            mask[idx] = mk
    outs = [SV(out, x.dtype)]
    if ctx.n_outputs > 1:
        outs.append(SV(mask, DT.BOOL))
    return outs


@op("CumSum")
def _cumsum(ins, attrs, ctx):
    x, ax = ins
    r = x.arr.ndim
    axis = _norm_axis(ints_of(ax, "cumsum axis")[0], r)
    excl, rev = int(attrs.get("exclusive", 0)), int(attrs.get("reverse", 0))
    k = x.kind
    moved = np.moveaxis(x.arr, axis, 0)
    n = moved.shape[0]
    out = np.empty(moved.shape, dtype=object)
    order = list(range(n - 1, -1, -1)) if rev else list(range(n))
    acc = full(moved.shape[1:], zero(k))
    for j in order:
        if excl:
            out[j] = acc
            acc = ew(lambda a, b: e_add(a, b, k), acc, moved[j])
        else:
            acc = ew(lambda a, b: e_add(a, b, k), acc, moved[j])
            out[j] = acc
    return [SV(np.moveaxis(out, 0, axis).copy(), x.dtype)]


@op("Trilu")
def _trilu(ins, attrs, ctx):
    x = ins[0]
    kk = ints_of(ins[1], "trilu k")[0] if len(ins) > 1 and ins[1] is not None else 0
    upper = int(attrs.get("upper", 1))
    if x.arr.ndim < 2:
        raise Bottom("Trilu rank")
    z = zero(x.kind)
    out = x.arr.copy()
    for pos in np.ndindex(*x.shape):
        i, j = pos[-2], pos[-1]
        keep = (j - i >= kk) if upper else (j - i <= kk)
        if not keep:
            out[pos] = z
    return [SV(out, x.dtype)]


@op("OneHot")
def _onehot(ins, attrs, ctx):
    ind, depth, vals = ins
    d = ints_of(depth, "onehot depth")[0]
    axis = int(attrs.get("axis", -1))
    r = ind.arr.ndim + 1
    axis = _norm_axis(axis, r)
    if vals.arr.shape != (2,):
        raise Bottom("OneHot values")
    off, on = vals.arr[0], vals.arr[1]
    k = vals.kind
    ik = ind.kind
    out_shape = ind.shape[:axis] + (d,) + ind.shape[axis:]
    out = np.empty(out_shape, dtype=object)
    for pos in np.ndindex(*out_shape):
        src = pos[:axis] + pos[axis + 1:]
        j = pos[axis]
        iv = ind.arr[src]
        if ik == "f":
            iv = cast_el(iv, "f", "i")
        hit = e_or(e_eq(iv, j, "i"), e_eq(iv, j - d, "i"))
        out[pos] = e_ite(hit, on, off, k)
    return [SV(out, vals.dtype)]


@op("Pad")
def _pad(ins, attrs, ctx):
    x = ins[0]
    r = x.arr.ndim
    mode = attrs.get("mode", "constant")
    if isinstance(mode, bytes):
        mode = mode.decode()
    if mode != "constant":
        raise NotEncoded("Pad mode " + str(mode))
    if ctx.opset < 11:
        # Pad-2: pads and the fill value are attributes
        if len(ins) != 1 or "pads" not in attrs:
            raise Bottom("Pad < 11 takes one input and a pads attribute")
        pads = [int(p) for p in attrs["pads"]]
        cval = _f(attrs.get("value", 0.0)) if x.kind == "f" else zero(x.kind)
    else:
        if "pads" in attrs or "value" in attrs:
            raise Bottom("Pad >= 11 has no pads/value attributes")
        pads = ints_of(ins[1], "pads")
        cval = ins[2].item() if len(ins) > 2 and ins[2] is not None else zero(x.kind)
    axes = None
    if len(ins) > 3 and ins[3] is not None:
        if ctx.opset < 18:
            raise Bottom("Pad axes needs opset 18")
        axes = [_norm_axis(a, r) for a in ints_of(ins[3], "pad axes")]
    if axes is None:
        axes = list(range(r))
    if len(pads) != 2 * len(axes):
        raise Bottom("Pad pads length")
    before = [0] * r
    after = [0] * r
    for j, a in enumerate(axes):
        before[a] = pads[j]
        after[a] = pads[j + len(axes)]
    cur = x.arr
    # negative pads crop
    sl = []
    for a in range(r):
        lo = -before[a] if before[a] < 0 else 0
        hi = x.shape[a] + after[a] if after[a] < 0 else x.shape[a]
        if hi < lo:
            raise Bottom("Pad crops more than the dim")
        sl.append(slice(lo, hi))
    cur = cur[tuple(sl)]
    out_shape = [cur.shape[a] + max(before[a], 0) + max(after[a], 0) for a in range(r)]
    out = full(out_shape, cval)
    dst = tuple(slice(max(before[a], 0), max(before[a], 0) + cur.shape[a]) for a in range(r))
    out[dst] = cur
    return [SV(out, x.dtype)]


# ------------------------------------------------------------------ reductions
def _reduce(fn, init=None, post=None, pre=None):
    def impl(ins, attrs, ctx):
        x = ins[0]
        r = x.arr.ndim
        k = x.kind
        since = 13 if ctx.node_op == "ReduceSum" else 18
        axes = _axes_arg(ins, attrs, ctx, 1, since)
        keep = int(attrs.get("keepdims", 1))
        noop = int(attrs.get("noop_with_empty_axes", 0))
        if axes is None or len(axes) == 0:
            if noop and (ctx.opset >= since):
                return [SV(x.arr.copy(), x.dtype, x.mag)]
            axes = list(range(r))
        axes = sorted({_norm_axis(a, r) for a in axes})
        rest = [a for a in range(r) if a not in axes]
        moved = np.transpose(x.arr, rest + axes)
        out_shape = [x.shape[a] for a in rest]
        red_n = int(np.prod([x.shape[a] for a in axes], dtype=np.int64))
        flat = moved.reshape(out_shape + [red_n])
        out = np.empty(out_shape, dtype=object)
        for pos in np.ndindex(*out_shape):
            vec = list(flat[pos])
            if pre:
                vec = [pre(v, k) for v in vec]
            if not vec:
                if init is None:
                    raise Bottom("reduction over empty axis without identity")
                acc = init(k)
            else:
                acc = vec[0]
                for v in vec[1:]:
                    acc = fn(acc, v, k)
            if post:
                acc = post(acc, len(vec), k)
            out[pos] = acc
        if keep:
            kshape = [1 if a in axes else x.shape[a] for a in range(r)]
            out = out.reshape(kshape)
        return [SV(out, x.dtype)]
    return impl


def _mean_post(acc, n, k):
    if n == 0:
        raise NotEncoded("mean of empty")
    if k != "f":
        raise NotEncoded("integer ReduceMean")
    return e_mul(acc, Fraction(1, n), k)


OPS["ReduceSum"] = _reduce(e_add, init=zero)
OPS["ReduceMean"] = _reduce(e_add, post=_mean_post)
OPS["ReduceMin"] = _reduce(e_min)
OPS["ReduceMax"] = _reduce(e_max)
OPS["ReduceProd"] = _reduce(e_mul, init=one)
OPS["ReduceL1"] = _reduce(e_add, init=zero, pre=lambda v, k: e_abs(v, k))
OPS["ReduceSumSquare"] = _reduce(e_add, init=zero, pre=lambda v, k: e_mul(v, v, k))


def _arg(fn_better):
    def impl(ins, attrs, ctx):
        x = ins[0]
        r = x.arr.ndim
        k = x.kind
        axis = _norm_axis(int(attrs.get("axis", 0)), r)
        keep = int(attrs.get("keepdims", 1))
        last = int(attrs.get("select_last_index", 0))
        moved = np.moveaxis(x.arr, axis, -1)
        out = np.empty(moved.shape[:-1], dtype=object)
        n = moved.shape[-1]
        if n == 0:
            raise Bottom("arg-reduction over empty axis")
        for pos in np.ndindex(*out.shape):
            best_v, best_i = moved[pos + (0,)], 0
            for j in range(1, n):
                v = moved[pos + (j,)]
                better = fn_better(v, best_v, k, last)
                best_i = e_ite(better, j, best_i, "i")
                best_v = e_ite(better, v, best_v, k)
            out[pos] = best_i
        if keep:
            out = np.expand_dims(out, axis)
        return [SV(out.copy(), DT.INT64)]
    return impl


OPS["ArgMax"] = _arg(lambda v, b, k, last: e_le(b, v, k) if last else e_lt(b, v, k))
OPS["ArgMin"] = _arg(lambda v, b, k, last: e_le(v, b, k) if last else e_lt(v, b, k))


# ------------------------------------------------------------------ linear algebra
def _dot(avec, bvec, k):
    acc = zero(k)
    for a, b in zip(avec, bvec):
        acc = e_add(acc, e_mul(a, b, k), k)
    return acc


def _matmul_arr(a, b, k):
    if a.ndim == 0 or b.ndim == 0:
        raise Bottom("MatMul on scalar")
    a2 = a.reshape((1,) + a.shape) if a.ndim == 1 else a
    b2 = b.reshape(b.shape + (1,)) if b.ndim == 1 else b
    if a2.shape[-1] != b2.shape[-2]:
        raise Bottom("MatMul inner dims")
    try:
        batch = np.broadcast_shapes(a2.shape[:-2], b2.shape[:-2])
    except ValueError as e:
        raise Bottom("MatMul batch dims") from e
    A = np.broadcast_to(a2, batch + a2.shape[-2:])
    B = np.broadcast_to(b2, batch + b2.shape[-2:])
    out = np.empty(batch + (a2.shape[-2], b2.shape[-1]), dtype=object)
    for pos in np.ndindex(*batch):
        for i in range(a2.shape[-2]):
            for j in range(b2.shape[-1]):
                out[pos + (i, j)] = _dot(A[pos][i, :], B[pos][:, j], k)
    if a.ndim == 1:
        out = out.reshape(out.shape[:-2] + (out.shape[-1],))
    if b.ndim == 1:
        out = out.reshape(out.shape[:-1])
    return out


@op("MatMul")
def _matmul(ins, attrs, ctx):
    a, b = ins
    dt = _same_type([a, b], "MatMul")
    k = kind(dt)
    if k == "b":
        raise Bottom("MatMul on bool")
    arr = _matmul_arr(a.arr, b.arr, k)
    mag = _matmul_arr(_mag(a), _mag(b), "f") if ctx.track_mag and k == "f" else None
    return [SV(arr, dt, mag)]


@op("Gemm")
def _gemm(ins, attrs, ctx):
    a, b = ins[0], ins[1]
    c = ins[2] if len(ins) > 2 else None
    dt = _same_type([a, b] + ([c] if c is not None else []), "Gemm")
    k = kind(dt)
    alpha, beta = _f(attrs.get("alpha", 1.0)), _f(attrs.get("beta", 1.0))
    tA, tB = int(attrs.get("transA", 0)), int(attrs.get("transB", 0))
    if a.arr.ndim != 2 or b.arr.ndim != 2:
        raise Bottom("Gemm rank")

    def run(A, B, C, al, be):
        A = A.T if tA else A
        B = B.T if tB else B
        y = _matmul_arr(A, B, k)
        if al != 1:
            y = ew(lambda v: e_mul(v, al if k == "f" else int(al), k), y)
        if C is not None:
            cc = C if be == 1 else ew(lambda v: e_mul(v, be if k == "f" else int(be), k), C)
            try:
                np.broadcast_shapes(cc.shape, y.shape)
            except ValueError as e:
                raise Bottom("Gemm C broadcast") from e
            if np.broadcast_shapes(cc.shape, y.shape) != y.shape:
                raise Bottom("Gemm C not unidirectionally broadcastable")
            y = ew(lambda u, v: e_add(u, v, k), y, cc)
        return y
    arr = run(a.arr, b.arr, None if c is None else c.arr, alpha, beta)
    mag = None
    if ctx.track_mag and k == "f":
        mag = run(_mag(a), _mag(b), None if c is None else _mag(c), abs(alpha), abs(beta))
    return [SV(arr, dt, mag)]


def _conv_pads(attrs, spatial, kshape, strides, dil, in_shape):
    auto = attrs.get("auto_pad", "NOTSET")
    if isinstance(auto, bytes):
        auto = auto.decode()
    n = len(spatial)
    if auto == "NOTSET":
        pads = attrs.get("pads")
        pads = [0] * (2 * n) if pads is None else [int(p) for p in pads]
        if len(pads) != 2 * n or any(p < 0 for p in pads):
            raise Bottom("Conv pads")
        return pads
    if "pads" in attrs and any(int(p) for p in attrs["pads"]):
        raise Bottom("pads with auto_pad")
    if auto == "VALID":
        return [0] * (2 * n)
    pads_b, pads_e = [], []
    for i in range(n):
        out = -(-in_shape[i] // strides[i])
        total = max(0, (out - 1) * strides[i] + (kshape[i] - 1) * dil[i] + 1 - in_shape[i])
        if auto == "SAME_UPPER":
            b = total // 2
        elif auto == "SAME_LOWER":
            b = total - total // 2
        else:
            raise Bottom("auto_pad value")
        pads_b.append(b)
        pads_e.append(total - b)
    return pads_b + pads_e


def _conv_arr(X, W, Bv, attrs, k):
    if X.ndim < 3 or W.ndim != X.ndim:
        raise Bottom("Conv ranks")
    N, C = X.shape[0], X.shape[1]
    M, Cg = W.shape[0], W.shape[1]
    nsp = X.ndim - 2
    if nsp > 2:
        raise NotEncoded("Conv 3-D")
    group = int(attrs.get("group", 1))
    if group < 1 or C != Cg * group or M % group:
        raise Bottom("Conv channels/group")
    kshape = list(W.shape[2:])
    if "kernel_shape" in attrs and [int(v) for v in attrs["kernel_shape"]] != kshape:
        raise Bottom("kernel_shape mismatch")
    strides = [int(v) for v in attrs.get("strides", [1] * nsp)]
    dil = [int(v) for v in attrs.get("dilations", [1] * nsp)]
    if len(strides) != nsp or len(dil) != nsp or any(s < 1 for s in strides) or any(d < 1 for d in dil):
        raise Bottom("Conv strides/dilations")
    in_sp = list(X.shape[2:])
    pads = _conv_pads(attrs, in_sp, kshape, strides, dil, in_sp)
    out_sp = []
    for i in range(nsp):
        eff = (kshape[i] - 1) * dil[i] + 1
        o = (in_sp[i] + pads[i] + pads[i + nsp] - eff) // strides[i] + 1
        if o < 0:
            o = 0
        out_sp.append(o)
    if Bv is not None and Bv.shape != (M,):
        raise Bottom("Conv bias shape")
    out = np.empty([N, M] + out_sp, dtype=object)
    mg = M // group
    z = zero(k)
    for n in range(N):
        for m in range(M):
            g = m // mg
            for opos in np.ndindex(*out_sp):
                acc = Bv[m] if Bv is not None else z
                for c in range(Cg):
                    ci = g * Cg + c
                    for kpos in np.ndindex(*kshape):
                        ipos = []
                        ok = True
                        for i in range(nsp):
                            p = opos[i] * strides[i] - pads[i] + kpos[i] * dil[i]
                            if not (0 <= p < in_sp[i]):
                                ok = False
                                break
                            ipos.append(p)
                        if ok:
                            acc = e_add(acc, e_mul(X[(n, ci) + tuple(ipos)], W[(m, c) + kpos], k), k)
                out[(n, m) + opos] = acc
    return out


def _conv_transpose_arr(X, W, Bv, attrs, k):
    """ONNX ConvTranspose: W is [C, M/group, k...]; out[o] += x[i] * w[k] with o = i*stride + k*dilation - pad_begin"""
    if X.ndim < 3 or W.ndim != X.ndim:
        raise Bottom("ConvTranspose ranks")
    N, C = X.shape[0], X.shape[1]
    nsp = X.ndim - 2
    if nsp > 2:
        raise NotEncoded("ConvTranspose 3-D")
    group = int(attrs.get("group", 1))
    if group < 1 or W.shape[0] != C or C % group:
        raise Bottom("ConvTranspose channels/group")
    Mg = W.shape[1]
    M = Mg * group
    Cg = C // group
    kshape = list(W.shape[2:])
    if "kernel_shape" in attrs and [int(v) for v in attrs["kernel_shape"]] != kshape:
        raise Bottom("kernel_shape mismatch")
    strides = [int(v) for v in attrs.get("strides", [1] * nsp)]
    dil = [int(v) for v in attrs.get("dilations", [1] * nsp)]
    opad = [int(v) for v in attrs.get("output_padding", [0] * nsp)]
    if len(strides) != nsp or len(dil) != nsp or len(opad) != nsp or any(s < 1 for s in strides) or any(d < 1 for d in dil):
        raise Bottom("ConvTranspose strides/dilations/output_padding")
    if any(opad[i] < 0 or opad[i] >= max(strides[i], dil[i]) for i in range(nsp)):
        raise Bottom("output_padding must be smaller than stride or dilation")
    auto = attrs.get("auto_pad", "NOTSET")
    if isinstance(auto, bytes):
        auto = auto.decode()
    in_sp = list(X.shape[2:])
    eff = [(kshape[i] - 1) * dil[i] + 1 for i in range(nsp)]
    if "output_shape" in attrs:
        oshape = [int(v) for v in attrs["output_shape"]][-nsp:]
        total = [strides[i] * (in_sp[i] - 1) + opad[i] + eff[i] - oshape[i] for i in range(nsp)]
        if any(t < 0 for t in total):
            raise NotEncoded("ConvTranspose output_shape larger than the unpadded result")
        if auto == "SAME_UPPER":
            pb = [t // 2 for t in total]
        else:
            pb = [t - t // 2 for t in total]
        pe = [t - b for t, b in zip(total, pb)]
        out_sp = oshape
    elif auto in ("NOTSET", "VALID"):
        pads = attrs.get("pads")
        pads = [0] * (2 * nsp) if (pads is None or auto == "VALID") else [int(p) for p in pads]
        if len(pads) != 2 * nsp or any(p < 0 for p in pads):
            raise Bottom("ConvTranspose pads")
        pb, pe = pads[:nsp], pads[nsp:]
        out_sp = [strides[i] * (in_sp[i] - 1) + opad[i] + eff[i] - pb[i] - pe[i] for i in range(nsp)]
        if any(o < 0 for o in out_sp):
            raise Bottom("ConvTranspose negative output size")
    else:
        raise NotEncoded("ConvTranspose auto_pad " + str(auto))
    if Bv is not None and Bv.shape != (M,):
        raise Bottom("ConvTranspose bias shape")
    z = zero(k)
    out = np.empty([N, M] + out_sp, dtype=object)
    for idx in np.ndindex(*out.shape):
        out[idx] = Bv[idx[1]] if Bv is not None else z
    for n in range(N):
        for c in range(C):
            g = c // Cg
            for m in range(Mg):
                oc = g * Mg + m
                for ipos in np.ndindex(*in_sp):
                    for kpos in np.ndindex(*kshape):
                        opos = []
                        ok = True
                        for i in range(nsp):
                            o = ipos[i] * strides[i] + kpos[i] * dil[i] - pb[i]
                            if not (0 <= o < out_sp[i]):
                                ok = False
                                break
                            opos.append(o)
                        if ok:
                            t = (n, oc) + tuple(opos)
                            out[t] = e_add(out[t], e_mul(X[(n, c) + ipos], W[(c, m) + kpos], k), k)
    return out


@op("ConvTranspose")
def _conv_transpose(ins, attrs, ctx):
    x, w = ins[0], ins[1]
    b = ins[2] if len(ins) > 2 and ins[2] is not None else None
    dt = _same_type([x, w] + ([b] if b is not None else []), "ConvTranspose")
    k = kind(dt)
    if k != "f":
        raise Bottom("ConvTranspose needs float")
    arr = _conv_transpose_arr(x.arr, w.arr, None if b is None else b.arr, attrs, k)
    mag = None
    if ctx.track_mag:
        mag = _conv_transpose_arr(_mag(x), _mag(w), None if b is None else _mag(b), attrs, "f")
    return [SV(arr, dt, mag)]


@op("ConvInteger")
def _conv_integer(ins, attrs, ctx):
    """y = Conv(int32(x) - x_zero_point, int32(w) - w_zero_point): the padding of the convolution contributes nothing, i.e.
    it stands for x_zero_point (onnx.reference and onnxruntime agree)"""
    x, w = ins[0], ins[1]
    xzp = ins[2] if len(ins) > 2 and ins[2] is not None else None
    wzp = ins[3] if len(ins) > 3 and ins[3] is not None else None
    for t, what in ((x, "x"), (w, "w")):
        if t.dtype not in (DT.UINT8, DT.INT8):
            raise Bottom(f"ConvInteger {what} type")
    X = x.arr
    if xzp is not None:
        if xzp.dtype != x.dtype or xzp.arr.size != 1:
            raise Bottom("ConvInteger x_zero_point")
        z = xzp.arr.reshape(-1)[0]
        X = ew(lambda u: e_sub(u, z, "i"), X)
    W = w.arr
    if wzp is not None:
        if wzp.dtype != w.dtype:
            raise Bottom("ConvInteger w_zero_point type")
        if wzp.arr.size == 1:
            zw = wzp.arr.reshape(-1)[0]
            W = ew(lambda u: e_sub(u, zw, "i"), W)
        elif wzp.arr.shape == (w.arr.shape[0],):
            W = W.copy()
            for idx in np.ndindex(*W.shape):
                W[idx] = e_sub(W[idx], wzp.arr[idx[0]], "i")
        else:
            raise Bottom("ConvInteger w_zero_point shape")
    return [SV(_conv_arr(X, W, None, attrs, "i"), DT.INT32)]


def _round_half_even_int(r):
    """real (Fraction or z3 Real) -> integer (int or z3 Int), ties to even"""
    if not is_sym(r):
        fr = Fraction(r)
        fl = fr.__floor__()
        d = fr - fl
        if d > Fraction(1, 2) or (d == Fraction(1, 2) and fl % 2 == 1):
            return fl + 1
        return fl
    fl = z3.ToInt(r)
    d = r - z3.ToReal(fl)
    return z3.If(d > z3.RealVal("1/2"), fl + 1, z3.If(z3.And(d == z3.RealVal("1/2"), fl % 2 == 1), fl + 1, fl))


@op("QLinearConv")
def _qlinear_conv(ins, attrs, ctx):
    """y = saturate(round_half_even(conv(x - x_zp, w - w_zp) [+ B]) * x_scale * w_scale / y_scale) + y_zp); scales must be concrete"""
    if len(ins) < 8:
        raise Bottom("QLinearConv inputs")
    x, xs, xz, w, ws, wz, ys, yz = ins[:8]
    b = ins[8] if len(ins) > 8 and ins[8] is not None else None
    for t in (x, w, xz, wz, yz):
        if t.dtype not in (DT.UINT8, DT.INT8):
            raise Bottom("QLinearConv quantized type")
    if x.dtype != xz.dtype or w.dtype != wz.dtype:
        raise Bottom("QLinearConv zero point type")
    for t in (xs, ws, ys):
        if not t.is_concrete():
            raise NotEncoded("QLinearConv with a symbolic scale")
    if xs.arr.size != 1 or ys.arr.size != 1 or xz.arr.size != 1 or yz.arr.size != 1:
        raise Bottom("QLinearConv per-tensor parameters")
    M = w.arr.shape[0]
    if ws.arr.size not in (1, M) or wz.arr.size not in (1, M):
        raise Bottom("QLinearConv per-channel parameter shape")
    zx = xz.arr.reshape(-1)[0]
    X = ew(lambda u: e_sub(u, zx, "i"), x.arr)
    W = w.arr.copy()
    for idx in np.ndindex(*W.shape):
        W[idx] = e_sub(W[idx], wz.arr.reshape(-1)[idx[0] if wz.arr.size > 1 else 0], "i")
    if b is not None and (b.dtype != DT.INT32 or b.shape != (M,)):
        raise Bottom("QLinearConv bias")
    acc = _conv_arr(X, W, None if b is None else b.arr, attrs, "i")
    lo, hi = (0, 255) if yz.dtype == DT.UINT8 else (-128, 127)
    zy = yz.arr.reshape(-1)[0]
    out = np.empty(acc.shape, dtype=object)
    for idx in np.ndindex(*acc.shape):
        sc = Fraction(xs.arr.reshape(-1)[0]) * Fraction(ws.arr.reshape(-1)[idx[1] if ws.arr.size > 1 else 0]) / Fraction(ys.arr.reshape(-1)[0])
        a = acc[idx]
        r = (z3.ToReal(a) * Z(sc, "f")) if is_sym(a) else Fraction(a) * sc
        q = e_add(_round_half_even_int(r), zy, "i")
        if is_sym(q):
            q = z3.If(q < lo, lo, z3.If(q > hi, hi, q))
        else:
            q = max(lo, min(hi, q))
        out[idx] = q
    return [SV(out, yz.dtype)]


@op("Conv")
def _conv(ins, attrs, ctx):
    x, w = ins[0], ins[1]
    b = ins[2] if len(ins) > 2 and ins[2] is not None else None
    dt = _same_type([x, w] + ([b] if b is not None else []), "Conv")
    k = kind(dt)
    if k != "f":
        raise Bottom("Conv needs float")
    arr = _conv_arr(x.arr, w.arr, None if b is None else b.arr, attrs, k)
    mag = None
    if ctx.track_mag:
        mag = _conv_arr(_mag(x), _mag(w), None if b is None else _mag(b), attrs, "f")
    return [SV(arr, dt, mag)]


@op("BatchNormalization")
def _batchnorm(ins, attrs, ctx):
    x, scale, bias, mean, var = ins[:5]
    if x.arr.ndim < 2:
        raise Bottom("BatchNorm rank")
    C = x.shape[1]
    for t in (scale, bias, mean, var):
        if t.shape != (C,):
            raise Bottom("BatchNorm parameter shape")
    eps = float(attrs.get("epsilon", 1e-5))
    k = "f"
    if int(attrs.get("training_mode", 0)):
        # opset >= 14: Y is normalised with the statistics of the batch; running_mean / running_var are blended with them
        if ctx.opset < 14:
            raise NotEncoded("BatchNormalization training mode before opset 14")
        if ctx.n_outputs != 3:
            raise Bottom("BatchNormalization training mode needs 3 outputs")
        mom = Fraction(float(np.float32(attrs.get("momentum", 0.9))))
        cnt = x.arr.size // C if C else 0
        if cnt == 0:
            raise NotEncoded("BatchNormalization training mode on an empty batch")
        out = np.empty(x.shape, dtype=object)
        rm = np.empty((C,), dtype=object)
        rv = np.empty((C,), dtype=object)
        for c in range(C):
            elems = [x.arr[pos] for pos in np.ndindex(*x.shape) if pos[1] == c]
            tot = elems[0]
            for e in elems[1:]:
                tot = e_add(tot, e, k)
            cm = e_mul(tot, Fraction(1, cnt), k)
            sq = None
            for e in elems:
                d = e_sub(e, cm, k)
                dd = e_mul(d, d, k)
                sq = dd if sq is None else e_add(sq, dd, k)
            cv = e_mul(sq, Fraction(1, cnt), k)
            inv_c = _uf(ctx, f"rsqrt_eps{str(eps).replace('.', 'p').replace('-', 'm')}", cv)
            for pos in np.ndindex(*x.shape):
                if pos[1] == c:
                    out[pos] = e_add(e_mul(e_mul(e_sub(x.arr[pos], cm, k), inv_c, k), scale.arr[c], k), bias.arr[c], k)
            rm[c] = e_add(e_mul(mean.arr[c], mom, k), e_mul(cm, 1 - mom, k), k)
            rv[c] = e_add(e_mul(var.arr[c], mom, k), e_mul(cv, 1 - mom, k), k)
        return [SV(out, x.dtype), SV(rm, mean.dtype), SV(rv, var.dtype)]
    inv = []
    for c in range(C):
        v = var.arr[c]
        if is_sym(v):
            inv.append(_uf(ctx, f"rsqrt_eps{str(eps).replace('.', 'p').replace('-', 'm')}", v))
        else:
            # numeric evaluation in the tensor's own precision (what a runtime / the folder computes)
            npdt = np.float64 if x.dtype == DT.DOUBLE else np.float32
            inv.append(Fraction(float(npdt(1.0) / np.sqrt(npdt(float(v)) + npdt(eps)))))
    out = np.empty(x.shape, dtype=object)
    mag = np.empty(x.shape, dtype=object) if ctx.track_mag else None
    xm = _mag(x) if ctx.track_mag else None
    for pos in np.ndindex(*x.shape):
        c = pos[1]
        t = e_mul(e_sub(x.arr[pos], mean.arr[c], k), inv[c], k)
        out[pos] = e_add(e_mul(t, scale.arr[c], k), bias.arr[c], k)
        if mag is not None:
            mt = e_mul(e_add(xm[pos], e_abs(mean.arr[c], k), k), e_abs(inv[c], k), k)
            mag[pos] = e_add(e_mul(mt, e_abs(scale.arr[c], k), k), e_abs(bias.arr[c], k), k)
    return [SV(out, x.dtype, mag)]


@op("GroupNormalization")
def _groupnorm(ins, attrs, ctx):
    x, scale, bias = ins
    G = int(attrs["num_groups"])
    eps = float(attrs.get("epsilon", 1e-5))
    if x.arr.ndim < 2:
        raise Bottom("GroupNorm rank")
    N, C = x.shape[0], x.shape[1]
    if G < 1 or C % G:
        raise Bottom("GroupNorm groups")
    per_channel = ctx.opset >= 21
    want = (C,) if per_channel else (G,)
    if scale.shape != want or bias.shape != want:
        raise Bottom(f"GroupNorm scale/bias shape {scale.shape} for opset {ctx.opset}")
    if "stash_type" in attrs and ctx.opset < 21:
        raise Bottom("stash_type needs opset 21")
    cg = C // G
    k = "f"
    out = np.empty(x.shape, dtype=object)
    tag = f"gn_rsqrt_eps{str(eps).replace('.', 'p').replace('-', 'm')}"
    for n in range(N):
        for g in range(G):
            grp = x.arr[n, g * cg:(g + 1) * cg]
            flat = list(grp.flat)
            cnt = len(flat)
            if cnt == 0:
                continue
            s = zero(k)
            for v in flat:
                s = e_add(s, v, k)
            mean = e_mul(s, Fraction(1, cnt), k)
            vs = zero(k)
            for v in flat:
                d = e_sub(v, mean, k)
                vs = e_add(vs, e_mul(d, d, k), k)
            var = e_mul(vs, Fraction(1, cnt), k)
            inv = _uf(ctx, tag, var)
            for ci in range(cg):
                c = g * cg + ci
                sc = scale.arr[c] if per_channel else scale.arr[g]
                bi = bias.arr[c] if per_channel else bias.arr[g]
                for pos in np.ndindex(*x.shape[2:]):
                    full_pos = (n, c) + pos
                    out[full_pos] = e_add(e_mul(e_mul(e_sub(x.arr[full_pos], mean, k), inv, k), sc, k), bi, k)
    return [SV(out, x.dtype)]


# ------------------------------------------------------------------ uninterpreted structured ops (C10)
def _uf_tensor_op(name, attr_names, input_count):
    """op whose result is an uninterpreted function of every input element and the listed attributes;
    output shape must be provided by shape rule `shape_fn`."""
    def impl(ins, attrs, ctx, shape_fn=None):
        raise NotEncoded(name)
    return impl


@op("DFT")
def _dft(ins, attrs, ctx):
    x = ins[0]
    dft_length = ins[1] if len(ins) > 1 and ins[1] is not None else None
    if ctx.opset >= 20:
        if "axis" in attrs:
            raise Bottom("DFT-20 has no axis attribute")
        axis = ints_of(ins[2], "dft axis")[0] if len(ins) > 2 and ins[2] is not None else -2
    else:
        if len(ins) > 2 and ins[2] is not None:
            raise Bottom("DFT-17 has no axis input")
        axis = int(attrs.get("axis", 1))
    r = x.arr.ndim
    axis = _norm_axis(axis, r)
    if dft_length is not None:
        raise NotEncoded("DFT with dft_length")
    inverse, onesided = int(attrs.get("inverse", 0)), int(attrs.get("onesided", 0))
    if onesided:
        raise NotEncoded("DFT onesided")
    if x.shape[-1] not in (1, 2):
        raise Bottom("DFT last dim")
    out_shape = x.shape[:-1] + (2,)
    out = np.empty(out_shape, dtype=object)
    moved_in = np.moveaxis(x.arr, axis, 0)
    n = x.shape[axis]
    tag = f"dft_inv{inverse}_n{n}_c{x.shape[-1]}"
    rest_shape = moved_in.shape[1:-1]
    omoved = np.moveaxis(out, axis, 0)
    for rest in np.ndindex(*rest_shape):
        sig = [moved_in[(j,) + rest + (c,)] for j in range(n) for c in range(x.shape[-1])]
        for j in range(n):
            for c in range(2):
                omoved[(j,) + rest + (c,)] = _uf(ctx, f"{tag}_o{j}_{c}", *sig)
    return [SV(out, x.dtype)]


@op("GridSample")
def _gridsample(ins, attrs, ctx):
    x, grid = ins
    mode = attrs.get("mode", "linear" if ctx.opset >= 20 else "bilinear")
    if isinstance(mode, bytes):
        mode = mode.decode()
    if ctx.opset >= 20:
        if mode not in ("linear", "nearest", "cubic"):
            raise Bottom(f"GridSample-20 mode {mode}")
        canon = mode
    else:
        if mode not in ("bilinear", "nearest", "bicubic"):
            raise Bottom(f"GridSample-16 mode {mode}")
        canon = {"bilinear": "linear", "bicubic": "cubic", "nearest": "nearest"}[mode]
    pm = attrs.get("padding_mode", "zeros")
    pm = pm.decode() if isinstance(pm, bytes) else pm
    ac = int(attrs.get("align_corners", 0))
    if x.arr.ndim != 4 or grid.arr.ndim != 4 or grid.shape[-1] != 2 or grid.shape[0] != x.shape[0]:
        raise NotEncoded("GridSample shapes")
    N, C = x.shape[0], x.shape[1]
    Ho, Wo = grid.shape[1], grid.shape[2]
    out = np.empty((N, C, Ho, Wo), dtype=object)
    tag = f"gridsample_{canon}_{pm}_{ac}"
    for n in range(N):
        for c in range(C):
            img = list(x.arr[n, c].flat)
            for h in range(Ho):
                for w in range(Wo):
                    out[n, c, h, w] = _uf(ctx, tag + f"_{x.shape[2]}x{x.shape[3]}", grid.arr[n, h, w, 0], grid.arr[n, h, w, 1], *img)
    return [SV(out, x.dtype)]


# ------------------------------------------------------------------ sequences
@op("SequenceConstruct")
def _seq_construct(ins, attrs, ctx):
    dt = _same_type(ins, "SequenceConstruct")
    return [Seq(ins, dt)]


@op("SequenceEmpty")
def _seq_empty(ins, attrs, ctx):
    return [Seq([], DT(int(attrs.get("dtype", int(DT.FLOAT)))))]


def _seq_pos(seq: Seq, pos_sv, allow_end=False):
    n = len(seq.items)
    p = ints_of(pos_sv, "sequence position")[0]
    hi = n if allow_end else n - 1
    if not (-n <= p <= hi):
        raise Bottom("sequence position out of range")
    return p + n if p < 0 else p


@op("SequenceInsert")
def _seq_insert(ins, attrs, ctx):
    seq, t = ins[0], ins[1]
    if seq.dtype is not None and t.dtype != seq.dtype:
        raise Bottom("SequenceInsert type")
    items = list(seq.items)
    if len(ins) > 2 and ins[2] is not None:
        items.insert(_seq_pos(seq, ins[2], allow_end=True), t)
    else:
        items.append(t)
    return [Seq(items, t.dtype)]


@op("SequenceAt")
def _seq_at(ins, attrs, ctx):
    seq = ins[0]
    return [seq.items[_seq_pos(seq, ins[1])]]


@op("SequenceErase")
def _seq_erase(ins, attrs, ctx):
    seq = ins[0]
    items = list(seq.items)
    if not items:
        raise Bottom("erase from empty sequence")
    p = _seq_pos(seq, ins[1]) if len(ins) > 1 and ins[1] is not None else len(items) - 1
    del items[p]
    return [Seq(items, seq.dtype)]


@op("SequenceLength")
def _seq_len(ins, attrs, ctx):
    return [const(np.array(len(ins[0].items), dtype=np.int64))]


@op("ConcatFromSequence")
def _concat_from_seq(ins, attrs, ctx):
    seq = ins[0]
    if not seq.items:
        raise Bottom("ConcatFromSequence of empty sequence")
    axis = int(attrs["axis"])
    if int(attrs.get("new_axis", 0)):
        r = seq.items[0].arr.ndim + 1
        axis = _norm_axis(axis, r)
        items = [_mv(i, lambda a: np.expand_dims(a, axis)) for i in seq.items]
    else:
        items = seq.items
    return OPS["Concat"](items, {"axis": axis}, ctx)


@op("SplitToSequence")
def _split_to_seq(ins, attrs, ctx):
    x = ins[0]
    r = x.arr.ndim
    axis = _norm_axis(int(attrs.get("axis", 0)), r)
    keep = int(attrs.get("keepdims", 1))
    d = x.shape[axis]
    if len(ins) > 1 and ins[1] is not None:
        sp = ins[1]
        vals = ints_of(sp, "split")
        if sp.arr.ndim == 0:
            size = vals[0]
            if size <= 0:
                raise Bottom("split size")
            split = [size] * (d // size) + ([d % size] if d % size else [])
        else:
            split = vals
            if sum(split) != d:
                raise Bottom("split sum")
        squeeze = False
    else:
        split = [1] * d
        squeeze = not keep
    items, pos = [], 0
    for s in split:
        sl = [slice(None)] * r
        sl[axis] = slice(pos, pos + s)
        part = _mv(x, lambda a, sl=tuple(sl): a[sl].copy())
        if squeeze:
            part = _mv(part, lambda a: np.squeeze(a, axis=axis))
        items.append(part)
        pos += s
    return [Seq(items, x.dtype)]
