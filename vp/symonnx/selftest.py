"""Translator validation for symonnx: the symbolic operator rules are pushed through concrete data and
compared with (a) the expected outputs of the ONNX backend node tests shipped with the installed
`onnx` package and (b) onnxruntime on generated models.  Concrete inputs run through the *same*
rule code that is used symbolically (numeric shortcut disabled); in mode (c) inputs are symbolic and
the resulting z3 terms are evaluated under the concrete assignment.

A mismatch is a harness error (exit 3), never a verdict about /repo.
"""
from __future__ import annotations

import glob
import os
import sys
import time
from fractions import Fraction

import numpy as np
import onnx
import onnx_ir as ir
import z3
from onnx import numpy_helper

from . import interp as I
from . import ops as O
from .values import DT, SV, Bottom, Malformed, NotEncoded, Seq, const, fresh, is_sym, to_numpy

NODE_DATA = os.path.join(os.path.dirname(onnx.__file__), "backend", "test", "data", "node")


def _tol_equal(got: np.ndarray, want: np.ndarray) -> bool:
    if got.shape != want.shape:
        return False
    if want.dtype.kind == "f":
        return bool(np.allclose(got.astype(np.float64), want.astype(np.float64), rtol=1e-4, atol=1e-5))
    return bool(np.array_equal(got, want))


def sv_to_np(sv: SV) -> np.ndarray:
    return to_numpy(sv)


def eval_terms(sv: SV, subst) -> SV:
    out = np.empty(sv.shape, dtype=object)
    for i in np.ndindex(*sv.shape):
        v = sv.arr[i]
        if is_sym(v):
            v = z3.simplify(z3.substitute(v, *subst))
            if z3.is_true(v):
                v = True
            elif z3.is_false(v):
                v = False
            elif z3.is_int_value(v):
                v = v.as_long()
            elif z3.is_rational_value(v):
                v = Fraction(v.numerator_as_long(), v.denominator_as_long())
            else:
                raise NotEncoded("term did not fold")
        out[i] = v
    return SV(out, sv.dtype)


def run_concrete(model: ir.Model, feeds: dict, symbolic_inputs: bool):
    inputs, subst = {}, []
    for v in model.graph.inputs:
        if v.name not in feeds:
            continue
        a = feeds[v.name]
        c = const(a)
        if symbolic_inputs:
            s = fresh(v.name, a.shape, c.dtype)
            for i in np.ndindex(*a.shape):
                from .values import Z
                subst.append((s.arr[i], Z(c.arr[i], c.kind)))
            inputs[v.name] = s
        else:
            inputs[v.name] = c
    res = I.interpret(model, inputs, loop_bound=8, numeric=False)
    if len(res) != 1:
        raise NotEncoded("split")
    r = res[0]
    if r["bottom"]:
        raise Bottom(r["bottom"])
    if r["uf"]:
        raise NotEncoded("uninterpreted " + ",".join(sorted(r["uf"])))
    outs = []
    for o in r["outs"]:
        if isinstance(o, Seq):
            outs.append([sv_to_np(eval_terms(t, subst) if subst else t) for t in o.items])
        else:
            outs.append(sv_to_np(eval_terms(o, subst) if subst else o))
    return outs


def node_tests(limit=None, symbolic=False, verbose=False):
    """ONNX backend node tests for ops that symonnx encodes."""
    stats = {"run": 0, "passed": 0, "skipped_not_encoded": 0, "failed": []}
    dirs = sorted(glob.glob(os.path.join(NODE_DATA, "test_*")))
    for d in dirs:
        if limit and stats["run"] >= limit:
            break
        try:
            mp = onnx.load(os.path.join(d, "model.onnx"))
        except Exception:
            continue
        ops_used = {n.op_type for n in mp.graph.node}
        if not ops_used <= (set(O.OPS) | {"If", "Loop"}) or any(n.domain not in ("", "ai.onnx") for n in mp.graph.node):
            continue
        if mp.functions:
            continue
        try:
            feeds, wants = {}, []
            ds = os.path.join(d, "test_data_set_0")
            n_in = len(glob.glob(os.path.join(ds, "input_*.pb")))
            n_out = len(glob.glob(os.path.join(ds, "output_*.pb")))
            ok_types = True
            for i in range(n_in):
                t = onnx.TensorProto()
                t.ParseFromString(open(os.path.join(ds, f"input_{i}.pb"), "rb").read())
                if not t.name and i < len(mp.graph.input):
                    t.name = mp.graph.input[i].name
                feeds[mp.graph.input[i].name] = numpy_helper.to_array(t)
            for i in range(n_out):
                t = onnx.TensorProto()
                t.ParseFromString(open(os.path.join(ds, f"output_{i}.pb"), "rb").read())
                wants.append(numpy_helper.to_array(t))
        except Exception:
            continue  # sequence / optional typed test data
        if any(a.dtype.kind not in "biuf" or (a.dtype.kind == "f" and not np.all(np.isfinite(a))) for a in list(feeds.values()) + wants):
            continue
        if any(a.dtype.kind in "iu" and a.size and (np.abs(a.astype(np.float64)).max() > 2**31) for a in list(feeds.values()) + wants):
            continue  # wrap-around cases are outside the claim
        if any(a.dtype in (np.uint8, np.int8, np.uint16, np.int16) for a in wants) and not ops_used & {"QLinearConv"}:
            continue  # narrow integer wrap/saturation is outside the claim (QLinearConv saturates by definition: encoded)
        try:
            model = ir.from_proto(mp)
            got = run_concrete(model, feeds, symbolic)
        except (NotEncoded, Bottom, Malformed) as e:
            stats["skipped_not_encoded"] += 1
            if verbose:
                print("skip", os.path.basename(d), type(e).__name__, e)
            continue
        except Exception as e:  # noqa: BLE001
            stats["run"] += 1
            stats["failed"].append(f"{os.path.basename(d)}: exception {type(e).__name__}: {e}")
            continue
        stats["run"] += 1
        ok = len(got) == len(wants) and all(not isinstance(g, list) and _tol_equal(g, w) for g, w in zip(got, wants))
        if ok:
            stats["passed"] += 1
        else:
            stats["failed"].append(os.path.basename(d))
    return stats


def main(argv):
    t0 = time.time()
    st = node_tests(verbose="-v" in argv)
    print("node tests (concrete through symbolic rules):", {k: (v if k != "failed" else v[:40]) for k, v in st.items()})
    st2 = node_tests(symbolic=True)
    print("node tests (symbolic inputs, terms evaluated):", {k: (v if k != "failed" else v[:40]) for k, v in st2.items()})
    print(f"wall {time.time()-t0:.1f}s")
    return 3 if (st["failed"] or st2["failed"]) else 0


if __name__ == "__main__":
    sys.exit(main(sys.argv[1:]))
