"""symonnx graph interpreter: ir.Model -> symbolic outputs (per feasible control-flow split).

* scoping and well-formedness are checked while interpreting (Malformed);
* node arity / attribute names are validated against the schema of (op, declared opset) — so a
  node shaped for another opset evaluates to ⊥ (Bottom) under the opset the model declares;
* nodes whose operands are all concrete are evaluated numerically with onnx.reference (exactly what
  the constant folder computes) and re-abstracted as exact rationals;
* If with a symbolic condition merges branches with ite (equal shapes) or splits the run;
* Loop is unrolled to `loop_bound` iterations with an unwinding assumption;
* model-local functions are inlined at interpretation time (ref_attr_name substituted).
"""
from __future__ import annotations

import math
from fractions import Fraction

import numpy as np
import onnx
import onnx.reference.ops
import onnx_ir as ir
import z3

from . import ops as O
from .values import (DT, SV, Bottom, Malformed, NotEncoded, Seq, Z, const, e_and, e_ite, e_lt, e_not, ew,
                     from_ir_tensor, is_sym, kind, to_numpy)


class Split(Exception):
    """an If condition needs a case split (branches with different result shapes)"""

    def __init__(self, cond):
        self.cond = cond


class Interp:
    def __init__(self, model: ir.Model, loop_bound=3, track_mag=False, strict_subgraph_outputs=False,
                 check_schema=True, decisions=None, numeric=True):
        self.model = model
        self.numeric = numeric
        self.loop_bound = loop_bound
        self.track_mag = track_mag
        self.strict = strict_subgraph_outputs
        self.check_schema = check_schema
        self.assumptions: list = []
        self.unwind: list = []
        self.decisions = decisions or []  # list of (z3 cond, bool) forced If outcomes
        self.functions = {}
        for f in model.functions.values():
            self.functions[(f.domain, f.name, f.overload)] = f
        self.uf_used: set = set()
        self.numeric_nodes = 0
        self.symbolic_nodes = 0
        self.defined_names: set = set()

    # -------------------------------------------------------------- entry
    def run(self, inputs: dict) -> list:
        g = self.model.graph
        opsets = dict(g.opset_imports)
        env = {}
        self.defined_names = set()
        init_names = set()
        for name, v in g.initializers.items():
            init_names.add(name)
        input_names = [v.name for v in g.inputs]
        if len(set(input_names)) != len(input_names):
            raise Malformed("duplicate graph inputs")
        for v in g.inputs:
            if v.name not in inputs:
                if v.name in g.initializers and g.initializers[v.name].const_value is not None:
                    env[v.name] = from_ir_tensor(g.initializers[v.name].const_value)
                else:
                    raise Malformed(f"no value for graph input {v.name}")
            else:
                env[v.name] = inputs[v.name]
            self._define(v.name)
        for name, v in g.initializers.items():
            if name in env:
                continue  # initializer that is also a graph input: the supplied (symbolic) value wins
            if v.const_value is None:
                raise Malformed(f"initializer {name} without value")
            env[name] = from_ir_tensor(v.const_value)
            self._define(name)
        outs = self._run_nodes(g, env, opsets, top=True)
        return outs

    def _define(self, name):
        if name in self.defined_names:
            raise Malformed(f"value {name!r} defined more than once (SSA violated)")
        self.defined_names.add(name)

    # -------------------------------------------------------------- graphs
    def _run_nodes(self, graph, env, opsets, top=False, fn_attrs=None):
        for node in graph:
            ins = []
            for v in node.inputs:
                if v is None or v.name == "":
                    ins.append(None)
                elif v.name not in env:
                    raise Malformed(f"{node.op_type}: input {v.name!r} used before definition / not in scope")
                else:
                    ins.append(env[v.name])
            while ins and ins[-1] is None:
                ins.pop()
            outs = self._eval_node(node, ins, env, opsets, fn_attrs)
            used = [o for o in node.outputs if o.name != ""]
            if len(outs) < len([o for o in node.outputs]):
                # optional outputs not produced
                pass
            for i, o in enumerate(node.outputs):
                if o.name == "":
                    continue
                if i >= len(outs):
                    raise NotEncoded(f"{node.op_type}: output {i} not produced by the encoding")
                if not fn_attrs_scope(fn_attrs):
                    self._define(o.name)
                elif o.name in env:
                    raise Malformed(f"function body redefines {o.name!r}")
                env[o.name] = outs[i]
        res = []
        names = [o.name for o in graph.outputs]
        if len(set(names)) != len(names) and not fn_attrs_scope(fn_attrs):
            # also for subgraphs: runtimes are free to (and onnxruntime does) mis-handle duplicate outputs
            raise Malformed(f"duplicate graph outputs {names}")
        for o in graph.outputs:
            if o.name not in env:
                raise Malformed(f"graph output {o.name!r} is not produced")
            res.append(env[o.name])
        return res

    def _run_subgraph(self, graph, outer_env, opsets, bound: dict, fn_attrs):
        env = dict(outer_env)
        local_defs = set()
        for name, val in bound.items():
            if name in outer_env and not fn_attrs_scope(fn_attrs):
                raise Malformed(f"subgraph input {name!r} shadows an outer value")
            env[name] = val
            local_defs.add(name)
        for name, v in graph.initializers.items():
            if name in env and name not in bound:
                if not fn_attrs_scope(fn_attrs):
                    raise Malformed(f"subgraph initializer {name!r} shadows an outer value")
            if v.const_value is None:
                raise Malformed(f"subgraph initializer {name} without value")
            env[name] = from_ir_tensor(v.const_value)
            local_defs.add(name)
        before = set(env)
        # run (definitions are local to this evaluation: the same body may run many times)
        saved = self.defined_names
        self.defined_names = set(saved)
        try:
            for n in local_defs:
                if n in self.defined_names and not fn_attrs_scope(fn_attrs):
                    raise Malformed(f"subgraph redefines outer name {n!r}")
                self.defined_names.add(n)
            outs = self._run_nodes(graph, env, opsets, fn_attrs=fn_attrs)
            if self.strict:
                produced = (set(env) - before) | local_defs
                node_outs = {o.name for nd in graph for o in nd.outputs}
                for o in graph.outputs:
                    if o.name not in node_outs and o.name not in local_defs:
                        raise Malformed(f"subgraph output {o.name!r} is not produced inside the subgraph")
        finally:
            self.defined_names = saved
        return outs

    # -------------------------------------------------------------- nodes
    def _attrs(self, node, fn_attrs):
        out = {}
        for name, a in node.attributes.items():
            if getattr(a, "ref_attr_name", None):
                if fn_attrs is None or a.ref_attr_name not in fn_attrs:
                    if fn_attrs is not None:
                        continue  # optional attribute not supplied by the caller
                    raise Malformed(f"attribute reference {a.ref_attr_name} outside a function")
                out[name] = fn_attrs[a.ref_attr_name]
                continue
            t = a.type
            if t == ir.AttributeType.GRAPH:
                out[name] = a.as_graph()
            elif t == ir.AttributeType.TENSOR:
                out[name] = a.as_tensor()
            elif t in (ir.AttributeType.INTS, ir.AttributeType.FLOATS, ir.AttributeType.STRINGS):
                out[name] = list(a.value)
            elif t == ir.AttributeType.STRING:
                out[name] = a.value
            else:
                out[name] = a.value
        return out

    def _schema_check(self, node, n_inputs, attrs, version):
        try:
            schema = onnx.defs.get_schema(node.op_type, version, node.domain or "")
        except Exception:
            raise Bottom(f"no schema for {node.domain}::{node.op_type} at opset {version}") from None
        if n_inputs < schema.min_input or n_inputs > schema.max_input:
            raise Bottom(f"{node.op_type}-{schema.since_version}: {n_inputs} inputs, schema allows {schema.min_input}..{schema.max_input}")
        n_out = len(node.outputs)
        if n_out > schema.max_output or n_out < schema.min_output:
            raise Bottom(f"{node.op_type}: {n_out} outputs not allowed by schema")
        for a in attrs:
            if a not in schema.attributes:
                raise Bottom(f"{node.op_type}-{schema.since_version}: unknown attribute {a!r} for declared opset {version}")
        for an, ad in schema.attributes.items():
            if ad.required and an not in attrs:
                raise Bottom(f"{node.op_type}: required attribute {an} missing")
        return schema

    def _eval_node(self, node, ins, env, opsets, fn_attrs):
        domain = node.domain or ""
        if domain in ("ai.onnx",):
            domain = ""
        attrs = self._attrs(node, fn_attrs)
        fkey = (node.domain, node.op_type, node.overload)
        if fkey in self.functions or (domain, node.op_type, node.overload) in self.functions:
            f = self.functions.get(fkey) or self.functions[(domain, node.op_type, node.overload)]
            return self._call_function(f, ins, attrs)
        if domain not in opsets and not (domain == "" and "" in opsets):
            raise Malformed(f"domain {domain!r} used by {node.op_type} has no opset import")
        if domain != "":
            from .wellformed import SCHEMA_DOMAINS
            if domain not in SCHEMA_DOMAINS:
                raise Malformed(f"{domain}::{node.op_type} is neither an operator of a known domain nor a function of the model")
            raise NotEncoded(f"op {domain}::{node.op_type}")
        version = opsets[""]
        if self.check_schema:
            self._schema_check(node, len(ins), attrs, version)
        op_type = node.op_type
        if op_type == "If":
            return self._if(node, ins, attrs, env, opsets, fn_attrs)
        if op_type == "Loop":
            return self._loop(node, ins, attrs, env, opsets, fn_attrs)
        if op_type in ("Scan", "SequenceMap"):
            raise NotEncoded(op_type)
        ctx = O.Ctx(version, self.track_mag)
        ctx.n_outputs = len(node.outputs)
        ctx.node_op = op_type
        # all-concrete operands: numeric evaluation (mirrors constant folding)
        if self.numeric and op_type not in ("Constant", "ConstantOfShape", "Shape", "Size", "Identity") and ins and all(
            i is None or (isinstance(i, SV) and i.is_concrete()) for i in ins
        ) and any(i is not None for i in ins) and op_type not in _NO_NUMERIC:
            r = self._numeric(node, ins, attrs, version)
            if r is not None:
                self.numeric_nodes += 1
                return r
        impl = O.OPS.get(op_type)
        if impl is None:
            raise NotEncoded(f"op {op_type}")
        self.symbolic_nodes += 1
        try:
            outs = impl(ins, attrs, ctx)
        except (AttributeError, TypeError) as e:
            # a tensor where a sequence is expected (or the reverse), None for a required input, ...: the model is ill-typed
            kinds = [type(i).__name__ for i in ins]
            raise Malformed(f"ill-typed operands for {op_type}: {kinds} ({type(e).__name__}: {str(e)[:120]})") from e
        self.assumptions.extend(ctx.assumptions)
        self.uf_used |= ctx.uf_used
        return outs

    def _numeric(self, node, ins, attrs, version):
        try:
            cls = onnx.reference.ops.load_op(node.domain or "", node.op_type, version)
        except Exception:
            return None
        np_ins = []
        try:
            for i in ins:
                np_ins.append(None if i is None else to_numpy(i))
        except NotEncoded:
            return None
        kw = {}
        for k, v in attrs.items():
            if isinstance(v, ir.Graph):
                return None
            if hasattr(v, "numpy") and not isinstance(v, (int, float, str, bytes, list)):
                kw[k] = ir.serde.serialize_tensor(v)
            else:
                kw[k] = v
        try:
            with np.errstate(all="ignore"):
                res = cls.eval(*np_ins, **kw)
        except Exception:
            return None  # fall back to the symbolic rule, which decides Bottom / NotEncoded
        if not isinstance(res, (tuple, list)):
            res = (res,)
        outs = []
        for r in res:
            if isinstance(r, list):
                outs.append(Seq([const(np.asarray(t)) for t in r]))
                continue
            r = np.asarray(r)
            if r.dtype.kind == "f" and not np.all(np.isfinite(r)):
                raise NotEncoded("NaN/inf produced by constant subexpression")
            if r.dtype.kind not in "biuf":
                raise NotEncoded(f"numeric result dtype {r.dtype}")
            outs.append(const(r))
        return outs

    # -------------------------------------------------------------- functions
    def _call_function(self, f: ir.Function, ins, attrs):
        fattrs = {}
        for name, a in f.attributes.items():
            if name in attrs:
                fattrs[name] = attrs[name]
            elif a.value is not None:
                t = a.type
                if t == ir.AttributeType.TENSOR:
                    fattrs[name] = a.as_tensor()
                elif t in (ir.AttributeType.INTS, ir.AttributeType.FLOATS, ir.AttributeType.STRINGS):
                    fattrs[name] = list(a.value)
                else:
                    fattrs[name] = a.value
        for name in attrs:
            if name not in f.attributes:
                raise Bottom(f"function {f.name}: unknown attribute {name}")
        if len(ins) > len(f.inputs):
            raise Bottom(f"function {f.name}: too many inputs")
        env = {}
        for i, v in enumerate(f.inputs):
            env[v.name] = ins[i] if i < len(ins) else None
        # missing trailing inputs are 'absent'
        env = {k: v for k, v in env.items()}
        fopsets = dict(f.opset_imports)
        saved = self.defined_names
        self.defined_names = set()
        try:
            # function-body scoping is separate from the caller's
            body_env = {k: v for k, v in env.items() if v is not None}
            outs = self._run_nodes(f.graph if hasattr(f, "graph") else f, body_env, fopsets, fn_attrs=fattrs)
        finally:
            self.defined_names = saved
        return outs

    # -------------------------------------------------------------- control flow
    def _cond_scalar(self, sv):
        if not isinstance(sv, SV) or sv.dtype != DT.BOOL:
            raise Bottom("condition must be a bool tensor")
        if sv.arr.size != 1:
            raise Bottom("condition must have one element")
        return sv.arr.reshape(())[()]

    def _if(self, node, ins, attrs, env, opsets, fn_attrs):
        c = self._cond_scalar(ins[0])
        tb, eb = attrs.get("then_branch"), attrs.get("else_branch")
        if tb is None or eb is None:
            raise Malformed("If without both branches")
        if tb.inputs or eb.inputs:
            raise Malformed("If branch with inputs")
        if not is_sym(c):
            return self._run_subgraph(tb if c else eb, env, opsets, {}, fn_attrs)
        for dc, val in self.decisions:
            if dc.eq(c):
                self.assumptions.append(c if val else z3.Not(c))
                return self._run_subgraph(tb if val else eb, env, opsets, {}, fn_attrs)
        mark = len(self.assumptions)
        t = self._guarded(lambda: self._run_subgraph(tb, env, opsets, {}, fn_attrs), c, mark)
        mark = len(self.assumptions)
        e = self._guarded(lambda: self._run_subgraph(eb, env, opsets, {}, fn_attrs), z3.Not(c), mark)
        if len(t) != len(e) or len(t) != len(node.outputs):
            raise Malformed("If branches / node output count mismatch")
        outs = []
        for a, b in zip(t, e):
            if isinstance(a, Seq) or isinstance(b, Seq):
                if not (isinstance(a, Seq) and isinstance(b, Seq)) or len(a.items) != len(b.items):
                    raise Split(c)
                items = []
                for x, y in zip(a.items, b.items):
                    if x.shape != y.shape or x.dtype != y.dtype:
                        raise Split(c)
                    items.append(self._ite_sv(c, x, y))
                outs.append(Seq(items, a.dtype))
                continue
            if a.dtype != b.dtype:
                raise Bottom("If branches have different element types")
            if a.shape != b.shape:
                raise Split(c)
            outs.append(self._ite_sv(c, a, b))
        return outs

    def _guarded(self, thunk, guard, mark):
        """run a branch; assumptions it adds only need to hold when the branch is taken"""
        try:
            r = thunk()
        except Bottom:
            # an error inside a branch taken under a symbolic condition: needs a split
            raise Split(guard if not z3.is_not(guard) else guard.arg(0)) from None
        new = self.assumptions[mark:]
        del self.assumptions[mark:]
        for a in new:
            self.assumptions.append(z3.Implies(guard, a))
        return r

    def _ite_sv(self, c, a: SV, b: SV) -> SV:
        k = a.kind
        arr = ew(lambda x, y: e_ite(c, x, y, k), a.arr, b.arr)
        mag = None
        if self.track_mag and k == "f":
            mag = ew(lambda x, y: e_ite(c, x, y, "f"), O._mag(a), O._mag(b))
        return SV(arr, a.dtype, mag)

    def _loop(self, node, ins, attrs, env, opsets, fn_attrs):
        body = attrs.get("body")
        if body is None:
            raise Malformed("Loop without body")
        M = ins[0] if len(ins) > 0 else None
        cond0 = ins[1] if len(ins) > 1 else None
        state = list(ins[2:])
        n_state = len(state)
        if len(body.inputs) != 2 + n_state:
            raise Malformed("Loop body input count")
        n_scan = len(body.outputs) - 1 - n_state
        if n_scan < 0 or len(node.outputs) != n_state + n_scan:
            raise Malformed("Loop body output count")
        names = [v.name for v in body.inputs]
        if M is not None:
            if M.kind != "i" or M.arr.size != 1:
                raise Bottom("Loop trip count")
            m = M.arr.reshape(())[()]
        else:
            m = None
        alive = True if cond0 is None else self._cond_scalar(cond0)
        scans = [[] for _ in range(n_scan)]
        K = self.loop_bound
        it = 0
        while True:
            go = alive
            if m is not None:
                go = e_and(go, e_lt(it, m, "i"))
            if not is_sym(go):
                if not go:
                    break
                if it >= max(K, 64):
                    raise NotEncoded("concrete loop longer than 64 iterations")
            else:
                if it >= K:
                    self.unwind.append(z3.Not(go))  # unwinding assumption (stated bound)
                    break
                if n_scan:
                    raise NotEncoded("Loop scan outputs with data-dependent trip count")
            bound = {names[0]: const(np.array(it, dtype=np.int64))}
            bound[names[1]] = SV(np.array(alive if is_sym(alive) else bool(alive), dtype=object).reshape(()), DT.BOOL)
            for n, s in zip(names[2:], state):
                bound[n] = s
            mark = len(self.assumptions)
            if is_sym(go):
                res = self._guarded(lambda: self._run_subgraph(body, env, opsets, bound, fn_attrs), go, mark)
            else:
                res = self._run_subgraph(body, env, opsets, bound, fn_attrs)
            new_alive = self._cond_scalar(res[0])
            new_state = res[1:1 + n_state]
            if is_sym(go):
                merged = []
                for a, b in zip(new_state, state):
                    if isinstance(a, Seq) or isinstance(b, Seq):
                        raise NotEncoded("sequence-typed loop state under symbolic trip count")
                    if a.shape != b.shape or a.dtype != b.dtype:
                        raise NotEncoded("loop state changes shape under symbolic trip count")
                    merged.append(self._ite_sv(go, a, b))
                state = merged
            else:
                state = list(new_state)
            for j in range(n_scan):
                scans[j].append(res[1 + n_state + j])
            alive = e_and(go, new_alive)
            it += 1
        outs = list(state)
        for j in range(n_scan):
            if not scans[j]:
                raise NotEncoded("empty scan output (shape unknown)")
            sh = {s.shape for s in scans[j]}
            if len(sh) != 1:
                raise Bottom("scan output shapes differ")
            arr = np.stack([s.arr for s in scans[j]], axis=0)
            outs.append(SV(arr, scans[j][0].dtype))
        return outs


_NO_NUMERIC = {"Dropout", "RandomNormal", "RandomUniform", "RandomNormalLike", "RandomUniformLike", "Multinomial", "Bernoulli",
               "If", "Loop", "Scan", "SequenceConstruct", "SequenceEmpty", "SequenceInsert", "SequenceAt", "SequenceErase",
               "SequenceLength", "ConcatFromSequence", "SplitToSequence", "DFT", "GridSample", "GroupNormalization",
               # the reference implementations of these do not enforce the specification's shape / index constraints
               # (e.g. an `updates` of the wrong shape is accepted when it is empty): always use the encoded rule
               "ScatterND", "ScatterElements", "GatherND", "GatherElements"}


def fn_attrs_scope(fn_attrs) -> bool:
    return fn_attrs is not None


def interpret(model: ir.Model, inputs: dict, loop_bound=3, track_mag=False, strict=False, check_schema=True, max_splits=8,
              numeric=True):
    """-> list of (path_constraints, outputs, info); path constraints include assumptions and the
    unwinding assumption separately in info."""
    results = []
    work = [[]]
    while work:
        dec = work.pop()
        if len(results) + len(work) > max_splits:
            raise NotEncoded("too many control-flow splits")
        it = Interp(model, loop_bound, track_mag, strict, check_schema, dec, numeric)
        try:
            outs = it.run(dict(inputs))
        except Split as s:
            if any(dc.eq(s.cond) for dc, _ in dec):
                raise NotEncoded("split on an already decided condition") from None
            work.append(dec + [(s.cond, True)])
            work.append(dec + [(s.cond, False)])
            continue
        except Bottom as b:
            results.append({"pc": [c if v else z3.Not(c) for c, v in dec], "bottom": str(b), "outs": None,
                            "assumptions": list(it.assumptions), "unwind": list(it.unwind), "uf": set(it.uf_used),
                            "numeric_nodes": it.numeric_nodes, "symbolic_nodes": it.symbolic_nodes})
            continue
        results.append({"pc": [c if v else z3.Not(c) for c, v in dec], "bottom": None, "outs": outs,
                        "assumptions": list(it.assumptions), "unwind": list(it.unwind), "uf": set(it.uf_used),
                        "numeric_nodes": it.numeric_nodes, "symbolic_nodes": it.symbolic_nodes})
    return results
