"""Helpers to load generated ONNX Script programs (the decorator needs real source files) and to
check eager == graph for one program / input-shape assignment."""
from __future__ import annotations

import hashlib
import importlib.util
import sys

import numpy as np
import onnx
import onnx_ir as ir
from onnx import helper as oh

from vp import common
from . import eager as E
from . import equiv as Q
from . import interp as I
from .values import DT, SV, Bottom, Malformed, NotEncoded, fresh

HEADER = (
    "from onnxscript import script, FLOAT, INT64, BOOL, DOUBLE, INT32, FLOAT16, graph\n"
    "from onnxscript import opset18 as op\n"
    "from onnxscript.onnx_types import *\n"
)


def load_source(src: str, tag: str):
    d = common.WORK / "scripts" / tag
    d.mkdir(parents=True, exist_ok=True)
    import os
    h = hashlib.sha256(src.encode()).hexdigest()[:12]
    name = f"vp_{tag}_{h}_{os.getpid()}"  # per-process file: parallel workers may generate identical sources
    p = d / f"{name}.py"
    tmp = d / f".{name}.tmp"
    tmp.write_text(src)
    os.replace(tmp, p)
    spec = importlib.util.spec_from_file_location(name, p)
    mod = importlib.util.module_from_spec(spec)
    sys.modules[name] = mod
    try:
        spec.loader.exec_module(mod)
    except BaseException:
        sys.modules.pop(name, None)
        raise
    return mod


def call_model(fn, attr_values: dict, input_types: list, opset_version=18) -> onnx.ModelProto:
    """a model with one node calling fn's FunctionProto with the given attribute values"""
    fp = fn.to_function_proto()
    ins = [oh.make_tensor_value_info(n, t, None) for n, t in zip(fp.input, input_types)]
    outs = [oh.make_value_info(n, onnx.TypeProto()) for n in fp.output]
    node = oh.make_node(fp.name, list(fp.input), list(fp.output), domain=fp.domain, **attr_values)
    g = oh.make_graph([node], "call", ins, outs)
    fps = [fp]
    seen = {(fp.domain, fp.name)}
    # called functions
    try:
        m0 = fn.to_model_proto()
        for f in m0.functions:
            if (f.domain, f.name) not in seen:
                fps.append(f)
                seen.add((f.domain, f.name))
    except Exception:
        pass
    opsets = {"": opset_version, fp.domain: 1}
    for f in fps:
        for oi in f.opset_import:
            opsets.setdefault(oi.domain, oi.version)
    m = oh.make_model(g, opset_imports=[oh.make_opsetid(d, v) for d, v in opsets.items()], functions=fps, ir_version=9)
    return m


def sym_inputs(specs):
    """specs: list of (name, dtype, shape) -> dict name -> SV of fresh symbols"""
    return {n: fresh(n, s, dt) for n, dt, s in specs}


def check_eager_vs_model(fn, model_proto, specs, attrs, stats: Q.Stats, loop_bound=3, strict=True):
    """-> verdict dict (see equiv.compare) + info"""
    inputs = sym_inputs(specs)
    box = Q.box_constraints(inputs)
    args = [E.SymTensor(inputs[n]) for n, _, _ in specs]
    eres, cut = E.eager_paths(fn, args, dict(attrs), max_depth=2 * loop_bound + 2, base_constraints=box, int_bound=loop_bound)
    eres_live = [r for r in eres if not r.get("cut")]
    try:
        model = ir.from_proto(model_proto)
    except Exception as e:  # noqa: BLE001 - a proto the real converter emitted and onnx_ir itself cannot read (e.g. a name defined twice)
        raise Malformed(f"the emitted proto cannot be deserialized: {type(e).__name__}: {str(e)[:300]}") from e
    names = [v.name for v in model.graph.inputs]
    if len(names) != len(specs):
        return {"verdict": "cex", "kind": "structure", "detail": f"model has {len(names)} inputs, function has {len(specs)} tensor parameters",
                "inputs": None}, {"eager_paths": len(eres), "cut": cut}
    ginputs = {gn: inputs[n] for gn, (n, _, _) in zip(names, specs)}
    gres = I.interpret(model, ginputs, loop_bound=loop_bound, strict=strict)
    # operator correspondence (side verdict, structural): every operator an eager path executes must be an operator of the exported
    # graph (its subgraphs and functions included) - "every operator and op call denotes the ONNX operator it is documented to map to".
    # Values are compared over the reals, where e.g. Not(Greater(a, b)) and LessOrEqual(a, b) agree; they differ on NaN.
    gops = set()

    def _walk(g):
        for n in g:
            gops.add(n.op_type)
            for a in n.attributes.values():
                if a.type == ir.AttributeType.GRAPH:
                    _walk(a.value)
                elif a.type == ir.AttributeType.GRAPHS:
                    for sg in a.value:
                        _walk(sg)
    _walk(model.graph)
    for f in model.functions.values():
        _walk(f)
    eops = set().union(*[set(r.get("eager_ops") or ()) for r in eres_live]) if eres_live else set()
    extra = sorted(eops - gops - {"Cast", "CastLike", "Identity", "Constant"})
    if extra:
        return {"verdict": "cex", "kind": "operator-correspondence", "inputs": None,
                "detail": f"eager evaluation executes operator(s) {extra} that the exported graph does not contain (graph operators: {sorted(gops)})"}, \
               {"eager_paths": len(eres), "cut": cut, "graph_splits": len(gres)}
    v = Q.compare(eres_live, gres, ginputs, stats)
    v["input_names"] = dict(zip(names, [n for n, _, _ in specs]))
    return v, {"eager_paths": len(eres), "cut": cut, "graph_splits": len(gres)}
