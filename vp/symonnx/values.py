"""symonnx values: dense tensors whose elements are exact concrete numbers or z3 terms.

Element representation (hybrid, so that shape computations and constants stay concrete):
  float dtypes  -> fractions.Fraction (exact value of the stored float) | z3 Real term
  integer dtypes-> int | z3 Int term
  BOOL          -> bool | z3 Bool term
Shapes are always concrete.  `mag` (optional) carries, per element, an upper bound of the magnitudes
that entered its computation (forward-error criterion, DESIGN.md §3.4).
"""
from __future__ import annotations

from fractions import Fraction

import numpy as np
import onnx_ir as ir
import z3

DT = ir.DataType
FLOATS = {DT.FLOAT, DT.DOUBLE, DT.FLOAT16, DT.BFLOAT16}
INTS = {DT.INT64, DT.INT32, DT.INT16, DT.INT8, DT.UINT8, DT.UINT16, DT.UINT32, DT.UINT64}
UNIT_ROUNDOFF = {DT.FLOAT: Fraction(1, 2**24), DT.DOUBLE: Fraction(1, 2**53), DT.FLOAT16: Fraction(1, 2**11),
                 DT.BFLOAT16: Fraction(1, 2**8)}


class Bottom(Exception):
    """the model raises a run-time error on these inputs (a first-class outcome)"""


class Malformed(Exception):
    """the graph is not well-formed ONNX (use before def, redefinition, bad scoping, ...)"""


class NotEncoded(Exception):
    """outside symonnx's encoding (op, dtype, data-dependent shape, ...): inconclusive, never a verdict"""


def kind(dt) -> str:
    dt = DT(dt)
    if dt in FLOATS:
        return "f"
    if dt in INTS:
        return "i"
    if dt == DT.BOOL:
        return "b"
    raise NotEncoded(f"dtype {dt}")


def is_sym(x) -> bool:
    return isinstance(x, z3.ExprRef)


def Z(x, k: str):
    """element -> z3 term of kind k"""
    if isinstance(x, z3.ExprRef):
        return x
    if k == "f":
        f = Fraction(x)
        return z3.RealVal(f"{f.numerator}/{f.denominator}") if f.denominator != 1 else z3.RealVal(f.numerator)
    if k == "i":
        return z3.IntVal(int(x))
    return z3.BoolVal(bool(x))


class SV:
    __slots__ = ("arr", "dtype", "mag")

    def __init__(self, arr, dtype, mag=None):
        if not (isinstance(arr, np.ndarray) and arr.dtype == object):
            a = np.empty(np.shape(arr), dtype=object)
            if a.shape == ():
                a[()] = arr if not isinstance(arr, np.ndarray) else arr[()]
            else:
                src = np.asarray(arr, dtype=object)
                for i in np.ndindex(*a.shape):
                    a[i] = src[i]
            arr = a
        self.arr = arr
        self.dtype = DT(dtype)
        self.mag = mag

    @property
    def shape(self):
        return self.arr.shape

    @property
    def kind(self):
        return kind(self.dtype)

    def is_concrete(self) -> bool:
        return not any(isinstance(v, z3.ExprRef) for v in self.arr.flat)

    def item(self):
        if self.arr.size != 1:
            raise Bottom("scalar expected")
        return self.arr.reshape(())[()]

    def __repr__(self):
        return f"SV({self.dtype.name}{list(self.shape)})"


class Seq:
    """ONNX sequence of tensors"""

    def __init__(self, items, dtype=None):
        self.items = list(items)
        self.dtype = dtype


# ------------------------------------------------------------------ construction
def _np_to_el(v, k):
    if k == "b":
        return bool(v)
    if k == "i":
        return int(v)
    f = float(v)
    if f != f or f in (float("inf"), float("-inf")):
        raise NotEncoded("NaN/inf constant")
    return Fraction(f)


def const(a: np.ndarray, dtype=None) -> SV:
    a = np.asarray(a)
    if dtype is None:
        try:
            dtype = DT.from_numpy(a.dtype)
        except Exception as e:
            raise NotEncoded(f"numpy dtype {a.dtype}") from e
    k = kind(dtype)
    out = np.empty(a.shape, dtype=object)
    if a.dtype.kind not in "biuf":
        a = a.astype(np.float64) if k == "f" else a.astype(np.int64)
    for i in np.ndindex(*a.shape):
        out[i] = _np_to_el(a[i], k)
    return SV(out, dtype)


def from_ir_tensor(t) -> SV:
    dt = DT(t.dtype)
    k = kind(dt)
    a = t.numpy()
    if a.dtype.kind not in "biuf":  # ml_dtypes (bfloat16, float8, ...)
        a = a.astype(np.float32)
    return const(a, dt)


def fresh(name: str, shape, dtype) -> SV:
    k = kind(dtype)
    out = np.empty(tuple(shape), dtype=object)
    mk = {"f": z3.Real, "i": z3.Int, "b": z3.Bool}[k]
    for i in np.ndindex(*out.shape):
        out[i] = mk(f"{name}[{','.join(map(str, i))}]")
    return SV(out, dtype)


def to_numpy(sv: SV) -> np.ndarray:
    """concrete SV -> numpy array in its declared dtype"""
    dt = sv.dtype
    npdt = dt.numpy()
    if npdt.kind not in "biuf":
        raise NotEncoded(f"numpy conversion of {dt}")
    out = np.empty(sv.shape, dtype=npdt)
    k = sv.kind
    for i in np.ndindex(*sv.shape):
        v = sv.arr[i]
        if isinstance(v, z3.ExprRef):
            raise ValueError("symbolic element")
        out[i] = float(v) if k == "f" else v
    return out


def ints_of(sv: SV, what="index") -> list:
    """concrete python ints of a (shape-carrying) tensor; symbolic -> NotEncoded"""
    out = []
    for v in sv.arr.flat:
        if isinstance(v, z3.ExprRef):
            v2 = z3.simplify(v)
            if z3.is_int_value(v2):
                v = v2.as_long()
            else:
                raise NotEncoded(f"data-dependent {what}")
        out.append(int(v))
    return out


# ------------------------------------------------------------------ element arithmetic
def _both_conc(a, b):
    return not isinstance(a, z3.ExprRef) and not isinstance(b, z3.ExprRef)


def e_add(a, b, k):
    return a + b if _both_conc(a, b) else Z(a, k) + Z(b, k)


def e_sub(a, b, k):
    return a - b if _both_conc(a, b) else Z(a, k) - Z(b, k)


def e_mul(a, b, k):
    if _both_conc(a, b):
        return a * b
    if not isinstance(a, z3.ExprRef) and a == 0:
        return a
    if not isinstance(b, z3.ExprRef) and b == 0:
        return b
    if not isinstance(a, z3.ExprRef) and a == 1:
        return b
    if not isinstance(b, z3.ExprRef) and b == 1:
        return a
    return Z(a, k) * Z(b, k)


def e_neg(a, k):
    return -a


def e_ite(c, a, b, k):
    if not isinstance(c, z3.ExprRef):
        return a if c else b
    if _both_conc(a, b) and a == b:
        return a
    return z3.If(c, Z(a, k), Z(b, k))


def e_lt(a, b, k):
    return a < b if _both_conc(a, b) else Z(a, k) < Z(b, k)


def e_le(a, b, k):
    return a <= b if _both_conc(a, b) else Z(a, k) <= Z(b, k)


def e_eq(a, b, k):
    return a == b if _both_conc(a, b) else Z(a, k) == Z(b, k)


def e_abs(a, k):
    if not isinstance(a, z3.ExprRef):
        return abs(a)
    return z3.If(a >= 0, a, -a)


def e_min(a, b, k):
    return e_ite(e_le(a, b, k), a, b, k)


def e_max(a, b, k):
    return e_ite(e_le(b, a, k), a, b, k)


def e_and(a, b):
    if _both_conc(a, b):
        return bool(a) and bool(b)
    if not isinstance(a, z3.ExprRef):
        return b if a else False
    if not isinstance(b, z3.ExprRef):
        return a if b else False
    return z3.And(a, b)


def e_or(a, b):
    if _both_conc(a, b):
        return bool(a) or bool(b)
    if not isinstance(a, z3.ExprRef):
        return True if a else b
    if not isinstance(b, z3.ExprRef):
        return True if b else a
    return z3.Or(a, b)


def e_not(a):
    return (not a) if not isinstance(a, z3.ExprRef) else z3.Not(a)


def e_xor(a, b):
    if _both_conc(a, b):
        return bool(a) != bool(b)
    return z3.Xor(Z(a, "b"), Z(b, "b"))


def e_trunc_to_int(v):
    """real -> int, truncating toward zero (ONNX Cast float->int)"""
    if not isinstance(v, z3.ExprRef):
        f = Fraction(v)
        return int(f)  # int() truncates toward zero
    return z3.If(v >= 0, z3.ToInt(v), -z3.ToInt(-v))


def e_floor(v):
    if not isinstance(v, z3.ExprRef):
        return Fraction(Fraction(v).__floor__())
    return z3.ToReal(z3.ToInt(v))


def e_ceil(v):
    if not isinstance(v, z3.ExprRef):
        return Fraction(Fraction(v).__ceil__())
    return -z3.ToReal(z3.ToInt(-v))


def e_idiv_trunc(a, b):
    """ONNX integer Div: C-style truncation.  b == 0 is a runtime error handled by the caller."""
    if _both_conc(a, b):
        q = abs(a) // abs(b)
        return q if (a >= 0) == (b >= 0) else -q
    a, b = Z(a, "i"), Z(b, "i")
    absdiv = (z3.If(a >= 0, a, -a)) / (z3.If(b >= 0, b, -b))
    return z3.If((a >= 0) == (b >= 0), absdiv, -absdiv)


def e_imod_py(a, b):
    """ONNX Mod fmod=0 on ints: result has the sign of the divisor (Python/numpy mod)"""
    if _both_conc(a, b):
        return a % b
    a, b = Z(a, "i"), Z(b, "i")
    r = a % b  # SMT-LIB mod: 0 <= r < |b|
    return z3.If(z3.And(r != 0, b < 0), r + b, r)


def e_imod_c(a, b):
    """fmod=1 on ints: C fmod, sign of the dividend"""
    if _both_conc(a, b):
        r = abs(a) % abs(b)
        return r if a >= 0 else -r
    a, b = Z(a, "i"), Z(b, "i")
    r = z3.If(a >= 0, a, -a) % z3.If(b >= 0, b, -b)
    return z3.If(a >= 0, r, -r)


def cast_el(v, src_k: str, dst_k: str):
    if src_k == dst_k:
        return v
    sym = isinstance(v, z3.ExprRef)
    if dst_k == "f":
        if src_k == "i":
            return z3.ToReal(v) if sym else Fraction(v)
        return z3.If(v, z3.RealVal(1), z3.RealVal(0)) if sym else Fraction(1 if v else 0)
    if dst_k == "i":
        if src_k == "f":
            return e_trunc_to_int(v)
        return z3.If(v, z3.IntVal(1), z3.IntVal(0)) if sym else (1 if v else 0)
    # -> bool
    if sym:
        return v != 0
    return v != 0


# ------------------------------------------------------------------ array helpers
def ew(f, *arrs):
    """elementwise with numpy broadcasting over object arrays"""
    try:
        bs = np.broadcast_arrays(*arrs)
    except ValueError as e:
        raise Bottom(f"broadcast: {e}") from e
    out = np.empty(bs[0].shape, dtype=object)
    for i in np.ndindex(*out.shape):
        out[i] = f(*[b[i] for b in bs])
    return out


def full(shape, v) -> np.ndarray:
    out = np.empty(tuple(shape), dtype=object)
    for i in np.ndindex(*out.shape):
        out[i] = v
    return out


def zero(k):
    return {"f": Fraction(0), "i": 0, "b": False}[k]


def one(k):
    return {"f": Fraction(1), "i": 1, "b": True}[k]
