"""ONNX Script programs for C01/C02/C13/C14: a hand-written core that exhausts the interaction shapes
named in the properties, and a seeded random generator over a typed grammar."""
from __future__ import annotations

import random
from dataclasses import dataclass, field

from vp.symonnx.values import DT

T = {"F": DT.FLOAT, "I": DT.INT64, "B": DT.BOOL, "D": DT.DOUBLE}


@dataclass
class Program:
    name: str
    src: str          # module source (without header); entry function is `f`
    specs: list       # list of alternatives; each: list of (param, dtype, shape)
    attrs: list = field(default_factory=lambda: [{}])   # alternatives of attribute kwargs
    tags: tuple = ()
    entry: str = "f"


def S(text: str):
    """'x:F:2,3 y:I:' -> [(x, FLOAT, (2,3)), (y, INT64, ())]"""
    out = []
    for part in text.split():
        n, t, sh = part.split(":")
        out.append((n, T[t], tuple(int(d) for d in sh.split(",") if d != "")))
    return out


CORE: list[Program] = []


def _dec(src: str) -> str:
    return src.replace("@script()", "@script(default_opset=op)")


def P(name, src, specs, attrs=None, tags=()):
    CORE.append(Program(name, _dec(src.strip("\n") + "\n"), [S(s) for s in specs], attrs or [{}], tuple(tags)))


# ---------------------------------------------------------------- straight-line, literals, casts
P("arith", '''
@script()
def f(x: FLOAT[...], y: FLOAT[...]):
    return (x + y) * 2.0 - x / 4.0
''', ["x:F:2 y:F:2", "x:F:2,3 y:F:1,3", "x:F: y:F:2", "x:F:0 y:F:0"])

P("literal_left", '''
@script()
def f(x: FLOAT[...]):
    return 1.5 - x
''', ["x:F:2", "x:F:"])

P("literal_int_operand", '''
@script()
def f(x: INT64[...]):
    return (x + 1) * 3 - 2
''', ["x:I:2", "x:I:"])

P("literal_beside_int_from_float_literal", '''
@script()
def f(x: FLOAT[...], k: INT64[...]):
    y = op.Cast(k, to=1)
    return x * y + 2
''', ["x:F:2 k:I:2"])

P("intdiv_mod", '''
@script()
def f(x: INT64[...], y: INT64[...]):
    return x / y + x % y
''', ["x:I:2 y:I:2"])

P("float_mod", '''
@script()
def f(x: INT64[...]):
    return x % 3 + (0 - x) % 3
''', ["x:I:2"])

P("compare_logic", '''
@script()
def f(x: FLOAT[...], y: FLOAT[...]):
    a = x > y
    b = x <= 1.0
    c = op.And(a, op.Not(b))
    d = (x == y) | c
    return op.Where(d, x, y)
''', ["x:F:2 y:F:2", "x:F:2,1 y:F:1,2"])

P("ne_op", '''
@script()
def f(x: INT64[...], y: INT64[...]):
    return op.Cast(x != y, to=7) + op.Cast(x >= y, to=7)
''', ["x:I:2 y:I:2"])

P("neg_abs_minmax", '''
@script()
def f(x: FLOAT[...], y: FLOAT[...]):
    return op.Max(op.Abs(-x), op.Min(y, 0.5))
''', ["x:F:3 y:F:3"])

P("clip_relu", '''
@script()
def f(x: FLOAT[...]):
    return op.Relu(op.Clip(x, -1.0, 2.0)) + op.Clip(x, None, 0.0)
''', ["x:F:3"])

P("cast_chain", '''
@script()
def f(x: FLOAT[...]):
    i = op.Cast(x, to=7)
    b = op.Cast(i, to=9)
    return op.Cast(b, to=1) + op.CastLike(i, x)
''', ["x:F:3"])

P("reduce_shape", '''
@script()
def f(x: FLOAT[...]):
    s = op.ReduceSum(x, keepdims=0)
    sh = op.Shape(x)
    n = op.Cast(op.Size(x), to=1)
    return s / n, sh
''', ["x:F:2,3", "x:F:1"])

P("matmul_transpose", '''
@script()
def f(x: FLOAT[...], y: FLOAT[...]):
    return op.MatMul(x, op.Transpose(y, perm=[1, 0])) @ y
''', ["x:F:2,3 y:F:2,3"])

P("concat_split_tuple", '''
@script()
def f(x: FLOAT[...], y: FLOAT[...]):
    c = op.Concat(x, y, axis=0)
    a, b = op.Split(c, num_outputs=2, axis=0)
    return b - a, a
''', ["x:F:2 y:F:2", "x:F:1,3 y:F:1,3"])

P("reshape_literal_list", '''
@script()
def f(x: FLOAT[...]):
    return op.Reshape(x, [3, 2]) + op.Unsqueeze(op.ReduceSum(x, [1], keepdims=0), [1])[0:1, 0:1]
''', ["x:F:2,3"])

P("gather_index", '''
@script()
def f(x: FLOAT[...], i: INT64):
    return x[i] + x[0] - x[-1], x[1:], x[:, 0]
''', ["x:F:2,3 i:I:"])

P("slice_forms", '''
@script()
def f(x: FLOAT[...]):
    return x[1:3], x[::2], x[2:0:-1], x[:-1]
''', ["x:F:4", "x:F:1"])

# ---------------------------------------------------------------- attributes
P("attr_default", '''
@script()
def f(x: FLOAT[...], alpha: float = 0.5, k: int = 2):
    return x * alpha + op.Cast(k, to=1)
''', ["x:F:2"], [{}, {"alpha": 2.5}, {"k": -3}, {"alpha": -1.0, "k": 0}])

P("attr_required", '''
@script()
def f(x: FLOAT[...], alpha: float, flag: bool = False):
    if flag:
        y = x + alpha
    else:
        y = x - alpha
    return y
''', ["x:F:2"], [{"alpha": 1.0}, {"alpha": 0.25, "flag": True}])

P("attr_as_op_attribute", '''
@script()
def f(x: FLOAT[...], axis: int = 0, keep: int = 1):
    return op.ReduceSum(x, [0], keepdims=keep) + op.Concat(x, x, axis=axis)[0:1]
''', ["x:F:2,2"], [{}, {"keep": 0}, {"axis": 1}])

P("attr_default_in_branch", '''
@script()
def f(x: FLOAT[...], alpha: float = 2.5, k: int = 3):
    if op.ReduceSum(x, keepdims=0) > 1.0:
        y = x * alpha
    else:
        y = x - op.Cast(k, to=1)
    return y
''', ["x:F:3", "x:F:1"], [{}, {"alpha": -0.5}, {"k": 0}])

P("attr_default_in_loop_body", '''
@script()
def f(x: FLOAT[...], n: INT64, alpha: float = 0.5, stop: float = 6.0):
    acc = x
    for i in range(n):
        acc = acc * alpha + 1.0
        c = op.ReduceSum(acc, keepdims=0) < stop
        if c:
            break
    return acc
''', ["x:F:2 n:I:"], [{}, {"alpha": 2.0}, {"stop": 0.0}])

P("attr_default_as_op_attribute_in_branch", '''
@script()
def f(x: FLOAT[...], c: BOOL, axis: int = 1, keep: int = 0):
    if c:
        y = op.ReduceSum(op.Concat(x, x, axis=axis), [0], keepdims=keep)
    else:
        y = op.ReduceSum(x, [1], keepdims=keep) * 2.0
    return y
''', ["x:F:2,2 c:B:"], [{}, {"axis": 0}, {"keep": 1}])

P("attr_default_in_nested_if_in_while", '''
@script()
def f(x: FLOAT[...], alpha: float = 1.5):
    t = x
    c = op.ReduceSum(t, keepdims=0) < 8.0
    while c:
        if op.ReduceSum(t, keepdims=0) > 2.0:
            t = t * alpha + 1.0
        else:
            t = t + alpha
        c = op.ReduceSum(t, keepdims=0) < 8.0
    return t
''', ["x:F:2"], [{}, {"alpha": 3.0}])

P("attr_default_forwarded_to_subfunction_in_branch", '''
@script()
def scale(a: FLOAT[...], s: float = 1.0):
    return a * s

@script()
def f(x: FLOAT[...], c: BOOL, alpha: float = 4.0):
    if c:
        y = scale(x, s=alpha)
    else:
        y = scale(x)
    return y
''', ["x:F:2 c:B:"], [{}, {"alpha": -1.0}])

P("subfunction_bool_literal_argument", '''
@script()
def cast_like(a: FLOAT[...], like: BOOL):
    return op.CastLike(a, like)

@script()
def pick(c: BOOL, a: FLOAT[...], b: FLOAT[...]):
    return op.Where(c, a, b)

@script()
def f(x: FLOAT[...]):
    return cast_like(x, True), pick(False, x, 0.0 - x), pick(True, x, 2.0)
''', ["x:F:3"])

P("bool_attribute_forwarded_as_tensor_to_subfunction", '''
@script()
def pick(c: BOOL, a: FLOAT[...], b: FLOAT[...]):
    return op.Where(c, a, b)

@script()
def f(x: FLOAT[...], flag: bool = True):
    return pick(flag, x, 0.0 - x)
''', ["x:F:3"], [{}, {"flag": False}])

P("subfunction_int_and_float_literal_arguments_cast_like", '''
@script()
def like_of(a: FLOAT[...], like: INT64):
    return op.CastLike(a, like)

@script()
def like_f(a: INT64[...], like: FLOAT):
    return op.CastLike(a, like)

@script()
def f(x: FLOAT[...], n: INT64[...]):
    return like_of(x, 3), like_f(n, 2.5)
''', ["x:F:3 n:I:3"])

P("optional_input_skipped_by_keyword", '''
@script()
def f(x: FLOAT[...], hi: FLOAT):
    a = op.Clip(x, max=hi)
    b = op.Clip(x, max=1.0)
    c = op.Clip(x, min=hi)
    d = op.Clip(x, hi, max=4.0)
    return a, b, c, d
''', ["x:F:3 hi:F:"])

P("optional_input_skipped_by_keyword_int", '''
@script()
def f(x: INT64[...]):
    return op.Clip(x, max=2), op.Clip(x, min=-1, max=2)
''', ["x:I:3"])

P("negated_global_constant_and_attribute", '''
K = 2
H = 0.5

@script()
def f(x: FLOAT[...], n: INT64[...], alpha: float = 3.0):
    a = x + (-K)
    b = x * (-alpha)
    c = n - (-K)
    d = x / (-H) - (-K)
    return a, b, c, d
''', ["x:F:3 n:I:3"], [{}, {"alpha": -1.5}])

P("optional_output_op_assigned_to_one_variable", '''
@script()
def f(x: FLOAT[...]):
    y = op.Dropout(x)
    return y + 1.0
''', ["x:F:3"])

P("pow_operator_literal_exponent_of_another_type", '''
@script()
def f(n: INT64[...], x: FLOAT[...]):
    return n ** 2.5, n ** 2, x ** 2, x ** 0.5
''', ["n:I:3 x:F:3"])

P("reflected_operators_with_python_scalars", '''
@script()
def f(n: INT64[...], x: FLOAT[...]):
    return 2 - n, 7 / x, 3 - x, 2 * n, 1.5 + x, 10 - n * 2, 2 ** n, 2.0 ** x, 5 % n
''', ["n:I:3 x:F:3"])

P("global_named_like_a_parameter_in_if", '''
flag = True
c = True

@script()
def f(x: FLOAT[...], c: BOOL, flag: bool = False):
    if flag:
        y = x + 1.0
    else:
        y = x - 1.0
    if c:
        z = y * 2.0
    else:
        z = y * 3.0
    return z
''', ["x:F:2 c:B:"], [{}, {"flag": True}])

P("mod_operator_float_literal_on_int_tensor", '''
@script()
def f(n: INT64[...], x: FLOAT[...]):
    return n % 2.0, n % 3, x % 2.0, x % 1.5
''', ["n:I:3 x:F:3"])

P("while_condition_and_trailing_break", '''
@script()
def f(x: FLOAT[...]):
    t = x
    cond = op.ReduceSum(t, keepdims=0) < 4.0
    while cond:
        t = t + 1.0
        cond = op.ReduceSum(t, keepdims=0) < 4.0
        stop = op.ReduceSum(t, keepdims=0) > 6.0
        if stop:
            break
    return t
''', ["x:F:2"])

P("input_name_rebound_before_it_is_returned", '''
@script()
def f(x: FLOAT[...], y: FLOAT[...]):
    t = x
    x = y + 1.0
    return t, x
''', ["x:F:2 y:F:2"])

P("same_named_subfunctions_in_two_domains", '''
from onnxscript.values import Opset

@script(Opset("vp.dom.a", 1), default_opset=op)
def g(a: FLOAT[...]):
    return a + a

ga = g

@script(Opset("vp.dom.b", 1), default_opset=op)
def g(a: FLOAT[...]):
    return a * a

gb = g

@script()
def f(x: FLOAT[...]):
    return ga(x) - gb(x)
''', ["x:F:2"])

P("subfunction_calling_same_named_function_of_another_domain", '''
from onnxscript.values import Opset

@script(Opset("vp.dom.a", 1), default_opset=op)
def g(a: FLOAT[...]):
    return a + 1.0

inner = g

@script(Opset("vp.dom.b", 1), default_opset=op)
def g(a: FLOAT[...]):
    return inner(a) * 2.0

@script()
def f(x: FLOAT[...]):
    return g(x)
''', ["x:F:2"])

P("alias_of_outer_value_in_nested_if", '''
@script()
def f(x: FLOAT[...], c: BOOL, d: BOOL):
    t = x * 2.0
    y = x
    if c:
        if d:
            y = t
        else:
            y = x + 1.0
    else:
        y = x - 1.0
    return y + t
''', ["x:F:2 c:B: d:B:"])

P("alias_of_outer_value_in_if_in_loop", '''
@script()
def f(x: FLOAT[...], n: INT64, d: BOOL):
    t = op.Abs(x)
    y = x
    for i in range(n):
        if d:
            y = t
        else:
            y = y + 1.0
    return y - t
''', ["x:F:2 n:I: d:B:"])

P("compare_all_python_operators", '''
@script()
def f(x: FLOAT[...], y: FLOAT[...]):
    a = op.Cast(x <= y, to=1) + op.Cast(x >= y, to=1) * 2.0
    b = op.Cast(x < y, to=1) + op.Cast(x > y, to=1) * 2.0
    c = op.Cast(x == y, to=1) + op.Cast(x != y, to=1) * 2.0
    d = op.Cast(x <= 0.5, to=1) + op.Cast(1.5 >= y, to=1) * 2.0
    return a, b, c, d
''', ["x:F:3 y:F:3", "x:F: y:F:2"])

P("parallel_assignment_swap", '''
@script()
def f(a: FLOAT[...], b: FLOAT[...]):
    p = a + 1.0
    q = b * 2.0
    p, q = q, p
    a, b = b, a
    return p - a, q + b
''', ["a:F:2 b:F:2"])

P("parallel_assignment_fibonacci_loop", '''
@script()
def f(x: FLOAT[...], y: FLOAT[...], n: INT64):
    a = x
    b = y
    for i in range(n):
        a, b = b, a + b
    return a, b
''', ["x:F:2 y:F:2 n:I:"])

P("parallel_assignment_in_branch", '''
@script()
def f(x: FLOAT[...], y: FLOAT[...], c: BOOL):
    a = x * 3.0
    b = y - 1.0
    if c:
        a, b = b, a
    else:
        a, b = a + b, a - b
    return a, b
''', ["x:F:2 y:F:2 c:B:"])

P("subfunction_literal_arguments", '''
@script()
def g(a: FLOAT[...], b: FLOAT[...]):
    return a * b + 1.0

@script()
def h(a: INT64[...], k: INT64[...]):
    return a + k

@script()
def f(x: FLOAT[...], n: INT64[...]):
    return g(x, 2.0), g(0.5, x), h(n, 3)
''', ["x:F:2 n:I:2"])

P("nested_for_inner_bound_from_outer_index", '''
@script()
def f(x: FLOAT[...], n: INT64):
    acc = x * 0.0
    last = op.Identity(x)
    for i in range(n):
        bound = n - i - 1
        for j in range(bound):
            last = x + op.Cast(j, to=1) + 1.0
        acc = acc + last
    return acc
''', ["x:F:2 n:I:"])

P("nested_for_inner_only_assignment_two_vars", '''
@script()
def f(x: FLOAT[...], n: INT64, m: INT64):
    total = x
    u = x * 2.0
    v = x - 1.0
    for i in range(n):
        for j in range(m - i):
            u = v + 1.0
            v = x * op.Cast(j, to=1)
        total = total + u - v
    return total, u
''', ["x:F:2 n:I: m:I:"])

P("for_with_inner_while_assignment", '''
@script()
def f(x: FLOAT[...], n: INT64):
    acc = x
    w = x * 0.5
    for i in range(n):
        c = op.ReduceSum(acc, keepdims=0) < op.Cast(i, to=1)
        while c:
            w = acc + 1.0
            acc = acc + 2.0
            c = op.ReduceSum(acc, keepdims=0) < op.Cast(i, to=1)
        acc = acc + w
    return acc
''', ["x:F:2 n:I:"])

P("nested_loop_alias_of_outer_body_value", '''
@script()
def f(x: FLOAT[...], n: INT64, m: INT64):
    a = op.Identity(x)
    for i in range(n):
        t = a + x
        for j in range(m):
            a = t
    return a
''', ["x:F:2 n:I: m:I:"])

P("loop_two_state_vars_aliasing_one_value", '''
@script()
def f(x: FLOAT[...], n: INT64):
    a = x
    b = x * 2.0
    for i in range(n):
        a = a + x
        b = a
    return a, b
''', ["x:F:2 n:I:"])

P("while_alias_of_outer_value_in_body", '''
@script()
def f(x: FLOAT[...]):
    t = x * 3.0
    a = x
    c = op.ReduceSum(a, keepdims=0) < 4.0
    while c:
        a = t
        c = op.ReduceSum(a, keepdims=0) < 1.0
    return a + t
''', ["x:F:2"])

P("attr_required_only_in_loop_and_branch", '''
@script()
def f(x: FLOAT[...], n: INT64, rate: float, step: int):
    a = x
    for i in range(n):
        a = a * rate
        if op.ReduceSum(a, keepdims=0) > 1.0:
            a = a - op.Cast(step, to=1)
        else:
            a = a + 1.0
    return a
''', ["x:F:2 n:I:"], [{"rate": 0.5, "step": 2}, {"rate": -1.5, "step": 0}])

P("attr_required_only_in_while_body", '''
@script()
def f(x: FLOAT[...], gain: float, limit: float):
    t = x
    c = op.ReduceSum(t, keepdims=0) < limit
    while c:
        t = t * gain + 1.0
        c = op.ReduceSum(t, keepdims=0) < limit
    return t
''', ["x:F:2"], [{"gain": 2.0, "limit": 6.0}, {"gain": 0.5, "limit": 0.0}])

# ---------------------------------------------------------------- if / else
P("if_both", '''
@script()
def f(x: FLOAT[...], y: FLOAT[...]):
    if op.ReduceSum(x, keepdims=0) > op.ReduceSum(y, keepdims=0):
        r = x - y
    else:
        r = y - x
    return r
''', ["x:F:2 y:F:2", "x:F: y:F:"])

P("if_one_branch_assigns", '''
@script()
def f(x: FLOAT[...], c: BOOL):
    r = x * 2.0
    if c:
        r = r + 1.0
    else:
        t = x
    return r
''', ["x:F:2 c:B:"])

P("if_two_vars_mixed", '''
@script()
def f(x: FLOAT[...], c: BOOL):
    a = x
    b = -x
    if c:
        a = b + 1.0
        b = a * 2.0
    else:
        b = a - 1.0
    return a, b
''', ["x:F:2 c:B:"])

P("if_nested", '''
@script()
def f(x: FLOAT[...], c: BOOL, d: BOOL):
    r = x
    if c:
        if d:
            r = x + 1.0
        else:
            r = x + 2.0
        r = r * 3.0
    else:
        if d:
            r = x - 1.0
        else:
            q = x
    return r
''', ["x:F:2 c:B: d:B:"])

P("if_outer_capture_literal", '''
@script()
def f(x: INT64[...], c: BOOL):
    k = x + 1
    if c:
        r = k * 2
    else:
        r = k - 5
    return r + k
''', ["x:I:2 c:B:"])

P("if_cond_expr", '''
@script()
def f(x: FLOAT[...]):
    s = op.ReduceSum(x, keepdims=0)
    if (s > 0.0) & (s < 10.0):
        r = op.Sqrt(op.Abs(x))
    else:
        r = op.Abs(x)
    return r
''', ["x:F:2"])

# ---------------------------------------------------------------- for loops
P("for_const", '''
@script()
def f(x: FLOAT[...]):
    acc = x
    for i in range(3):
        acc = acc * 2.0 + x
    return acc
''', ["x:F:2"])

P("for_tensor_bound", '''
@script()
def f(x: FLOAT[...], n: INT64):
    acc = op.Identity(x)
    for i in range(n):
        acc = acc + x
    return acc
''', ["x:F:2 n:I:"])

P("for_uses_index", '''
@script()
def f(x: FLOAT[...], n: INT64):
    acc = x
    for i in range(n):
        acc = acc + op.Cast(i, to=1)
    return acc
''', ["x:F:2 n:I:"])

P("for_two_carried_one_captured", '''
@script()
def f(x: FLOAT[...], y: FLOAT[...], n: INT64):
    a = x
    b = y
    for i in range(n):
        t = a + y
        a = b
        b = t
    return a, b
''', ["x:F:2 y:F:2 n:I:"])

P("for_if_inside", '''
@script()
def f(x: FLOAT[...], n: INT64):
    acc = x
    for i in range(n):
        if op.ReduceSum(acc, keepdims=0) > 4.0:
            acc = acc - 1.0
        else:
            acc = acc * 2.0
    return acc
''', ["x:F:2 n:I:"])

P("for_nested", '''
@script()
def f(x: FLOAT[...], n: INT64):
    acc = x
    for i in range(n):
        for j in range(2):
            acc = acc + 1.0
        acc = acc * 2.0
    return acc
''', ["x:F:2 n:I:"])

P("for_break", '''
@script()
def f(x: FLOAT[...], n: INT64):
    acc = x
    for i in range(n):
        acc = acc + 1.0
        cond = op.ReduceSum(acc, keepdims=0) > 5.0
        if cond:
            break
    return acc
''', ["x:F:2 n:I:"])

P("if_then_loop_carried", '''
@script()
def f(x: FLOAT[...], c: BOOL, n: INT64):
    r = x
    if c:
        r = x + 1.0
    else:
        u = x
    for i in range(n):
        r = r * 2.0
    return r
''', ["x:F:2 c:B: n:I:"])

P("loop_var_also_captured", '''
@script()
def f(x: FLOAT[...], n: INT64):
    base = x * 3.0
    acc = base
    for i in range(n):
        acc = acc + base
    return acc, base
''', ["x:F:2 n:I:"])

# ---------------------------------------------------------------- while loops
P("while_simple", '''
@script()
def f(x: FLOAT[...]):
    s = op.ReduceSum(x, keepdims=0)
    c = s < 10.0
    while c:
        x = x + 1.0
        s = op.ReduceSum(x, keepdims=0)
        c = s < 10.0
    return x
''', ["x:F:2"])

P("while_counter", '''
@script()
def f(x: FLOAT[...], n: INT64):
    i = op.Constant(value_int=0)
    c = i < n
    acc = x
    while c:
        acc = acc * 2.0
        i = i + 1
        c = i < n
    return acc, i
''', ["x:F:2 n:I:"])

P("while_with_if", '''
@script()
def f(x: FLOAT[...]):
    c = op.ReduceSum(x, keepdims=0) < 6.0
    while c:
        if op.ReduceMax(x, keepdims=0) > 2.0:
            x = x + 2.0
        else:
            x = x + 1.0
        c = op.ReduceSum(x, keepdims=0) < 6.0
    return x
''', ["x:F:2"])

P("while_nested_if_loop_carried_only", '''
@script()
def f(x: FLOAT[...]):
    acc = x
    step = x * 0.5
    c = op.ReduceSum(acc, keepdims=0) < 9.0
    while c:
        if op.ReduceSum(step, keepdims=0) > 2.0:
            acc = acc + step
            step = step * 0.5
        else:
            acc = acc + 1.5
            step = step + 1.0
        c = op.ReduceSum(acc, keepdims=0) < 9.0
    return acc
''', ["x:F:2", "x:F:"])

P("for_nested_if_loop_carried_only", '''
@script()
def f(x: FLOAT[...], n: INT64):
    acc = x
    step = x + 1.0
    for i in range(n):
        if op.ReduceSum(step, keepdims=0) > 3.0:
            acc = acc - step
            step = step * 0.5
        else:
            acc = acc * 2.0
            step = step + acc
    return acc
''', ["x:F:2 n:I:"])

P("while_inner_for_carried", '''
@script()
def f(x: FLOAT[...]):
    acc = x
    w = x * 0.0 + 1.0
    c = op.ReduceSum(acc, keepdims=0) < 8.0
    while c:
        for j in range(2):
            w = w + 0.5
        acc = acc + w
        c = op.ReduceSum(acc, keepdims=0) < 8.0
    return acc
''', ["x:F:2"])

P("for_swap_carried", '''
@script()
def f(x: FLOAT[...], y: FLOAT[...], n: INT64):
    a = x
    b = y
    t = x * 0.0
    for i in range(n):
        t = a
        a = b + t
        b = t * 2.0
    return a
''', ["x:F:2 y:F:2 n:I:"])

# ---------------------------------------------------------------- sub-function calls
# ---------------------------------------------------------------- the same subscript constants in several loop bodies / branches
P("slices_in_two_loops", '''
@script()
def f(x: FLOAT[...], n: INT64):
    a = x[0:2]
    for i in range(n):
        a = a + x[0:2]
    b = x[1:3]
    for j in range(n):
        b = b * x[0:2] + x[1:3]
    return a + b
''', ["x:F:4 n:I:"])

P("slices_in_loop_then_branch_then_loop", '''
@script()
def f(x: FLOAT[...], n: INT64, c: BOOL):
    s = x[0:2, 1]
    for i in range(n):
        s = s + x[0:2, 1]
    if c:
        t = s + x[1:3, 0]
    else:
        t = s - x[0:2, 1]
    for j in range(n):
        t = t + x[1:3, 0] + x[0:2, 1]
    return t
''', ["x:F:3,3 n:I: c:B:"])

P("slices_in_nested_loops", '''
@script()
def f(x: FLOAT[...], n: INT64):
    acc = x[0:1]
    for i in range(n):
        for j in range(2):
            acc = acc + x[0:1]
        acc = acc * x[1:2]
    for k in range(2):
        acc = acc - x[0:1]
    return acc
''', ["x:F:3 n:I:"])

# ---------------------------------------------------------------- a Python constant chosen by an If is still a constant
P("literal_merged_by_if", '''
@script()
def f(x: FLOAT[...], c: INT64):
    if c > 0:
        k = 1
    else:
        k = 2
    return op.Add(x, k)
''', ["x:F:2 c:I:"])

P("literal_merged_by_if_float_and_operator", '''
@script()
def f(x: FLOAT[...], y: INT64[...], c: BOOL):
    if c:
        k = 3
        h = 0.5
    else:
        k = 4
        h = 1.5
    return x * k + h, y + k
''', ["x:F:2 y:I:2 c:B:"])

# ---------------------------------------------------------------- subscripts that need temporaries, repeated on one variable
P("subscript_mixed_twice", '''
@script()
def f(X: FLOAT[...], i: INT64):
    a = X[0:2, i]
    b = X[1:3, i]
    return a + b
''', ["X:F:3,3 i:I:"])

P("subscript_two_constants_twice", '''
@script()
def f(X: FLOAT[...]):
    a = X[0, 1]
    b = X[1, 2]
    return a + b
''', ["X:F:3,3", "X:F:2,3,2"])

P("subscript_temp_name_taken_by_user", '''
@script()
def f(X: FLOAT[...], i: INT64):
    X_sliced = X * 2.0
    X_squeezed = X + 1.0
    a = X[0:2, i]
    b = X[0, 1]
    return a + X_sliced[0:2, i] + X_squeezed[0, 1] + b
''', ["X:F:3,3 i:I:"])

P("subscript_mixed_in_both_branches", '''
@script()
def f(X: FLOAT[...], i: INT64, c: BOOL):
    if c:
        r = X[0:1, i]
    else:
        r = X[1:2, i]
    return r + X[0:1, i]
''', ["X:F:3,3 i:I: c:B:"])

# ---------------------------------------------------------------- liveness: uses that are not plain operands
P("loop_bound_assigned_in_branches", '''
@script()
def f(x: FLOAT[...], c: BOOL, n: INT64):
    k = n + 0
    s = x
    if c:
        k = n + 1
        s = x + 10.0
    else:
        k = n + 2
        s = x + 20.0
    for i in range(k):
        s = s + 1.0
    return s
''', ["x:F:3 c:B: n:I:", "x:F: c:B: n:I:"])

P("loop_bound_assigned_in_loop", '''
@script()
def f(x: FLOAT[...], n: INT64):
    k = n + 0
    s = x
    for i in range(2):
        k = k + 1
        s = s * 2.0
    for j in range(k):
        s = s + 1.0
    return s
''', ["x:F:2 n:I:"])

P("keyword_input_expression_use", '''
@script()
def f(x: FLOAT[...], c: BOOL):
    y = x
    w = x
    if c:
        y = x + 1.0
        w = x + 5.0
    else:
        y = x + 2.0
        w = x + 6.0
    z = op.Add(w, B=y * 2.0)
    return z
''', ["x:F:3 c:B:"])

P("keyword_input_expression_use_in_loop", '''
@script()
def f(x: FLOAT[...], n: INT64):
    y = x
    s = x
    for i in range(n):
        s = op.Add(s, B=y + 1.0)
        y = y * 2.0
    return s
''', ["x:F:2 n:I:"])

P("float_mod_two_tensors", '''
@script()
def f(x: FLOAT[...], y: FLOAT[...]):
    return x % y
''', ["x:F:3 y:F:3"])


P("call_helper", '''
@script()
def helper(a: FLOAT[...], b: FLOAT[...], alpha: float = 2.0):
    return a * alpha + b

@script()
def f(x: FLOAT[...], y: FLOAT[...]):
    u = helper(x, y)
    v = helper(y, x, alpha=0.5)
    return u - v
''', ["x:F:2 y:F:2"])

P("call_helper_multi_out_in_loop", '''
@script()
def two(a: FLOAT[...]):
    return a + 1.0, a * 2.0

@script()
def f(x: FLOAT[...], n: INT64):
    p = x
    q = x
    for i in range(n):
        p, q = two(q)
    return p, q
''', ["x:F:2 n:I:"])

P("call_helper_in_branch", '''
@script()
def sq(a: FLOAT[...]):
    return a * a

@script()
def f(x: FLOAT[...], c: BOOL):
    if c:
        r = sq(x)
    else:
        r = sq(x + 1.0)
    return r
''', ["x:F:2 c:B:"])

P("return_input_and_dup", '''
@script()
def f(x: FLOAT[...], y: FLOAT[...]):
    z = x + y
    return x, z, z
''', ["x:F:2 y:F:2"])

P("bool_ops_python", '''
@script()
def f(a: BOOL[...], b: BOOL[...]):
    return (a & b) | op.Not(a), op.Xor(a, b)
''', ["a:B:2 b:B:2"])

P("int_float_mix_cast", '''
@script()
def f(x: FLOAT[...], k: INT64[...]):
    kf = op.Cast(k, to=1)
    return op.Cast(x * kf, to=7) + k
''', ["x:F:2 k:I:2"])

P("double_literal", '''
@script()
def f(x: DOUBLE[...]):
    return x * 2.0 + 1.0
''', ["x:D:2"])

P("seq_ops", '''
@script()
def f(x: FLOAT[...], y: FLOAT[...]):
    s = op.SequenceConstruct(x, y)
    s = op.SequenceInsert(s, x + y)
    return op.ConcatFromSequence(s, axis=0), op.SequenceAt(s, 1)
''', ["x:F:2 y:F:2"])


# ---------------------------------------------------------------- near-miss programs (must be refused)
NEAR_MISS_RAW = [
    ("undefined_on_missing_else", '''
@script()
def f(x: FLOAT[...], c: BOOL):
    if c:
        r = x + 1.0
    return r
'''),
    ("undefined_on_path_global_of_same_name", '''
scale = 5

@script()
def f(x: FLOAT[...], c: BOOL):
    if c:
        scale = x + 1.0
    return x * scale
'''),
    ("undefined_on_else_path_global_of_same_name", '''
gain = 2.0

@script()
def f(x: FLOAT[...], c: BOOL):
    if c:
        gain = x * 3.0
    else:
        t = x
    return x + gain
'''),
    ("return_is_not_the_last_statement", '''
@script()
def f(x: FLOAT[...]):
    return x + 1.0
    return x + 2.0
'''),
    ("loop_updates_no_live_variable", '''
@script()
def f(x: FLOAT[...], n: INT64):
    for i in range(n):
        t = x + 1.0
    return x * 2.0
'''),
    ("assignment_to_a_subscript", '''
@script()
def f(x: FLOAT[...], y: FLOAT[...]):
    y[0] = x
    return y
'''),
    ("loop_break_with_else_branch", '''
@script()
def f(x: FLOAT[...], n: INT64):
    t = x
    for i in range(n):
        t = t + 1.0
        c = op.ReduceSum(t, keepdims=0) > 5.0
        if c:
            break
        else:
            t = t * 2.0
    return t
'''),
    ("loop_index_read_after_the_loop", '''
@script()
def f(x: FLOAT[...], n: INT64):
    t = x
    i = op.Constant(value_int=7)
    for i in range(n):
        t = t + 1.0
    return t + op.Cast(i, to=1)
'''),
    ("unsupported_unary_plus", '''
@script()
def f(x: FLOAT[...]):
    return +x
'''),
    ("unsupported_unary_invert", '''
@script()
def f(x: INT64[...]):
    return ~x
'''),
    ("unsupported_operator_xor", '''
@script()
def f(a: BOOL[...], b: BOOL[...]):
    return a ^ b
'''),
    ("undefined_on_path", '''
@script()
def f(x: FLOAT[...], c: BOOL):
    if c:
        r = x + 1.0
    else:
        t = x
    return r
'''),
    ("return_in_branch", '''
@script()
def f(x: FLOAT[...], c: BOOL):
    if c:
        return x
    else:
        r = x + 1.0
    return r
'''),
    ("unsupported_statement_with", '''
@script()
def f(x: FLOAT[...]):
    with open("x") as g:
        y = x
    return y
'''),
    ("unsupported_statement_try", '''
@script()
def f(x: FLOAT[...]):
    try:
        y = x + 1.0
    except Exception:
        y = x
    return y
'''),
    ("undefined_name", '''
@script()
def f(x: FLOAT[...]):
    return x + nosuchname
'''),
    ("loop_var_undefined_before", '''
@script()
def f(x: FLOAT[...], n: INT64):
    for i in range(n):
        acc = acc + x
    return acc
'''),
    ("break_not_last", '''
@script()
def f(x: FLOAT[...], n: INT64):
    acc = x
    for i in range(n):
        if op.ReduceSum(acc, keepdims=0) > 1.0:
            break
        acc = acc + 1.0
    return acc
'''),
    ("while_else", '''
@script()
def f(x: FLOAT[...]):
    c = op.ReduceSum(x, keepdims=0) < 1.0
    while c:
        x = x + 1.0
        c = op.ReduceSum(x, keepdims=0) < 1.0
    else:
        x = x - 1.0
    return x
'''),
    ("for_else", '''
@script()
def f(x: FLOAT[...], n: INT64):
    for i in range(n):
        x = x + 1.0
    else:
        x = x * 100.0
    return x
'''),
    ("nested_def", '''
@script()
def f(x: FLOAT[...]):
    def g(y):
        return y
    return g(x)
'''),
    ("starred_assign", '''
@script()
def f(x: FLOAT[...]):
    a, *b = op.Split(x, num_outputs=2)
    return a
'''),
    ("lambda_expr", '''
@script()
def f(x: FLOAT[...]):
    g = lambda t: t + 1.0
    return x
'''),
    ("global_stmt", '''
@script()
def f(x: FLOAT[...]):
    global q
    return x
'''),
]


NEAR_MISS = [(n, _dec(s)) for n, s in NEAR_MISS_RAW]


# ---------------------------------------------------------------- random generator
class Gen:
    """typed random programs: tensors of one common shape + scalars; nesting <= 2"""

    def __init__(self, rng: random.Random):
        self.r = rng
        self.lines: list[str] = []
        self.vars: dict[str, str] = {}  # name -> type in {F (tensor float), I (tensor int), B (scalar bool), N (scalar int)}
        self.counter = 0

    def fresh(self, p="v"):
        self.counter += 1
        return f"{p}{self.counter}"

    def pick(self, ty):
        c = [n for n, t in self.vars.items() if t == ty]
        return self.r.choice(c) if c else None

    def expr(self, ty, depth=0):
        r = self.r
        v = self.pick(ty)
        if ty == "F":
            lit = r.choice(["0.5", "2.0", "-1.0", "3", "0.25"])
            if getattr(self, "attr_alpha", False) and r.random() < 0.2:
                lit = "alpha"  # attribute parameter used wherever an expression occurs (nested blocks included)
            if depth >= 2 or r.random() < 0.25:
                return v
            k = r.randrange(11)
            a = self.expr("F", depth + 1)
            if k == 0:
                return f"({a} + {self.expr('F', depth + 1)})"
            if k == 1:
                return f"({a} - {lit})"
            if k == 2:
                return f"({lit} * {a})"
            if k == 3:
                return f"op.Relu({a})"
            if k == 4:
                return f"op.Abs(-{a})"
            if k == 5:
                return f"op.Min({a}, {self.expr('F', depth + 1)})"
            if k == 6:
                return f"op.Where({self.expr('M', depth + 1)}, {a}, {self.expr('F', depth + 1)})"
            if k == 7 and self.pick("I"):
                return f"({a} * op.Cast({self.expr('I', depth + 1)}, to=1))"
            if k == 8:
                return f"op.Clip({a}, -1.0, 1.5)"
            if k == 9:
                return f"({a} * {self.expr('F', depth + 1)})"
            return f"op.Max({a}, {lit})"
        if ty == "I":
            if v is None:
                return None
            if depth >= 2 or r.random() < 0.3:
                return v
            k = r.randrange(4)
            a = self.expr("I", depth + 1)
            if k == 0:
                return f"({a} + {r.choice(['1', '2', '-3'])})"
            if k == 1:
                return f"({a} * {self.expr('I', depth + 1)})"
            if k == 2:
                return f"op.Abs({a})"
            return f"({a} - {self.expr('I', depth + 1)})"
        if ty == "M":  # elementwise bool mask of the common shape
            a = self.expr("F", depth + 1)
            return r.choice([f"({a} > 0.5)", f"({a} <= {self.expr('F', depth + 1)})", f"op.Not({a} < -1.0)"])
        if ty == "B":  # scalar bool
            b = self.pick("B")
            opts = [f"(op.ReduceSum({self.expr('F', 1)}, keepdims=0) > {r.choice(['0.0', '1.5', '4.0'])})"]
            if b:
                opts += [b, f"op.Not({b})"]
            return r.choice(opts)
        raise ValueError(ty)

    def assign(self, indent, only_existing=False):
        ty = "F" if (self.r.random() < 0.8 or not self.pick("I")) else "I"
        e = self.expr(ty)
        existing = self.pick(ty)
        if only_existing or (existing and self.r.random() < 0.5 and existing not in self.params):
            tgt = existing if existing not in self.params else self.fresh()
        else:
            tgt = self.fresh()
        self.lines.append(" " * indent + f"{tgt} = {e}")
        return tgt, ty

    def block(self, indent, depth, n_stmts):
        for _ in range(n_stmts):
            k = self.r.random()
            if depth < 2 and k < 0.22:
                self.if_stmt(indent, depth)
            elif depth < 2 and k < 0.40:
                self.for_stmt(indent, depth)
            elif depth < 1 and k < 0.48:
                self.while_stmt(indent, depth)
            else:
                tgt, ty = self.assign(indent)
                self.vars[tgt] = ty

    def if_stmt(self, indent, depth):
        cond = self.expr("B")
        before = dict(self.vars)
        live = self.live_local()
        mode = self.r.randrange(3)  # 0: both branches assign live, 1: then only, 2: else only
        self.lines.append(" " * indent + f"if {cond}:")
        self.block(indent + 4, depth + 1, self.r.randint(0, 2))
        if mode in (0, 1):
            self.lines.append(" " * (indent + 4) + f"{live} = {self.expr('F')}")
        elif not self.lines[-1].startswith(" " * (indent + 4)):
            self.lines.append(" " * (indent + 4) + f"{self.fresh('t')} = {self.expr('F')}")
        then_vars = dict(self.vars)
        self.vars = dict(before)
        self.lines.append(" " * indent + "else:")
        self.block(indent + 4, depth + 1, self.r.randint(0, 2))
        if mode in (0, 2):
            self.lines.append(" " * (indent + 4) + f"{live} = {self.expr('F')}")
        elif not self.lines[-1].startswith(" " * (indent + 4)):
            self.lines.append(" " * (indent + 4) + f"{self.fresh('t')} = {self.expr('F')}")
        else_vars = dict(self.vars)
        # visible afterwards: defined before, or in both branches with the same type
        self.vars = dict(before)
        for n, t in then_vars.items():
            if n in else_vars and else_vars[n] == t:
                self.vars[n] = t

    def live_local(self):
        c = [n for n, t in self.vars.items() if t == "F" and n not in self.params]
        return self.r.choice(c)

    def for_stmt(self, indent, depth):
        n = self.pick("N")
        bound = n if (n and self.r.random() < 0.6) else str(self.r.randint(1, 3))
        iv = self.fresh("i")
        before = dict(self.vars)
        self.lines.append(" " * indent + f"for {iv} in range({bound}):")
        # only reassign existing variables (loop-carried) or define temporaries
        self.block_loop(indent + 4, depth + 1, iv)
        self.vars = {n: t for n, t in self.vars.items() if n in before}

    def block_loop(self, indent, depth, iv):
        carried = [n for n, t in self.vars.items() if t == "F" and n not in self.params]
        if not carried:
            x = self.pick("F")
            nv = self.fresh()
            # define before loop is impossible here; make a temp only
            self.lines.append(" " * indent + f"{nv} = {self.expr('F')}")
            return
        tgt = self.r.choice(carried)
        e = self.expr("F")
        if self.r.random() < 0.3:
            e = f"({e} + op.Cast({iv}, to=1))"
        if depth < 2 and self.r.random() < 0.3:
            cond = self.expr("B")
            self.lines.append(" " * indent + f"if {cond}:")
            self.lines.append(" " * (indent + 4) + f"{tgt} = {e}")
            self.lines.append(" " * indent + "else:")
            self.lines.append(" " * (indent + 4) + f"{tgt} = {tgt} - 1.0")
        else:
            self.lines.append(" " * indent + f"{tgt} = {e}")

    def while_stmt(self, indent, depth):
        carried = [n for n, t in self.vars.items() if t == "F" and n not in self.params]
        if not carried:
            return
        tgt = self.r.choice(carried)
        c = self.fresh("c")
        thr = self.r.choice(["3.0", "6.0"])
        self.lines.append(" " * indent + f"{c} = op.ReduceSum({tgt}, keepdims=0) < {thr}")
        others = [n for n in carried if n != tgt]
        if others and self.r.random() < 0.6:
            # a second variable that is only carried around the loop, updated inside a nested if
            aux = self.r.choice(others)
            self.lines.append(" " * indent + f"while {c}:")
            self.lines.append(" " * (indent + 4) + f"if op.ReduceSum({aux}, keepdims=0) > {self.r.choice(['0.5', '2.0'])}:")
            self.lines.append(" " * (indent + 8) + f"{tgt} = op.Abs({tgt}) + op.Abs({aux}) + 1.0")
            self.lines.append(" " * (indent + 8) + f"{aux} = {aux} * 0.5")
            self.lines.append(" " * (indent + 4) + "else:")
            self.lines.append(" " * (indent + 8) + f"{tgt} = op.Abs({tgt}) + 1.5")
            self.lines.append(" " * (indent + 8) + f"{aux} = {aux} + 1.0")
            self.lines.append(" " * (indent + 4) + f"{c} = op.ReduceSum({tgt}, keepdims=0) < {thr}")
            return
        self.lines.append(" " * indent + f"while {c}:")
        self.lines.append(" " * (indent + 4) + f"{tgt} = op.Abs({tgt}) + {self.r.choice(['1.0', '2.0'])}")
        self.lines.append(" " * (indent + 4) + f"{c} = op.ReduceSum({tgt}, keepdims=0) < {thr}")

    def program(self, idx) -> Program:
        r = self.r
        shape = r.choice([(2,), (2,), (1,), (2, 2), ()])
        shp = ",".join(map(str, shape))
        params, spec = [], []
        nF = r.randint(1, 2)
        for j in range(nF):
            n = f"x{j}"
            params.append(f"{n}: FLOAT[...]")
            spec.append((n, DT.FLOAT, shape))
            self.vars[n] = "F"
        if r.random() < 0.4:
            params.append("k0: INT64[...]")
            spec.append(("k0", DT.INT64, shape))
            self.vars["k0"] = "I"
        if r.random() < 0.6:
            params.append("n0: INT64")
            spec.append(("n0", DT.INT64, ()))
            self.vars["n0"] = "N"
        if r.random() < 0.5:
            params.append("b0: BOOL")
            spec.append(("b0", DT.BOOL, ()))
            self.vars["b0"] = "B"
        attrs = [{}]
        if r.random() < 0.4:
            params.append("alpha: float = 1.5")
            attrs = [{}, {"alpha": r.choice([0.0, -2.0, 0.25])}]
            self.attr_alpha = True
        self.params = set(self.vars)
        # seed a local so loops have something to carry
        self.lines.append(f"    v0 = {self.expr('F')}" + (" * alpha" if len(attrs) > 1 else ""))
        self.vars["v0"] = "F"
        self.block(4, 0, r.randint(2, 5))
        outs = [n for n, t in self.vars.items() if t in ("F", "I") and n not in self.params]
        r.shuffle(outs)
        outs = outs[: r.randint(2, 4)] or ["v0"]
        src = "@script(default_opset=op)\ndef f(" + ", ".join(params) + "):\n" + "\n".join(self.lines) + "\n    return " + ", ".join(outs) + "\n"
        return Program(f"rand{idx}", src, [spec], attrs, ("random",))


def random_programs(seed: int, n: int) -> list[Program]:
    out = []
    for i in range(n):
        g = Gen(random.Random(seed * 100003 + i))
        out.append(g.program(i))
    return out
