"""Seeded generator of typed ONNX models for C03/C04/C09/C13: random DAGs over symonnx's ops with
constants, initializers, initializer-inputs, shape-computation chains, Cast chains, If/Loop bodies
that capture outer values and own initializers, sequence ops, Dropout variants, zero-size tensors and
model-local functions with attribute references.  Shapes are tracked so that the models are valid."""
from __future__ import annotations

import random

import numpy as np
import onnx
from onnx import TensorProto as TP
from onnx import helper as oh
from onnx import numpy_helper as nh

F, I, B = TP.FLOAT, TP.INT64, TP.BOOL
NP = {F: np.float32, I: np.int64, B: np.bool_}
FCONST = [-2.0, -1.0, -0.5, 0.0, 0.5, 1.0, 2.0, 3.0, 0.1, 1e-9, 1.0000001, 0.999999]


class V:
    __slots__ = ("name", "dt", "shape", "const")

    def __init__(self, name, dt, shape, const=None):
        self.name, self.dt, self.shape, self.const = name, dt, tuple(shape), const


class Builder:
    def __init__(self, rng: random.Random, opset=18, sym_dims=None):
        self.r = rng
        self.opset = opset
        self.nodes: list = []
        self.inits: list = []
        self.inputs: list = []
        self.vals: list[V] = []
        self.n = 0
        self.functions: list = []
        self.features: set = set()
        self.sym_dims = sym_dims  # optional {input name: [dim names or ints]} for C09

    # ------------------------------------------------------------ basics
    def name(self, p="t"):
        self.n += 1
        return f"{p}{self.n}"

    def add_input(self, dt, shape, with_default=False):
        n = self.name("x")
        v = V(n, dt, shape)
        self.inputs.append(v)
        self.vals.append(v)
        if with_default:
            arr = self.rand_array(dt, shape)
            self.inits.append(nh.from_array(arr, n))
            self.features.add("initializer_input")
        return v

    def rand_array(self, dt, shape):
        r = self.r
        size = int(np.prod(shape)) if len(shape) else 1
        if dt == F:
            a = np.array([r.choice(FCONST) for _ in range(size)], dtype=np.float32)
        elif dt == I:
            a = np.array([r.randint(-3, 4) for _ in range(size)], dtype=np.int64)
        else:
            a = np.array([r.random() < 0.5 for _ in range(size)], dtype=np.bool_)
        return a.reshape(shape)

    def const(self, arr, how=None):
        """constant as initializer or Constant node"""
        arr = np.asarray(arr)
        n = self.name("c")
        how = how or self.r.choice(["init", "node"])
        if how == "init":
            self.inits.append(nh.from_array(arr, n))
        else:
            self.nodes.append(oh.make_node("Constant", [], [n], value=nh.from_array(arr, n + "_v")))
        dt = {np.dtype(np.float32): F, np.dtype(np.int64): I, np.dtype(np.bool_): B}[arr.dtype]
        v = V(n, dt, arr.shape, arr)
        return v

    def emit(self, op, ins, dt, shape, n_out=1, **attrs):
        outs = [self.name() for _ in range(n_out)]
        self.nodes.append(oh.make_node(op, [i.name if isinstance(i, V) else i for i in ins], outs, **attrs))
        vs = [V(o, dt, shape) for o in outs]
        self.vals.extend(vs)
        return vs[0] if n_out == 1 else vs

    def pick(self, dt=None, rank=None, nonconst=False, shape=None):
        c = [v for v in self.vals if (dt is None or v.dt == dt) and (rank is None or len(v.shape) == rank)
             and (shape is None or v.shape == tuple(shape))]
        return self.r.choice(c) if c else None

    def ints(self, vals):
        return self.const(np.array(vals, dtype=np.int64))

    # ------------------------------------------------------------ templates
    def t_binary(self):
        a = self.pick(self.r.choice([F, F, I]))
        if a is None:
            return
        op = self.r.choice(["Add", "Sub", "Mul", "Min", "Max"] if a.dt == F else ["Add", "Sub", "Mul"])
        k = self.r.random()
        if k < 0.35:
            b = self.pick(a.dt, shape=a.shape) or a
            shape = a.shape
        elif k < 0.7:
            # constant operand: scalar, [1], or trailing-dim vector, values from the edge set (identity elements included)
            cs = self.r.choice([(), (1,), a.shape[-1:] if a.shape else ()])
            val = self.r.choice([0, 1, 2, -1]) if self.r.random() < 0.6 else None
            arr = self.rand_array(a.dt, cs) if val is None else np.full(cs, val, dtype=NP[a.dt])
            b = self.const(arr)
            shape = np.broadcast_shapes(a.shape, cs)
        else:
            b = self.pick(a.dt)
            try:
                shape = np.broadcast_shapes(a.shape, b.shape)
            except ValueError:
                return
        ins = [a, b] if self.r.random() < 0.5 else [b, a]
        self.features.add("binary")
        return self.emit(op, ins, a.dt, shape)

    def t_div(self):
        a = self.pick(F)
        if a is None:
            return
        b = self.const(np.array(self.r.choice([1.0, 2.0, 0.5, -4.0]), dtype=np.float32))
        return self.emit("Div", [a, b], F, a.shape)

    def t_unary(self):
        a = self.pick(self.r.choice([F, F, I]))
        if a is None:
            return
        op = self.r.choice(["Neg", "Abs", "Relu", "Identity", "Floor", "Ceil", "Sign"] if a.dt == F else ["Neg", "Abs", "Identity", "Sign"])
        return self.emit(op, [a], a.dt, a.shape)

    def t_where(self):
        a = self.pick(F)
        if a is None:
            return
        b = self.pick(F, shape=a.shape) or a
        thr = self.const(np.array(self.r.choice(FCONST), dtype=np.float32))
        c = self.emit(self.r.choice(["Less", "Greater", "LessOrEqual", "Equal"]), [a, thr], B, a.shape)
        if self.r.random() < 0.3:
            c = self.emit("Not", [c], B, a.shape)
        self.features.add("where")
        return self.emit("Where", [c, a, b], F, a.shape)

    def t_cast_chain(self):
        a = self.pick(self.r.choice([F, I]))
        if a is None:
            return
        if a.dt == F:
            i = self.emit("Cast", [a], I, a.shape, to=I)
            f = self.emit("Cast", [i], F, a.shape, to=F)
            if self.r.random() < 0.5:
                f = self.emit("Cast", [f], F, a.shape, to=F)  # redundant cast
            self.features.add("cast_chain")
            return f
        like = self.pick(F)
        if like is not None and self.r.random() < 0.5:
            self.features.add("castlike")
            return self.emit("CastLike", [a, like], F, a.shape)
        return self.emit("Cast", [a], F, a.shape, to=F)

    def t_shape_chain(self):
        a = self.pick(F)
        if a is None or len(a.shape) < 1:
            return
        r = len(a.shape)
        sh = self.emit("Shape", [a], I, (r,))
        k = self.r.randrange(5)
        self.features.add("shape_chain")
        if k == 0:
            # Reshape(x, Concat(Gather(Shape(x), 0), [-1]))
            d0 = self.emit("Gather", [sh, self.ints([0])], I, (1,), axis=0)
            tgt = self.emit("Concat", [d0, self.ints([-1])], I, (2,), axis=0)
            rest = int(np.prod(a.shape[1:], dtype=np.int64))
            return self.emit("Reshape", [a, tgt], F, (a.shape[0], rest))
        if k == 1:
            # Expand(y, Shape(x)) where y broadcastable
            y = self.const(self.rand_array(F, self.r.choice([(), (1,), a.shape[-1:]])))
            return self.emit("Expand", [y, sh], F, a.shape)
        if k == 2:
            # Reshape(x, Shape(x)) - no-op
            return self.emit("Reshape", [a, sh], F, a.shape)
        if k == 3:
            sz = self.emit("Size", [a], I, ())
            szf = self.emit("Cast", [sz], F, (), to=F)
            return self.emit("Mul", [a, szf], F, a.shape)
        # ConstantOfShape(Shape(x)) + x
        z = self.emit("ConstantOfShape", [sh], F, a.shape, value=nh.from_array(np.array([self.r.choice([0.0, 1.0, 2.0])], dtype=np.float32)))
        return self.emit("Add", [a, z], F, a.shape)

    def t_reshape_family(self):
        a = self.pick(F)
        if a is None:
            return
        r = len(a.shape)
        k = self.r.randrange(7)
        self.features.add("reshape_family")
        if k == 0 and r >= 1:
            size = int(np.prod(a.shape, dtype=np.int64))
            tgt = self.r.choice([[-1], [size], [0, -1] if r >= 1 else [-1], [1, -1]])
            out = list(np.empty(a.shape).reshape([a.shape[i] if t == 0 else t for i, t in enumerate(tgt)]).shape) if size else None
            if out is None:
                return
            y = self.emit("Reshape", [a, self.ints(tgt)], F, out)
            if self.r.random() < 0.5:
                y = self.emit("Reshape", [y, self.ints(list(a.shape))], F, a.shape)
            return y
        if k == 1 and r >= 2:
            perm = list(range(r))
            self.r.shuffle(perm)
            y = self.emit("Transpose", [a], F, [a.shape[p] for p in perm], perm=perm)
            if self.r.random() < 0.6:
                perm2 = list(range(r))
                self.r.shuffle(perm2)
                y = self.emit("Transpose", [y], F, [y.shape[p] for p in perm2], perm=perm2)
            return y
        if k == 2:
            ax = self.r.randrange(r + 1)
            u = self.emit("Unsqueeze", [a, self.ints([ax])], F, a.shape[:ax] + (1,) + a.shape[ax:])
            if self.r.random() < 0.5:
                return self.emit("Squeeze", [u, self.ints([ax])], F, a.shape)
            ax2 = self.r.randrange(r + 2)
            return self.emit("Unsqueeze", [u, self.ints([ax2])], F, u.shape[:ax2] + (1,) + u.shape[ax2:])
        if k == 3 and r >= 1:
            axis = self.r.randrange(r + 1)
            return self.emit("Flatten", [a], F, (int(np.prod(a.shape[:axis], dtype=np.int64)), int(np.prod(a.shape[axis:], dtype=np.int64))), axis=axis)
        if k == 4:
            y = a
            for _ in range(self.r.randint(1, 3)):
                y = self.emit("Identity", [y], F, a.shape)
            return y
        if k == 5 and r >= 1:
            # full-range slice (redundant) or real slice
            ax = self.r.randrange(r)
            d = a.shape[ax]
            if self.r.random() < 0.5:
                st, en = 0, self.r.choice([d, d + 3, 2**62])
                out = a.shape
            else:
                st, en = (1, d) if d >= 1 else (0, 0)
                out = a.shape[:ax] + (max(d - 1, 0),) + a.shape[ax + 1:]
            return self.emit("Slice", [a, self.ints([st]), self.ints([en]), self.ints([ax]), self.ints([1])], F, out)
        if k == 6 and r >= 1:
            pads = [0] * (2 * r)
            return self.emit("Pad", [a, self.ints(pads)], F, a.shape)
        return None

    def t_reduce(self):
        a = self.pick(F)
        if a is None or len(a.shape) < 1:
            return
        r = len(a.shape)
        ax = self.r.randrange(r)
        keep = self.r.randint(0, 1)
        op = self.r.choice(["ReduceSum", "ReduceMean", "ReduceMax", "ReduceMin"])
        if a.shape[ax] == 0 and op != "ReduceSum":
            return
        out = a.shape[:ax] + ((1,) if keep else ()) + a.shape[ax + 1:]
        self.features.add("reduce")
        if op == "ReduceSum" or self.opset >= 18:
            return self.emit(op, [a, self.ints([ax])], F, out, keepdims=keep)
        return self.emit(op, [a], F, out, keepdims=keep, axes=[ax])

    def t_matmul(self):
        a = self.pick(F, rank=2)
        if a is None or 0 in a.shape:
            return
        k = a.shape[1]
        n = self.r.choice([1, 2, 3])
        w = self.const(self.rand_array(F, (k, n)))
        self.features.add("matmul")
        if self.r.random() < 0.5:
            y = self.emit("MatMul", [a, w], F, (a.shape[0], n))
            if self.r.random() < 0.5:
                b = self.const(self.rand_array(F, (n,)))
                y = self.emit("Add", [y, b], F, y.shape)
            return y
        b = self.const(self.rand_array(F, (n,)))
        return self.emit("Gemm", [a, w, b], F, (a.shape[0], n), alpha=self.r.choice([1.0, 0.5]), beta=self.r.choice([1.0, 2.0]))

    def t_concat_split(self):
        a = self.pick(F)
        if a is None or len(a.shape) < 1:
            return
        ax = self.r.randrange(len(a.shape))
        b = self.pick(F, shape=a.shape) or a
        c = self.emit("Concat", [a, b], F, a.shape[:ax] + (2 * a.shape[ax],) + a.shape[ax + 1:], axis=ax)
        self.features.add("concat_split")
        if self.r.random() < 0.6:
            outs = [self.name(), self.name()]
            if self.opset >= 18:
                self.nodes.append(oh.make_node("Split", [c.name], outs, axis=ax, num_outputs=2))
            else:
                self.nodes.append(oh.make_node("Split", [c.name], outs, axis=ax))
            vs = [V(o, F, a.shape) for o in outs]
            self.vals.extend(vs)
            return vs[self.r.randrange(2)]
        return c

    def t_clip_relu(self):
        a = self.pick(F)
        if a is None:
            return
        lo, hi = self.r.choice([(-2.0, -1.0), (-1.0, 2.0), (0.0, 6.0), (1.0, -1.0), (0.5, 0.5), (-3.0, 0.0)])
        clo = self.const(np.array(lo, dtype=np.float32))
        chi = self.const(np.array(hi, dtype=np.float32))
        k = self.r.randrange(4)
        self.features.add("clip_relu")
        if k == 0:
            y = self.emit("Clip", [a, clo, chi], F, a.shape)
            return self.emit("Relu", [y], F, a.shape)
        if k == 1:
            y = self.emit("Relu", [a], F, a.shape)
            return self.emit("Clip", [y, clo, chi], F, a.shape)
        if k == 2:
            y = self.emit("Clip", [a, clo, chi], F, a.shape)
            lo2, hi2 = self.r.choice([(-1.0, 1.0), (0.0, 0.5), (2.0, 3.0)])
            return self.emit("Clip", [y, self.const(np.array(lo2, dtype=np.float32)), self.const(np.array(hi2, dtype=np.float32))], F, a.shape)
        y = self.emit("Min", [a, chi], F, a.shape)
        return self.emit("Max", [y, clo], F, a.shape)

    def t_dropout(self):
        a = self.pick(F)
        if a is None:
            return
        self.features.add("dropout")
        k = self.r.randrange(4)
        if k == 3:
            # training_mode decided at run time (a graph input): must not be optimized away
            t = next((v for v in self.inputs if v.dt == B and v.shape == ()), None)
            if t is None:
                t = self.add_input(B, ())
            ratio = self.const(np.array(self.r.choice([0.5, 0.0]), dtype=np.float32))
            self.features.add("dropout_runtime_training")
            return self.emit("Dropout", [a, ratio, t], F, a.shape, seed=7)
        if k == 0:
            return self.emit("Dropout", [a], F, a.shape)
        if k == 1:
            ratio = self.const(np.array(0.5, dtype=np.float32))
            tm = self.const(np.array(False))
            return self.emit("Dropout", [a, ratio, tm], F, a.shape)
        outs = [self.name(), self.name()]
        self.nodes.append(oh.make_node("Dropout", [a.name], outs))
        y, m = V(outs[0], F, a.shape), V(outs[1], B, a.shape)
        self.vals.extend([y, m])
        mf = self.emit("Cast", [m], F, a.shape, to=F)
        return self.emit("Mul", [y, mf], F, a.shape)

    def t_gather(self):
        a = self.pick(F)
        if a is None or len(a.shape) < 1 or a.shape[0] == 0:
            return
        idx = self.r.choice([[0], [-1], [0, 0]]) if self.r.random() < 0.7 else 0
        i = self.const(np.array(idx, dtype=np.int64))
        self.features.add("gather")
        return self.emit("Gather", [a, i], F, tuple(np.shape(idx)) + a.shape[1:], axis=0)

    def t_sequence(self):
        a = self.pick(F)
        if a is None or len(a.shape) < 1:
            return
        b = self.pick(F, shape=a.shape) or a
        seq = self.name("s")
        self.nodes.append(oh.make_node("SequenceConstruct", [a.name, b.name], [seq]))
        self.features.add("sequence")
        if self.r.random() < 0.5:
            return self.emit("SequenceAt", [seq, self.const(np.array(self.r.choice([0, 1, -1]), dtype=np.int64))], F, a.shape)
        return self.emit("ConcatFromSequence", [seq], F, (2 * a.shape[0],) + a.shape[1:], axis=0)

    def t_if(self):
        a = self.pick(F)
        if a is None:
            return
        mode = self.r.randrange(3)
        if mode == 0:
            cond = self.const(np.array(self.r.random() < 0.5))
            self.features.add("if_const")
        elif mode == 1:
            # constant through a small chain (foldable)
            x = self.const(np.array(2.0, dtype=np.float32))
            y = self.const(np.array(self.r.choice([1.0, 3.0]), dtype=np.float32))
            cond = self.emit("Less", [x, y], B, ())
            self.features.add("if_folded_cond")
        else:
            s = self.emit("ReduceSum", [a], F, (), keepdims=0)
            cond = self.emit("Greater", [s, self.const(np.array(0.5, dtype=np.float32))], B, ())
            self.features.add("if_symbolic")

        def branch(tag, opname):
            o = self.name("b")
            if self.r.random() < 0.25:
                # pass-through branch: forwards a value of the enclosing graph (node output, input or initializer-input)
                self.features.add("if_passthrough")
                return oh.make_graph([oh.make_node("Identity", [a.name], [o])], tag, [], [oh.make_tensor_value_info(o, F, list(a.shape))])
            wname = self.name("w")
            w = nh.from_array(self.rand_array(F, a.shape[-1:] if a.shape else ()), wname)
            nodes = [oh.make_node(opname, [a.name, wname], [o])]  # captures outer `a`, owns initializer w
            if self.r.random() < 0.4:
                o2 = self.name("b")
                nodes.append(oh.make_node("Relu", [o], [o2]))
                o = o2
            return oh.make_graph(nodes, tag, [], [oh.make_tensor_value_info(o, F, list(a.shape))], [w])
        tb = branch(self.name("then"), self.r.choice(["Add", "Mul"]))
        eb = branch(self.name("else"), self.r.choice(["Sub", "Mul"]))
        return self.emit("If", [cond], F, a.shape, then_branch=tb, else_branch=eb)

    def t_loop(self):
        a = self.pick(F)
        if a is None:
            return
        trip = self.const(np.array(self.r.choice([0, 1, 2, 3]), dtype=np.int64))
        cond = self.const(np.array(True))
        it, ci, st = self.name("it"), self.name("ci"), self.name("st")
        co, so = self.name("co"), self.name("so")
        wname = self.name("w")
        w = nh.from_array(np.array(self.r.choice([0.5, 1.0, 2.0]), dtype=np.float32), wname)
        body = oh.make_graph(
            [oh.make_node("Identity", [ci], [co]), oh.make_node("Mul", [st, wname], [so + "_m"]), oh.make_node("Add", [so + "_m", a.name], [so])],
            self.name("body"),
            [oh.make_tensor_value_info(it, I, []), oh.make_tensor_value_info(ci, B, []), oh.make_tensor_value_info(st, F, list(a.shape))],
            [oh.make_tensor_value_info(co, B, []), oh.make_tensor_value_info(so, F, list(a.shape))], [w])
        self.features.add("loop")
        return self.emit("Loop", [trip, cond, a], F, a.shape, body=body)

    def t_function(self):
        a = self.pick(F)
        if a is None:
            return
        fname = self.name("Fn")
        f = oh.make_function(
            "local", fname, ["p"], ["q"],
            [oh.make_node("Constant", [], ["k"], value_float=1.0), oh.make_node("Mul", ["p", "k"], ["pk"]),
             oh.make_node("LeakyRelu", ["pk"], ["q0"]), oh.make_node("Identity", ["q0"], ["q"])],
            [oh.make_opsetid("", self.opset)], attributes=[], )
        # attribute reference: alpha of LeakyRelu refers to function attribute `slope`
        f.node[2].attribute.append(_attr_ref("alpha", "slope"))
        f.attribute.append("slope")
        if self.r.random() < 0.5:
            # a node whose operands are all constants but whose attribute is a reference: it must not be evaluated inside the function
            # (the attribute value is only known at the call site)
            extra = [oh.make_node("Constant", [], ["kc"], value=nh.from_array(np.array([-1.0, 2.0, -0.5][: max(1, (a.shape[-1] if a.shape else 1))] if False else [-1.0], dtype=np.float32), "kc_v")),
                     oh.make_node("LeakyRelu", ["kc"], ["kl"]), oh.make_node("Add", ["q0", "kl"], ["q"])]
            extra[1].attribute.append(_attr_ref("alpha", "slope"))
            del f.node[3]
            f.node.extend(extra)
            self.features.add("function_foldable_node_with_attr_ref")
        self.functions.append(f)
        self.features.add("function_attr_ref")
        outs = self.name()
        self.nodes.append(oh.make_node(fname, [a.name], [outs], domain="local", slope=self.r.choice([0.5, 0.0, 2.0])))
        v = V(outs, F, a.shape)
        self.vals.append(v)
        return v

    def t_const_fold(self):
        # constant-only subexpression feeding a symbolic op
        a = self.pick(F)
        if a is None:
            return
        c1 = self.const(self.rand_array(F, ()))
        c2 = self.const(self.rand_array(F, self.r.choice([(), (1,)])))
        s = self.emit(self.r.choice(["Add", "Mul", "Sub"]), [c1, c2], F, c2.shape)
        if self.r.random() < 0.4:
            s = self.emit("Sqrt", [self.emit("Abs", [s], F, c2.shape)], F, c2.shape)
        self.features.add("const_subexpr")
        return self.emit("Mul", [a, s], F, np.broadcast_shapes(a.shape, c2.shape))

    TEMPLATES = [
        ("t_binary", 6), ("t_unary", 3), ("t_where", 2), ("t_cast_chain", 2), ("t_shape_chain", 4), ("t_reshape_family", 5),
        ("t_reduce", 2), ("t_matmul", 2), ("t_concat_split", 2), ("t_clip_relu", 3), ("t_dropout", 2), ("t_gather", 1),
        ("t_sequence", 1), ("t_if", 3), ("t_loop", 2), ("t_function", 1), ("t_const_fold", 2), ("t_div", 1),
    ]

    def build(self, n_ops: int, name="g") -> onnx.ModelProto:
        r = self.r
        names = [t for t, w in self.TEMPLATES for _ in range(w)]
        produced = []
        tries = 0
        while len(produced) < n_ops and tries < n_ops * 6:
            tries += 1
            t = getattr(self, r.choice(names))
            try:
                v = t()
            except ValueError:
                v = None
            if v is not None:
                produced.append(v)
        # outputs: last produced + maybe one more; every output must be a tensor
        outs = []
        for v in reversed(produced):
            if v.name not in [o.name for o in outs] and v.name not in {i.name for i in self.inputs}:
                outs.append(v)
            if len(outs) >= r.randint(1, 2):
                break
        if not outs:
            a = self.inputs[0]
            outs = [self.emit("Identity", [a], a.dt, a.shape)]
        g = oh.make_graph(
            self.nodes, name,
            [oh.make_tensor_value_info(v.name, v.dt, self._decl_shape(v)) for v in self.inputs],
            [oh.make_tensor_value_info(v.name, v.dt, list(v.shape)) for v in outs],
            self.inits,
        )
        opsets = [oh.make_opsetid("", self.opset)]
        if self.functions:
            opsets.append(oh.make_opsetid("local", 1))
        m = oh.make_model(g, opset_imports=opsets, functions=self.functions, ir_version=9 if self.opset <= 20 else 10)
        return m

    def _decl_shape(self, v):
        if self.sym_dims and v.name in self.sym_dims:
            return list(self.sym_dims[v.name])
        return list(v.shape)


def _attr_ref(name, ref):
    a = onnx.AttributeProto()
    a.name = name
    a.type = onnx.AttributeProto.FLOAT
    a.ref_attr_name = ref
    return a


SHAPES = [(2,), (3,), (2, 3), (1, 3), (2, 1), (1,), (), (0,), (2, 0), (2, 2, 2), (1, 2, 3)]


def random_model(seed: int, idx: int, opset=18) -> tuple:
    r = random.Random(seed * 7919 + idx)
    b = Builder(r, opset)
    shape = r.choice(SHAPES[:5] * 3 + SHAPES)
    b.add_input(F, shape)
    if r.random() < 0.5:
        b.add_input(F, shape, with_default=r.random() < 0.4)
    if r.random() < 0.3:
        b.add_input(I, shape)
    if r.random() < 0.3:
        b.add_input(F, r.choice([shape[-1:], (1,), ()]), with_default=True)
    m = b.build(r.randint(3, 9), f"gen{idx}")
    spec = [(v.name, v.dt, v.shape) for v in b.inputs]
    return m, spec, sorted(b.features)
