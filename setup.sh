#!/usr/bin/env bash
# Idempotent, offline bootstrap of the overlay venv used by every check.
# /verif/.venv = venv of /venv/bin/python + .pth to /venv's site-packages (repo deps, editable onnxscript -> /repo)
# + crosshair-tool, z3-solver, jsonschema from the offline wheelhouse.
set -u
HERE="$(cd "$(dirname "${BASH_SOURCE[0]}")" && pwd)"
VENV="$HERE/.venv"
STAMP="$VENV/.vp_ready_v2"
[ -f "$STAMP" ] && exit 0
exec 9>"$HERE/.venv.lock"
flock 9
[ -f "$STAMP" ] && exit 0
set -e
rm -rf "$VENV"
/venv/bin/python -m venv "$VENV"
SP="$("$VENV/bin/python" -c 'import sysconfig; print(sysconfig.get_paths()["purelib"])')"
echo "import site; site.addsitedir('/venv/lib/python3.12/site-packages')" > "$SP/_vp_overlay.pth"
PIP_NO_INDEX=1 "$VENV/bin/python" -m pip install -q --no-index --find-links /opt/veriftools/wheels \
    crosshair-tool z3-solver jsonschema >&2
"$VENV/bin/python" - <<'PY'
import crosshair, z3, jsonschema, onnxscript, onnx, onnx_ir, onnxruntime, numpy
assert onnxscript.__file__.startswith("/repo/"), onnxscript.__file__
PY
touch "$STAMP"
